(* Completeness of parse.iter_matches (Model/Rewrite.v): no first match of a pattern on a line
   is dropped without a reason.  The only reason is an EARLIER candidate (pattern-major order)
   on the same line whose span touches or overlaps it. *)
From Coq Require Import List Bool NArith Arith Lia.
From BV Require Import Lib.PyStr Model.Rewrite Proofs.RewriteFacts.
Import ListNotations.
Local Open Scope nat_scope.

(* ================================================================== 1. has_overlap *)

(* symmetric closed-interval intersection on the same line *)
Lemma has_overlap_spec : forall m spans,
  has_overlap m spans = true <->
  exists ln s e, In (ln, s, e) spans /\ ln = pm_line m /\ pm_start m <= e /\ s <= pm_end m.
Proof.
  intros m spans. unfold has_overlap. rewrite existsb_exists. split.
  - intros [[[ln s] e] [Hin H]].
    apply andb_true_iff in H as [H H3]. apply andb_true_iff in H as [H1 H2].
    apply Nat.eqb_eq in H1. apply Nat.leb_le in H2. apply Nat.leb_le in H3.
    exists ln, s, e. auto.
  - intros (ln & s & e & Hin & H1 & H2 & H3). exists (ln, s, e). split; [exact Hin|].
    apply andb_true_iff. split; [apply andb_true_iff; split|].
    + apply Nat.eqb_eq. exact H1.
    + apply Nat.leb_le. exact H2.
    + apply Nat.leb_le. exact H3.
Qed.

Lemma has_overlap_false_spec : forall m spans,
  has_overlap m spans = false <->
  forall ln s e, In (ln, s, e) spans -> ln = pm_line m -> e < pm_start m \/ pm_end m < s.
Proof.
  intros m spans. split.
  - intros H ln s e Hin Hln.
    destruct (Nat.lt_ge_cases e (pm_start m)) as [H1|H1]; [left; exact H1|].
    destruct (Nat.lt_ge_cases (pm_end m) s) as [H2|H2]; [right; exact H2|].
    exfalso. assert (Ht : has_overlap m spans = true).
    { apply has_overlap_spec. exists ln, s, e. auto. }
    congruence.
  - intros H. destruct (has_overlap m spans) eqn:E; [|reflexivity].
    exfalso. apply has_overlap_spec in E as (ln & s & e & Hin & H1 & H2 & H3).
    destruct (H ln s e Hin H1); lia.
Qed.

(* ================================================================== 2. candidates *)

Definition candidates (lines : list (list N)) (pats : list cpat) : list pmatch :=
  flat_map (fun p => iter_for_pattern p lines O) pats.

Lemma iter_matches_candidates : forall lines pats,
  iter_matches lines pats = filter_overlaps (candidates lines pats) [].
Proof. reflexivity. Qed.

(* the span triple recorded for a visited candidate *)
Definition span_of (c : pmatch) : nat * nat * nat := (pm_line c, pm_start c, pm_end c).

Lemma ifp_complete : forall p lines n i a b,
  i < length lines -> cp_search p (nth i lines []) = Some (a, b) -> a < b ->
  In (mkpm p (n + i) a b) (iter_for_pattern p lines n).
Proof.
  intros p lines. induction lines as [|l t IH]; intros n i a b Hi Hs Hab; simpl in Hi; [lia|].
  destruct i as [|i].
  - simpl in Hs. simpl. rewrite Hs.
    assert (Hlt : Nat.ltb a b = true) by (apply Nat.ltb_lt; exact Hab).
    rewrite Hlt. left. rewrite Nat.add_0_r. reflexivity.
  - simpl in Hs.
    assert (Hrec : In (mkpm p (n + S i) a b) (iter_for_pattern p t (S n))).
    { replace (n + S i) with (S n + i) by lia. apply IH; [lia|exact Hs|exact Hab]. }
    simpl. destruct (cp_search p l) as [[a0 b0]|]; [|exact Hrec].
    destruct (Nat.ltb a0 b0); [right|]; exact Hrec.
Qed.

(* the first match of p on line i, when non-empty, and nothing else *)
Lemma candidate_iff : forall p lines m,
  In m (iter_for_pattern p lines 0) <->
  (pm_pat m = p /\ pm_line m < length lines /\
   cp_search p (nth (pm_line m) lines []) = Some (pm_start m, pm_end m) /\
   pm_start m < pm_end m).
Proof.
  intros p lines m. split.
  - intros H. apply ifp_in in H as (H1 & H2 & H3 & H4 & H5).
    rewrite Nat.sub_0_r in H4. repeat split; auto.
  - intros (H1 & H2 & H3 & H4). destruct m as [q i a b]. simpl in *. subst q.
    apply (ifp_complete p lines 0 i a b H2 H3 H4).
Qed.

Lemma in_candidates_iff : forall lines pats m,
  In m (candidates lines pats) <->
  (In (pm_pat m) pats /\ pm_line m < length lines /\
   cp_search (pm_pat m) (nth (pm_line m) lines []) = Some (pm_start m, pm_end m) /\
   pm_start m < pm_end m).
Proof.
  intros lines pats m. unfold candidates. rewrite in_flat_map. split.
  - intros (p & Hp & Hm). apply candidate_iff in Hm as (H1 & H2 & H3 & H4). subst p. auto.
  - intros (H1 & H2 & H3 & H4). exists (pm_pat m). split; [exact H1|].
    apply candidate_iff. auto.
Qed.

(* ================================================================== 3. filter_overlaps *)

Lemma filter_overlaps_sound : forall cands spans m, In m (filter_overlaps cands spans) ->
  exists pre post, cands = pre ++ m :: post /\
    has_overlap m (spans ++ map (fun c => (pm_line c, pm_start c, pm_end c)) pre) = false.
Proof.
  induction cands as [|c t IH]; intros spans m H; simpl in H; [contradiction|].
  assert (Hrec : In m (filter_overlaps t (spans ++ [(pm_line c, pm_start c, pm_end c)])) ->
    exists pre post, c :: t = pre ++ m :: post /\
      has_overlap m (spans ++ map (fun c => (pm_line c, pm_start c, pm_end c)) pre) = false).
  { intros H'. apply IH in H' as (pre & post & Ht & Ho).
    exists (c :: pre), post. split; [simpl; f_equal; exact Ht|].
    rewrite <- app_assoc in Ho. simpl in Ho. simpl. exact Ho. }
  destruct (has_overlap c spans) eqn:Hc; [apply Hrec; exact H|].
  destruct H as [H|H]; [|apply Hrec; exact H].
  subst m. exists [], t. split; [reflexivity|]. simpl. rewrite app_nil_r. exact Hc.
Qed.

Lemma filter_overlaps_complete : forall cands spans m pre post, cands = pre ++ m :: post ->
  has_overlap m (spans ++ map (fun c => (pm_line c, pm_start c, pm_end c)) pre) = false ->
  In m (filter_overlaps cands spans).
Proof.
  induction cands as [|c t IH]; intros spans m pre post Hc Ho.
  - destruct pre; discriminate.
  - destruct pre as [|c' pre'].
    + simpl in Hc. injection Hc as Hcm Ht. subst c. simpl in Ho. rewrite app_nil_r in Ho.
      simpl. rewrite Ho. left. reflexivity.
    + simpl in Hc. injection Hc as Hcc Ht. subst c'.
      assert (Hrec : In m (filter_overlaps t (spans ++ [(pm_line c, pm_start c, pm_end c)]))).
      { apply (IH _ m pre' post Ht). rewrite <- app_assoc. simpl. simpl in Ho. exact Ho. }
      simpl. destruct (has_overlap c spans); [|right]; exact Hrec.
Qed.

(* the key lemma: m is yielded iff some occurrence of m among the candidates does not touch
   any span recorded before it (initial spans or earlier candidates, yielded or not) *)
Lemma filter_overlaps_spec : forall cands spans m,
  In m (filter_overlaps cands spans) <->
  exists pre post, cands = pre ++ m :: post /\
    has_overlap m (spans ++ map (fun c => (pm_line c, pm_start c, pm_end c)) pre) = false.
Proof.
  intros cands spans m. split.
  - apply filter_overlaps_sound.
  - intros (pre & post & Hc & Ho). eapply filter_overlaps_complete; eauto.
Qed.

(* the same for iter_matches, with the overlap test spelled out *)
Theorem iter_matches_yield_iff : forall lines pats m,
  In m (iter_matches lines pats) <->
  exists pre post, candidates lines pats = pre ++ m :: post /\
    forall c, In c pre -> pm_line c = pm_line m -> pm_end c < pm_start m \/ pm_end m < pm_start c.
Proof.
  intros lines pats m. rewrite iter_matches_candidates, filter_overlaps_spec. simpl.
  split; intros (pre & post & Hc & H); exists pre, post; (split; [exact Hc|]).
  - intros c Hin Hl.
    apply (proj1 (has_overlap_false_spec _ _) H (pm_line c) (pm_start c) (pm_end c)); [|exact Hl].
    apply in_map_iff. exists c. auto.
  - apply has_overlap_false_spec. intros ln s e Hin Hl.
    apply in_map_iff in Hin as (c & Hc' & Hin). injection Hc' as <- <- <-. auto.
Qed.

(* ================================================================== 4. completeness *)

(* every non-empty first match is a candidate; it is yielded unless an EARLIER candidate on the
   same line touches or overlaps it *)
Theorem iter_matches_complete : forall lines pats p i a b,
  In p pats -> i < length lines -> cp_search p (nth i lines []) = Some (a, b) -> a < b ->
  exists pre post, candidates lines pats = pre ++ mkpm p i a b :: post /\
    (In (mkpm p i a b) (iter_matches lines pats) \/
     exists c, In c pre /\ pm_line c = i /\ a <= pm_end c /\ pm_start c <= b).
Proof.
  intros lines pats p i a b Hp Hi Hs Hab.
  assert (Hin : In (mkpm p i a b) (candidates lines pats)).
  { unfold candidates. apply in_flat_map. exists p. split; [exact Hp|].
    apply (ifp_complete p lines 0 i a b Hi Hs Hab). }
  apply in_split in Hin as (pre & post & Hc). exists pre, post. split; [exact Hc|].
  destruct (has_overlap (mkpm p i a b) (map (fun c => (pm_line c, pm_start c, pm_end c)) pre)) eqn:Ho.
  - right. apply has_overlap_spec in Ho as (ln & s & e & Hin & H1 & H2 & H3). simpl in H1, H2, H3.
    apply in_map_iff in Hin as (c & Hc' & Hin). injection Hc' as <- <- <-.
    exists c. auto.
  - left. rewrite iter_matches_candidates. apply filter_overlaps_spec.
    exists pre, post. split; [exact Hc|]. simpl. exact Ho.
Qed.

(* the candidates of one pattern are on strictly increasing lines *)
Lemma ifp_split : forall p lines n i a b,
  i < length lines -> cp_search p (nth i lines []) = Some (a, b) -> a < b ->
  exists pre post, iter_for_pattern p lines n = pre ++ mkpm p (n + i) a b :: post /\
    forall c, In c pre -> pm_line c < n + i.
Proof.
  intros p lines. induction lines as [|l t IH]; intros n i a b Hi Hs Hab; simpl in Hi; [lia|].
  destruct i as [|i].
  - simpl in Hs. simpl. rewrite Hs.
    assert (Hlt : Nat.ltb a b = true) by (apply Nat.ltb_lt; exact Hab).
    rewrite Hlt. exists [], (iter_for_pattern p t (S n)). split.
    + rewrite Nat.add_0_r. reflexivity.
    + intros c [].
  - simpl in Hs.
    destruct (IH (S n) i a b) as (pre & post & He & Hpre); [lia|exact Hs|exact Hab|].
    replace (S n + i) with (n + S i) in * by lia.
    simpl. destruct (cp_search p l) as [[a0 b0]|].
    + destruct (Nat.ltb a0 b0).
      * exists (mkpm p n a0 b0 :: pre), post. split; [simpl; f_equal; exact He|].
        intros c [<-|Hc]; [simpl; lia|apply Hpre; exact Hc].
      * exists pre, post. auto.
    + exists pre, post. auto.
Qed.

(* the first configured pattern loses nothing *)
Theorem iter_matches_first_pattern_complete : forall lines p0 rest i a b,
  i < length lines -> cp_search p0 (nth i lines []) = Some (a, b) -> a < b ->
  In (mkpm p0 i a b) (iter_matches lines (p0 :: rest)).
Proof.
  intros lines p0 rest i a b Hi Hs Hab.
  destruct (ifp_split p0 lines 0 i a b Hi Hs Hab) as (pre & post & He & Hpre). simpl in He, Hpre.
  apply iter_matches_yield_iff.
  exists pre, (post ++ candidates lines rest). split.
  - unfold candidates. simpl. rewrite He. rewrite <- app_assoc. reflexivity.
  - intros c Hc Hl. simpl in Hl. apply Hpre in Hc. lia.
Qed.

Lemma first_split : forall A (f : A -> bool) l x, In x l -> f x = true ->
  exists pre y post, l = pre ++ y :: post /\ f y = true /\ forall z, In z pre -> f z = false.
Proof.
  intros A f. induction l as [|h t IH]; intros x Hin Hf; [contradiction|].
  destruct (f h) eqn:Eh.
  - exists [], h, t. split; [reflexivity|]. split; [exact Eh|]. intros z [].
  - destruct Hin as [Hx|Hin]; [subst h; congruence|].
    destruct (IH x Hin Hf) as (pre & y & post & Ht & Hy & Hpre).
    exists (h :: pre), y, post. split; [simpl; f_equal; exact Ht|]. split; [exact Hy|].
    intros z [Hz|Hz]; [subst z; exact Eh|apply Hpre; exact Hz].
Qed.

(* a first match that is strictly apart from every other candidate on its line is yielded
   (a candidate of the same pattern at the same position is that match itself) *)
Theorem iter_matches_apart_complete : forall lines pats p i a b,
  In p pats -> i < length lines -> cp_search p (nth i lines []) = Some (a, b) -> a < b ->
  (forall c, In c (candidates lines pats) -> pm_line c = i ->
     (pm_end c < a \/ b < pm_start c) \/ (pm_start c = a /\ pm_end c = b /\ pm_pat c = p)) ->
  In (mkpm p i a b) (iter_matches lines pats).
Proof.
  intros lines pats p i a b Hp Hi Hs Hab Hap.
  assert (Hin : In (mkpm p i a b) (candidates lines pats)).
  { unfold candidates. apply in_flat_map. exists p. split; [exact Hp|].
    apply (ifp_complete p lines 0 i a b Hi Hs Hab). }
  set (f := fun c : pmatch => Nat.eqb (pm_line c) i && Nat.eqb (pm_start c) a && Nat.eqb (pm_end c) b).
  assert (Hf : forall c, f c = true <-> (pm_line c = i /\ pm_start c = a /\ pm_end c = b)).
  { intros c. unfold f. rewrite !andb_true_iff, !Nat.eqb_eq. tauto. }
  assert (Hfm : f (mkpm p i a b) = true) by (apply Hf; simpl; auto).
  destruct (first_split _ f _ _ Hin Hfm) as (pre & c0 & post & Hc & Hc0 & Hpre).
  apply Hf in Hc0 as (H1 & H2 & H3).
  assert (Hc0in : In c0 (candidates lines pats)) by (rewrite Hc; apply in_or_app; right; left; reflexivity).
  assert (Hpat : pm_pat c0 = p).
  { destruct (Hap c0 Hc0in H1) as [[H|H]|(_ & _ & H)]; [lia|lia|exact H]. }
  assert (Heq : c0 = mkpm p i a b).
  { destruct c0 as [q0 i0 a0 b0]. simpl in *. subst. reflexivity. }
  subst c0.
  apply iter_matches_yield_iff. exists pre, post. split; [exact Hc|].
  intros c Hcin Hl. simpl in Hl. simpl.
  assert (Hcc : In c (candidates lines pats)) by (rewrite Hc; apply in_or_app; left; exact Hcin).
  destruct (Hap c Hcc Hl) as [H|(Ha & Hb & _)]; [exact H|].
  exfalso. assert (Ht : f c = true) by (apply Hf; auto).
  rewrite (Hpre c Hcin) in Ht. discriminate.
Qed.

(* the same in terms of the patterns: every other non-empty first match on line i is strictly
   apart from (a, b), or is the first match of p itself *)
Corollary iter_matches_alone_on_line : forall lines pats p i a b,
  In p pats -> i < length lines -> cp_search p (nth i lines []) = Some (a, b) -> a < b ->
  (forall q, In q pats -> forall a' b', cp_search q (nth i lines []) = Some (a', b') -> a' < b' ->
     (b' < a \/ b < a') \/ (q = p /\ a' = a /\ b' = b)) ->
  In (mkpm p i a b) (iter_matches lines pats).
Proof.
  intros lines pats p i a b Hp Hi Hs Hab Hq.
  apply iter_matches_apart_complete; auto.
  intros c Hc Hl. apply in_candidates_iff in Hc as (H1 & H2 & H3 & H4). rewrite Hl in H3.
  destruct (Hq _ H1 _ _ H3 H4) as [H|(H5 & H6 & H7)]; [left; exact H|right; auto].
Qed.

(* ================================================================== 5. concrete instances *)

(* "x=AAA;y=BB", patterns in the order BB, AAA: the later pattern's first match (2,5) lies strictly
   LEFT of the earlier pattern's match (8,10) and is still yielded; both are replaced *)
Example later_pattern_left_is_yielded :
  map span_of (candidates [ex_line] [ex_pB; ex_pA]) = [(0, 8, 10); (0, 2, 5)] /\
  map span_of (iter_matches [ex_line] [ex_pB; ex_pA]) = [(0, 8, 10); (0, 2, 5)] /\
  map (fun m => cp_id (pm_pat m)) (iter_matches [ex_line] [ex_pB; ex_pA]) = [cp_id ex_pB; cp_id ex_pA] /\
  rewrite_lines [ex_pB; ex_pA] [ex_line] = RwOk [ex_new_line].
Proof. vm_compute. repeat split; reflexivity. Qed.

(* "AAABB": the match of BB (3,5) touches the earlier candidate AAA (0,3) and is dropped, in either
   order the second pattern loses; rewrite_lines then reports the "greedy" NoPatternMatch *)
Definition ex_touch_line : list N := [65;65;65;66;66]%N.
Example touching_match_is_dropped :
  map span_of (candidates [ex_touch_line] [ex_pA; ex_pB]) = [(0, 0, 3); (0, 3, 5)] /\
  map span_of (iter_matches [ex_touch_line] [ex_pA; ex_pB]) = [(0, 0, 3)] /\
  map span_of (iter_matches [ex_touch_line] [ex_pB; ex_pA]) = [(0, 3, 5)] /\
  rewrite_lines [ex_pA; ex_pB] [ex_touch_line] = RwGreedy.
Proof. vm_compute. repeat split; reflexivity. Qed.

(* one separating character is enough: "AAA;BB" yields both *)
Example separated_by_one_is_yielded :
  map span_of (iter_matches [[65;65;65;59;66;66]%N] [ex_pA; ex_pB]) = [(0, 0, 3); (0, 4, 6)].
Proof. vm_compute. reflexivity. Qed.
