(* Soundness of the decidable separation conditions of Model/PatParse.v: whenever the correspondence
   harness sees bridge_ok v s = true, the pattern text s reads into an AST p that prints back to s,
   the Prop-level separation conditions of Model/PatAst.v hold, hence the round-trip theorem
   (Proofs/PatAstFacts.v) applies, and the string layer agrees with the AST layer on the rendered
   text and on the preferred match. *)
From Coq Require Import List Bool NArith ZArith Arith Lia.
From BV Require Import Lib.PyStr Lib.Decimal Lib.Types Lib.Harness Lib.Regex Lib.RegexParse Model.V2 Gen.Tables
  Model.PatAst Model.PatParse Proofs.RegexFacts Proofs.PatAstFacts.
Import ListNotations.

Local Opaque compile_pattern_re format_version parse_pat re_match.

(* ------------------------------------------------------------------ boolean equalities *)
Lemma bf_eqb_str_eq : forall a b, eqb_str a b = true -> a = b.
Proof.
  induction a as [|x a IH]; intros [|y b] H; cbn [eqb_str] in H; try reflexivity; try discriminate H.
  apply andb_prop in H. destruct H as [H1 H2]. apply N.eqb_eq in H1. rewrite H1, (IH b H2). reflexivity.
Qed.

Lemma bf_eqb_ostr_eq : forall a b, eqb_ostr a b = true -> a = b.
Proof.
  intros [x|] [y|] H; cbn [eqb_ostr] in H; try discriminate H; [|reflexivity].
  rewrite (bf_eqb_str_eq x y H). reflexivity.
Qed.

Lemma bf_eqb_env_eq : forall a b, eqb_env a b = true -> a = b.
Proof.
  induction a as [|[k x] a IH]; intros [|[k' y] b] H; cbn [eqb_env] in H; try reflexivity; try discriminate H.
  apply andb_prop in H. destruct H as [H H3]. apply andb_prop in H. destruct H as [H1 H2].
  rewrite (bf_eqb_str_eq k k' H1), (bf_eqb_str_eq x y H2), (IH b H3). reflexivity.
Qed.

(* ------------------------------------------------------------------ anchors *)
Lemma has_anchor_no_anchor : forall r, has_anchor r = false -> no_anchor r = true.
Proof.
  induction r as [|neg p|a IHa b IHb|a IHa b IHb|a IHa|n a IHa| |]; cbn [has_anchor no_anchor]; intros H.
  - reflexivity.
  - reflexivity.
  - apply orb_false_iff in H. destruct H as [Ha Hb]. rewrite (IHa Ha), (IHb Hb). reflexivity.
  - apply orb_false_iff in H. destruct H as [Ha Hb]. rewrite (IHa Ha), (IHb Hb). reflexivity.
  - exact (IHa H).
  - exact (IHa H).
  - discriminate H.
  - discriminate H.
Qed.

(* ------------------------------------------------------------------ the missing fuel lemma *)
(* rems_fuel (Proofs/RegexFacts.v) only relates fuels that are BOTH at least the subject length.
   The obligation of an omitted optional group in sep_ok asks for rems f n0 (comp g) s = [] for EVERY
   fuel f, also below the subject length.  What is needed is monotonicity: less fuel never produces a
   match that more fuel does not produce (with less fuel a Star stops unrolling earlier and only
   yields its shorter alternatives). *)
Lemma rems_fuel_incl : forall r f f' n0 s, (f <= f')%nat -> incl (rems f n0 r s) (rems f' n0 r s).
Proof.
  induction r as [|neg p|a IHa b IHb|a IHa b IHb|a IHa|n a IHa| |]; intros f f' n0 s Hle.
  - rewrite !rems_eps. apply incl_refl.
  - rewrite !rems_cls. apply incl_refl.
  - rewrite !rems_cat. intros x Hin.
    apply in_flat_map in Hin. destruct Hin as [[e1 s1] [H1 H2]].
    apply in_flat_map. exists (e1, s1). split; [exact (IHa f f' n0 s Hle _ H1)|].
    apply in_map_iff in H2. destruct H2 as [[e2 s2] [E H2]].
    apply in_map_iff. exists (e2, s2). split; [exact E|exact (IHb f f' n0 s1 Hle _ H2)].
  - rewrite !rems_alt. intros x Hin. apply in_app_or in Hin. apply in_or_app.
    destruct Hin as [H|H]; [left; exact (IHa f f' n0 s Hle _ H)|right; exact (IHb f f' n0 s Hle _ H)].
  - revert f' s Hle. induction f as [|k IHk]; intros f' s Hle.
    + rewrite rems_star0. destruct f' as [|k'].
      * rewrite rems_star0. apply incl_refl.
      * rewrite rems_starS. intros x Hin. apply in_or_app. right. exact Hin.
    + destruct f' as [|k']; [lia|].
      rewrite !rems_starS. intros x Hin. apply in_app_or in Hin. apply in_or_app.
      destruct Hin as [H|H]; [left|right; exact H].
      apply in_flat_map in H. destruct H as [[e1 s1] [H1 H2]].
      apply in_flat_map. exists (e1, s1). split; [exact (IHa (S k) (S k') n0 s Hle _ H1)|].
      destruct (Nat.ltb (length s1) (length s)); [|exact H2].
      apply in_map_iff in H2. destruct H2 as [[e2 s2] [E H2]].
      apply in_map_iff. exists (e2, s2). split; [exact E|].
      apply (IHk k' s1); [lia|exact H2].
  - rewrite !rems_grp. intros x Hin.
    apply in_map_iff in Hin. destruct Hin as [[e1 s1] [E H]].
    apply in_map_iff. exists (e1, s1). split; [exact E|exact (IHa f f' n0 s Hle _ H)].
  - rewrite !rems_bol. apply incl_refl.
  - rewrite !rems_eol. apply incl_refl.
Qed.

(* no match with fuel = length of the subject: no match with any fuel *)
Lemma rems_nil_any_fuel : forall r n0 s, rems (length s) n0 r s = [] -> forall f, rems f n0 r s = [].
Proof.
  intros r n0 s H f.
  assert (E : rems (Nat.max f (length s)) n0 r s = []).
  { rewrite (rems_fuel r (Nat.max f (length s)) (length s) n0 s); [exact H|lia|lia]. }
  pose proof (rems_fuel_incl r f (Nat.max f (length s)) n0 s (Nat.le_max_l _ _)) as Hi.
  rewrite E in Hi. apply incl_l_nil. exact Hi.
Qed.

(* ------------------------------------------------------------------ parts *)
Theorem part_sep_ok_b_sound : forall v n rest, part_sep_ok_b v n rest = true -> part_sep_ok v n rest.
Proof.
  intros v n rest H f n0 Hf. unfold part_sep_ok_b in H. cbv zeta in H.
  apply andb_prop in H. destruct H as [Ha Hm].
  apply negb_true_iff in Ha. apply has_anchor_no_anchor in Ha.
  rewrite (first_match_fuel (pre n) f (length (ptext v n ++ rest)) n0 (ptext v n ++ rest) Hf (le_n _)).
  unfold first_match in *.
  rewrite (rems_n0_irrel (pre n) Ha (length (ptext v n ++ rest)) n0 (length (ptext v n ++ rest)) (ptext v n ++ rest)).
  destruct (hd_error (rems (length (ptext v n ++ rest)) (length (ptext v n ++ rest)) (pre n) (ptext v n ++ rest)))
    as [[[|x e] r]|]; try discriminate Hm.
  rewrite (bf_eqb_str_eq r rest Hm). reflexivity.
Qed.

(* ------------------------------------------------------------------ patterns *)
Theorem sep_ok_b_sound : forall v p tail, sep_ok_b v p tail = true -> sep_ok v p tail.
Proof.
  intros v p.
  induction p as [|l k IHk|n k IHk|g IHg k IHk]; intros tail H; cbn [sep_ok_b sep_ok] in *.
  - exact I.
  - exact (IHk tail H).
  - apply andb_prop in H. destruct H as [H1 H2]. split.
    + apply part_sep_ok_b_sound. exact H1.
    + exact (IHk tail H2).
  - apply andb_prop in H. destruct H as [H1 H2]. split; [|exact (IHk tail H2)].
    destruct (zero v g).
    + apply andb_prop in H1. destruct H1 as [Hr Ha].
      apply negb_true_iff in Ha. apply has_anchor_no_anchor in Ha.
      intros f n0.
      rewrite (rems_n0_irrel (comp g) Ha f n0 (length (fmt v k ++ tail)) (fmt v k ++ tail)).
      apply rems_nil_any_fuel.
      destruct (rems (length (fmt v k ++ tail)) (length (fmt v k ++ tail)) (comp g) (fmt v k ++ tail));
        [reflexivity|discriminate Hr].
    + exact (IHg (fmt v k ++ tail) H1).
Qed.

Theorem sep_ok_b_roundtrip : forall v p,
  sep_ok_b v p [] = true -> re_match (comp p) (fmt v p) = Some (envof v p, []).
Proof. intros v p H. apply roundtrip_ast_match. apply sep_ok_b_sound. exact H. Qed.

(* ------------------------------------------------------------------ what one accepted harness case means *)
Theorem bridge_ok_spec : forall v s, bridge_ok v s = true ->
  exists p, parse_pat s = Some p /\ print p = s /\ sep_ok v p [] /\ format_version v s = Some (render v p)
            /\ re_match (comp p) (fmt v p) = Some (envof v p, [])
            /\ exists r, compile_pattern_re s = Some r /\ re_match r (fmt v p) = Some (envof v p, []).
Proof.
  intros v s H. unfold bridge_ok in H.
  destruct (parse_pat s) as [p|] eqn:Hp; [|discriminate H].
  apply andb_prop in H. destruct H as [H H5].
  apply andb_prop in H. destruct H as [H H4].
  apply andb_prop in H. destruct H as [H H3].
  apply andb_prop in H. destruct H as [H1 H2].
  apply bf_eqb_str_eq in H1. apply bf_eqb_ostr_eq in H4.
  pose proof (sep_ok_b_sound v p [] H3) as Hsep.
  pose proof (roundtrip_ast_match v p Hsep) as Hrt.
  destruct (compile_pattern_re s) as [r|] eqn:Hc; [|discriminate H5].
  destruct (re_match r (fmt v p)) as [[e1 r1]|] eqn:Hm1; [|discriminate H5].
  rewrite Hrt in H5.
  apply andb_prop in H5. destruct H5 as [H5 _].
  apply andb_prop in H5. destruct H5 as [H5 H8].
  apply andb_prop in H5. destruct H5 as [H6 H7].
  apply bf_eqb_str_eq in H6. apply bf_eqb_env_eq in H7.
  exists p. split; [reflexivity|]. split; [exact H1|]. split; [exact Hsep|]. split; [exact H4|].
  split; [exact Hrt|].
  exists r. split; [reflexivity|]. rewrite Hm1, H6, H7. reflexivity.
Qed.

Print Assumptions has_anchor_no_anchor.
Print Assumptions part_sep_ok_b_sound.
Print Assumptions sep_ok_b_sound.
Print Assumptions sep_ok_b_roundtrip.
Print Assumptions bridge_ok_spec.
