(* End-to-end theorem for the SemVer pattern MAJOR.MINOR.PATCH (README, section on SemVer):
   for ALL version numbers ma.mi.pa and every combination of the part flags --major / --minor /
   --patch (with or without --pin-increments, with or without --date), the model of
   `bumpver test OLD MAJOR.MINOR.PATCH <flags>` prints exactly the documented next version (the
   leftmost flagged part is incremented, the parts to its right are reset to 0), the PEP 440 form
   of that version is the same string, and the new version is strictly greater than the old one.

   Chain:  semver_parse  (regex compile + preferred match + field values -> record, calendar = TODAY)
           semver_format (record -> text; part names are substituted by str.replace, digits stay)
           semver_incr / semver_incr_noflag (v2version.incr)
           semver_test_cmd (cli.test: flag validation, incr, the is_valid_version gate, to_pep440).
   Nothing here is computed on samples: the numbers are universally quantified. *)
From Coq Require Import List Bool NArith ZArith Arith Lia.
From BV Require Import Lib.PyStr Lib.Decimal Lib.Types Lib.Regex Lib.RegexParse Lib.Calendar Model.Lexid Gen.Tables
  Model.V2 Model.Pep440 Model.Cli.
From BV Require Import Proofs.RegexFacts Proofs.DecimalFacts Proofs.Pep440Facts Proofs.DottedFacts Proofs.IncrFacts
  Proofs.CalendarFacts.
Import ListNotations.
Local Open Scope N_scope.

Definition P : list N := [77;65;74;79;82;46;77;73;78;79;82;46;80;65;84;67;72].

(* ------------------------------------------------------------------ calendar: month is never 0 *)
Lemma civil_month n : (1 <= snd (fst (civil n)) <= 12)%Z.
Proof.
  unfold civil. cbv zeta. cbn [fst snd].
  set (doe := ((n + 306) mod 146097)%Z).
  assert (Hdoe : (0 <= doe < 146097)%Z) by (apply Z.mod_pos_bound; lia).
  clearbody doe.
  set (yoe := ((doe - doe / 1460 + doe / 36524 - doe / 146096) / 365)%Z).
  set (doy := (doe - (365 * yoe + yoe / 4 - yoe / 100))%Z).
  assert (Hdoy : (0 <= doy <= 365)%Z).
  { unfold doy, yoe. Z.div_mod_to_equations; lia. }
  clearbody doy.
  set (mp := ((5 * doy + 2) / 153)%Z).
  assert (Hmp : (0 <= mp <= 11)%Z) by (unfold mp; Z.div_mod_to_equations; lia).
  clearbody mp.
  destruct (Z.ltb_spec mp 10); lia.
Qed.
Lemma month_range n : (1 <= month (cal_of n) <= 12)%Z.
Proof. pose proof (civil_month n) as H. rewrite (cal_of_civil n) in H. exact H. Qed.
Lemma quarter_of_month n : quarter (cal_of n) = quarter_from_month (month (cal_of n)).
Proof.
  unfold cal_of. destruct (civil n) as [[y m] d].
  cbv zeta.
  match goal with |- context [if ?b then _ else _] => destruct b end; [reflexivity|].
  match goal with |- context [if ?b then _ else _] => destruct b end; reflexivity.
Qed.

(* ------------------------------------------------------------------ the compiled regex *)
Definition D1 : re := Cat (plus_re digit_re) Eps.
Definition R_semver3 : re :=
  Cat (Grp n_major D1) (Cat (chr_re 46) (Cat (Grp n_minor D1) (Cat (chr_re 46) (Cat (Grp n_patch D1) Eps)))).
Lemma compile_semver : compile_pattern_re (normalize_pattern P P) = Some R_semver3.
Proof. vm_compute. reflexivity. Qed.

Lemma dotted3 a b c : dotted [a; b; c] = dec a ++ 46 :: (dec b ++ 46 :: dec c).
Proof. reflexivity. Qed.

Lemma first_grpD1 name n tail f n0 : nodigit_head tail = true -> (length (dec n) <= f)%nat ->
  first_match f n0 (Grp name D1) (dec n ++ tail) = Some ([(name, dec n)], tail).
Proof.
  intros Ht Hf. rewrite <- (take_consumed_app (dec n) tail) at 2.
  apply first_grp. unfold D1. apply first_cat_eps.
  apply first_plus_digits; [apply dec_all_digits|apply dec_nonempty|exact Ht|exact Hf].
Qed.
Lemma first_dot f n0 t : first_match f n0 (chr_re 46) (46 :: t) = Some ([], t).
Proof. unfold first_match, chr_re. rewrite rems_cls, cls_single. reflexivity. Qed.

Lemma match_semver ma mi pa :
  re_match R_semver3 (dotted [ma; mi; pa]) = Some ([(n_major, dec ma); (n_minor, dec mi); (n_patch, dec pa)], []).
Proof.
  unfold re_match. rewrite dotted3.
  set (f := S (length (dec ma ++ 46 :: dec mi ++ 46 :: dec pa))).
  assert (Hf : (length (dec ma) <= f /\ length (dec mi) <= f /\ length (dec pa) <= f)%nat).
  { unfold f. rewrite !app_length. cbn [length]. rewrite !app_length. cbn [length]. lia. }
  destruct Hf as (H1 & H2 & H3). generalize dependent f. intros f H1 H2 H3.
  generalize (length (dec ma ++ 46 :: dec mi ++ 46 :: dec pa)). intros n0.
  unfold R_semver3.
  change [(n_major, dec ma); (n_minor, dec mi); (n_patch, dec pa)]
    with ([(n_major, dec ma)] ++ ([] ++ ([(n_minor, dec mi)] ++ ([] ++ ([(n_patch, dec pa)] ++ []))))).
  eapply first_cat; [apply first_grpD1; [reflexivity|exact H1]|].
  eapply first_cat; [apply first_dot|].
  eapply first_cat; [apply first_grpD1; [reflexivity|exact H2]|].
  eapply first_cat; [apply first_dot|].
  eapply first_cat; [|apply first_eps].
  rewrite <- (app_nil_r (dec pa)) at 1. apply first_grpD1; [reflexivity|exact H3].
Qed.

Definition fv3 (a b c : list N) : fvals := [(n_major, Some a); (n_minor, Some b); (n_patch, Some c)].
Lemma groupdict_semver a b c :
  groupdict R_semver3 [(n_major, a); (n_minor, b); (n_patch, c)] = fv3 a b c.
Proof. reflexivity. Qed.

(* ------------------------------------------------------------------ field values to the record *)
Lemma parse_cinfo_fv3 today a b c : parse_cinfo today (fv3 a b c) = POk (cinfo_of_ord today).
Proof.
  unfold parse_cinfo.
  change (fv_int n_year_y (fv3 a b c)) with (Some (@None Z)).
  change (fv_int n_year_g (fv3 a b c)) with (Some (@None Z)).
  change (fv_int n_month (fv3 a b c)) with (Some (@None Z)).
  change (fv_int n_doy (fv3 a b c)) with (Some (@None Z)).
  change (fv_int n_dom (fv3 a b c)) with (Some (@None Z)).
  change (fv_int n_week_w (fv3 a b c)) with (Some (@None Z)).
  change (fv_int n_week_u (fv3 a b c)) with (Some (@None Z)).
  change (fv_int n_week_v (fv3 a b c)) with (Some (@None Z)).
  change (fv_int n_quarter (fv3 a b c)) with (Some (@None Z)).
  cbn [fix2000 truthy andb orb bind is_some nth].
  pose proof (month_range today) as Hm.
  assert (E : (month (cal_of today) =? 0)%Z = false) by (apply Z.eqb_neq; lia).
  rewrite E. cbn [negb]. rewrite <- quarter_of_month. reflexivity.
Qed.

Definition sv_vinfo (today : Z) (ma mi pa : Z) : vinfo :=
  set_cal (mkv None None None None None None None None None ma mi pa [49;48;48;48] s_final [] [] [] 0%Z 0%Z 1%Z)
          (cinfo_of_ord today).

Lemma zundec_dec n : zundec (dec n) = Z.of_N n.
Proof. unfold zundec. rewrite undec_dec. reflexivity. Qed.

Lemma fv_int_or_dec k d fv n : assoc k fv = Some (Some (dec n)) -> fv_int_or k d fv = Z.of_N n.
Proof.
  intros H. unfold fv_int_or. rewrite H. rewrite <- zundec_dec.
  destruct (dec n) eqn:E; [exfalso; exact (dec_nonempty n E)|reflexivity].
Qed.

Lemma parse_vinfo_fv3 today ma mi pa :
  parse_vinfo today (fv3 (dec ma) (dec mi) (dec pa)) = POk (sv_vinfo today (Z.of_N ma) (Z.of_N mi) (Z.of_N pa)).
Proof.
  unfold parse_vinfo. rewrite parse_cinfo_fv3. cbn [bind].
  change (fv_str_or_empty n_tag (fv3 (dec ma) (dec mi) (dec pa))) with (@nil N).
  change (fv_str_or_empty n_pytag (fv3 (dec ma) (dec mi) (dec pa))) with (@nil N).
  change (fv_str_or_empty n_githash (fv3 (dec ma) (dec mi) (dec pa))) with (@nil N).
  change (fv_str_or_empty n_hexhash (fv3 (dec ma) (dec mi) (dec pa))) with (@nil N).
  change (assoc n_bid (fv3 (dec ma) (dec mi) (dec pa))) with (@None (option (list N))).
  cbn [andb negb bind].
  rewrite (fv_int_or_dec n_major 0%Z _ ma) by reflexivity.
  rewrite (fv_int_or_dec n_minor 0%Z _ mi) by reflexivity.
  rewrite (fv_int_or_dec n_patch 0%Z _ pa) by reflexivity.
  reflexivity.
Qed.

Local Opaque compile_pattern_re normalize_pattern.

Theorem semver_parse_eq : forall today ma mi pa,
  parse_version_info today (dotted [ma; mi; pa]) P = POk (sv_vinfo today (Z.of_N ma) (Z.of_N mi) (Z.of_N pa)).
Proof.
  intros. unfold parse_version_info. rewrite compile_semver, match_semver, groupdict_semver.
  apply parse_vinfo_fv3.
Qed.

Theorem semver_parse : forall today ma mi pa, exists v,
  parse_version_info today (dotted [ma; mi; pa]) P = POk v
  /\ v_major v = Z.of_N ma /\ v_minor v = Z.of_N mi /\ v_patch v = Z.of_N pa
  /\ v_tag v = s_final /\ v_pytag v = [] /\ v_num v = 0%Z /\ v_bid v = [49;48;48;48]
  /\ cal_list v = cinfo_of_ord today.
Proof.
  intros. eexists. split; [apply semver_parse_eq|]. repeat split; reflexivity.
Qed.

(* ------------------------------------------------------------------ format *)
Definition s_MAJ := [77;65;74;79;82].
Definition s_MIN := [77;73;78;79;82].
Definition s_PAT := [80;65;84;67;72].

Lemma segtree_P : parse_segtree P = Some [SStr P].
Proof. vm_compute. reflexivity. Qed.

Lemma format_segment_res pv sg :
  snd (format_segment pv sg) =
  fold_left (fun acc '(p, v) => sreplace p v acc) (filter (fun '(p, _) => str_in p sg) pv)
    (sreplace [92; 93] [93] (sreplace [92; 91] [91] (sreplace [36] [] (sreplace [94] [] sg)))).
Proof.
  unfold format_segment. cbv zeta.
  destruct (filter (fun '(p, _) => str_in p sg) pv); [reflexivity|].
  match goal with |- context [if ?b then _ else _] => destruct b end; reflexivity.
Qed.

(* _format_part_values with the formatting function abstracted, so that it can be computed on a
   record whose numbers are variables *)
Fixpoint pvg (F : fmt_kind -> fval -> list N) (v : vinfo) (l : list (list N * list N)) : option (list (list N * list N)) :=
  match l with
  | [] => Some []
  | (part, field) :: t =>
      match get_field v field, assoc part PART_FORMATS, pvg F v t with
      | Some (Some x), Some k, Some r => Some ((part, F k x) :: r)
      | Some None, _, Some r => Some r
      | _, _, _ => None
      end
  end.
Lemma pvg_eq v l : part_values_go v l = pvg apply_fmt v l.
Proof. induction l as [|[p f] t IH]; [reflexivity|]. cbn [part_values_go pvg]. rewrite IH. reflexivity. Qed.

Definition used3 (v : vinfo) : list (list N * list N) :=
  [(s_MAJ, zdec (v_major v)); (s_MIN, zdec (v_minor v)); (s_PAT, zdec (v_patch v))].

Lemma pvg_used : forall F v,
  match pvg F v PATTERN_PART_FIELDS with
  | Some l => filter (fun '(p, _) => str_in p P) (sort_by_len_desc (fun x => length (fst x)) l)
     = [(s_MAJ, F FmtStr (FInt (v_major v))); (s_MIN, F FmtStr (FInt (v_minor v))); (s_PAT, F FmtStr (FInt (v_patch v)))]
  | None => False
  end.
Proof.
  intros F [a b c d e g h i j ma mi pa bid tag pytag gh hh num i0 i1].
  destruct a, b, c, d, e, g, h, i, j; vm_compute; reflexivity.
Qed.

Lemma fpv_used : forall v, exists pv, format_part_values v = Some pv
  /\ filter (fun '(p, _) => str_in p P) pv = used3 v.
Proof.
  intros v. pose proof (pvg_used apply_fmt v) as H.
  destruct (pvg apply_fmt v PATTERN_PART_FIELDS) as [l|] eqn:H1; [rename H into H2|contradiction].
  exists (sort_by_len_desc (fun x => length (fst x)) l). split.
  - unfold format_part_values. rewrite pvg_eq, H1. reflexivity.
  - rewrite H2. reflexivity.
Qed.

(* replacing a name that starts with a character that does not occur in a prefix leaves the prefix alone *)
Lemma replace_go_skip c old new : forall ds rest, (forall x, In x ds -> x <> c) ->
  replace_go (c :: old) new 0 (ds ++ rest) = ds ++ replace_go (c :: old) new 0 rest.
Proof.
  induction ds as [|d ds IH]; intros rest H; [reflexivity|].
  cbn [app replace_go prefixb].
  assert (E : (c =? d) = false) by (apply N.eqb_neq; intros ->; exact (H d (or_introl eq_refl) eq_refl)).
  rewrite E. cbn [andb]. rewrite IH; [reflexivity|]. intros x Hx. apply H. right. exact Hx.
Qed.
Lemma dec_no_upper n x : In x (dec n) -> (48 <= x <= 57).
Proof.
  intros H. pose proof (dec_all_digits n) as A. unfold all_digits in A. rewrite forallb_forall in A.
  apply is_digit_bounds. exact (A x H).
Qed.
Lemma replace_go_dec c old new n rest : (57 < c) ->
  replace_go (c :: old) new 0 (dec n ++ rest) = dec n ++ replace_go (c :: old) new 0 rest.
Proof. intros Hc. apply replace_go_skip. intros x Hx. apply dec_no_upper in Hx. lia. Qed.

Lemma r3_P : sreplace [92; 93] [93] (sreplace [92; 91] [91] (sreplace [36] [] (sreplace [94] [] P))) = P.
Proof. vm_compute. reflexivity. Qed.

Lemma subst3 a b c :
  sreplace s_PAT (dec c) (sreplace s_MIN (dec b) (sreplace s_MAJ (dec a) P)) = dotted [a; b; c].
Proof.
  assert (E1 : sreplace s_MAJ (dec a) P = dec a ++ 46 :: s_MIN ++ 46 :: s_PAT) by reflexivity.
  rewrite E1. clear E1.
  assert (E2 : sreplace s_MIN (dec b) (dec a ++ 46 :: s_MIN ++ 46 :: s_PAT) = dec a ++ 46 :: dec b ++ 46 :: s_PAT).
  { unfold sreplace, s_MIN. rewrite replace_go_dec by lia. reflexivity. }
  rewrite E2. clear E2.
  unfold sreplace, s_PAT. rewrite replace_go_dec by lia.
  cbn [replace_go prefixb N.eqb Pos.eqb andb]. rewrite replace_go_dec by lia.
  rewrite dotted3. cbn [replace_go prefixb N.eqb Pos.eqb andb length Nat.sub]. rewrite app_nil_r. reflexivity.
Qed.

Local Opaque format_part_values parse_segtree.

Theorem semver_format_gen : forall v,
  format_version v P = Some (dotted [Z.to_N (v_major v); Z.to_N (v_minor v); Z.to_N (v_patch v)]).
Proof.
  intros v. destruct (fpv_used v) as (pv & H1 & H2).
  unfold format_version. rewrite H1, segtree_P. cbn [map concat fmt_seg].
  rewrite format_segment_res, H2, r3_P. unfold used3, zdec. cbn [fold_left].
  rewrite subst3, app_nil_r. reflexivity.
Qed.

Theorem semver_format : forall v, (0 <= v_major v)%Z -> (0 <= v_minor v)%Z -> (0 <= v_patch v)%Z ->
  forallb is_some (cal_list v) = true ->
  format_version v P = Some (dotted [Z.to_N (v_major v); Z.to_N (v_minor v); Z.to_N (v_patch v)]).
Proof. intros v _ _ _ _. apply semver_format_gen. Qed.

(* ------------------------------------------------------------------ incr *)
Definition semver_next (fl : flags) (ma mi pa : N) : list N :=
  if f_major fl then [ma + 1; 0; 0] else if f_minor fl then [ma; mi + 1; 0]
  else if f_patch fl then [ma; mi; pa + 1] else [ma; mi; pa].
Definition only_part_flags (fl : flags) : Prop := f_tag fl = None /\ f_tag_num fl = false /\ f_pin_date fl = false.

Lemma week_P : is_valid_week_pattern P = true.
Proof. vm_compute. reflexivity. Qed.
Lemma bump_1000 : bump_bid [49;48;48;48] = Some [49;48;48;49].
Proof. vm_compute. reflexivity. Qed.

(* the record of the current version after the calendar step: only the calendar can differ *)
Definition cv (c : list (option Z)) (ma mi pa : Z) (bid : list N) (i0 i1 : Z) : vinfo :=
  match c with
  | [a; b; c'; d; e; g; h; i; j] => mkv a b c' d e g h i j ma mi pa bid s_final [] [] [] 0%Z i0 i1
  | _ => mkv None None None None None None None None None ma mi pa bid s_final [] [] [] 0%Z i0 i1
  end.

Lemma cinfo_length n : length (cinfo_of_ord n) = 9%nat.
Proof. reflexivity. Qed.

Lemma sv_vinfo_cv today ma mi pa : sv_vinfo today ma mi pa = cv (cinfo_of_ord today) ma mi pa [49;48;48;48] 0%Z 1%Z.
Proof. reflexivity. Qed.

Lemma cur_shape today date ma mi pa :
  let old := sv_vinfo today ma mi pa in
  exists c, length c = 9%nat /\
    (if is_cal_gt (cal_list old) (cinfo_of_ord date) then old else set_cal old (cinfo_of_ord date))
    = cv c ma mi pa [49;48;48;48] 0%Z 1%Z.
Proof.
  intros old. destruct (is_cal_gt (cal_list old) (cinfo_of_ord date)).
  - exists (cinfo_of_ord today). split; [reflexivity|]. reflexivity.
  - exists (cinfo_of_ord date). split; [reflexivity|]. reflexivity.
Qed.

(* _incr_numeric on MAJOR.MINOR.PATCH *)
Lemma incr_numeric_semver : forall c0 c fl ma mi pa, only_part_flags fl -> length c0 = 9%nat -> length c = 9%nat ->
  exists bid i0 i1,
  incr_numeric P (cv c0 ma mi pa [49;48;48;48] 0%Z 1%Z) (cv c ma mi pa [49;48;48;48] 0%Z 1%Z) fl =
  Some (if f_major fl then cv c (ma + 1) 0 0 bid i0 i1
        else if f_minor fl then cv c ma (mi + 1) 0 bid i0 i1
        else if f_patch fl then cv c ma mi (pa + 1) bid i0 i1
        else cv c ma mi pa bid i0 i1)%Z.
Proof.
  intros c0 c fl ma mi pa (Ht & Htn & _) L0 L.
  destruct c0 as [|a0 [|b0 [|c0' [|d0 [|e0 [|g0 [|h0 [|i0' [|j0 [|]]]]]]]]]]; try discriminate L0.
  destruct c as [|a [|b [|c' [|d [|e [|g [|h [|i [|j [|]]]]]]]]]]; try discriminate L.
  exists [49;48;48;49].
  destruct fl as [fm fi fp ft ftn fpi fpd]. cbn [f_tag f_tag_num] in Ht, Htn. subst ft ftn.
  exists (if fpi then 0 else 1)%Z, (if fpi then 1 else 2)%Z.
  rewrite incr_numeric_bumped. cbn [cv f_major f_minor f_patch].
  change P with semver_raw.
  destruct fm, fi, fp, fpi; unfold bumped; cbv zeta; cbn [f_major f_minor f_patch f_tag f_tag_num f_pin_increments]; upd;
    rewrite bump_1000; upd;
    rewrite reset_rollover_fields_eq, ppf_semver; cbn [after_first_changed]; unfold changed;
    rewrite !gf_major, !gf_minor, !gf_patch; cbn [eqb_fval];
    rewrite ?zeqb_succ, ?Z.eqb_refl; cbn [negb]; reflexivity.
Qed.

Lemma cv_fields c ma mi pa bid i0 i1 : length c = 9%nat ->
  v_major (cv c ma mi pa bid i0 i1) = ma /\ v_minor (cv c ma mi pa bid i0 i1) = mi
  /\ v_patch (cv c ma mi pa bid i0 i1) = pa /\ v_tag (cv c ma mi pa bid i0 i1) = s_final.
Proof.
  intros L. destruct c as [|a [|b [|c' [|d [|e [|g [|h [|i [|j [|]]]]]]]]]]; try discriminate L.
  repeat split; reflexivity.
Qed.

Lemma format_cv c ma mi pa bid i0 i1 : length c = 9%nat ->
  format_version (cv c ma mi pa bid i0 i1) P = Some (dotted [Z.to_N ma; Z.to_N mi; Z.to_N pa]).
Proof.
  intros L. rewrite semver_format_gen. destruct (cv_fields c ma mi pa bid i0 i1 L) as (E1 & E2 & E3 & _).
  rewrite E1, E2, E3. reflexivity.
Qed.

(* dotted strings: never empty, and injective *)
Lemma dotted_nonempty n ns : dotted (n :: ns) <> [].
Proof. destruct (dotted_head n ns) as (d & t & E & _). rewrite E. discriminate. Qed.
Lemma dotted_inj a b : a <> [] -> b <> [] -> dotted a = dotted b -> a = b.
Proof.
  intros Ha Hb E. rewrite <- (map_undec_dec a), <- (map_undec_dec b).
  rewrite <- (ssplit_dotted a Ha), <- (ssplit_dotted b Hb), E. reflexivity.
Qed.

Lemma match_nonempty (new old : list N) : new <> [] ->
  match new with [] => INone | _ :: _ => if eqb_str new old then INone else INew new end
  = if eqb_str new old then INone else INew new.
Proof. destruct new; [congruence|reflexivity]. Qed.

Lemma to_N_succ n : Z.to_N (Z.of_N n + 1) = n + 1.
Proof. lia. Qed.

Local Opaque parse_version_info format_version incr_numeric.

Lemma incr_semver_gen : forall today date fl ma mi pa, only_part_flags fl ->
  incr today (dotted [ma; mi; pa]) P fl date =
  if f_major fl || f_minor fl || f_patch fl then INew (dotted (semver_next fl ma mi pa)) else INone.
Proof.
  intros today date fl ma mi pa Hfl. pose proof Hfl as (Ht & Htn & Hpd).
  unfold incr. rewrite week_P. cbn [negb]. rewrite semver_parse_eq. cbv zeta.
  rewrite Hpd, Ht, Htn. cbn [andb].
  destruct (cur_shape today date (Z.of_N ma) (Z.of_N mi) (Z.of_N pa)) as (c & L & Hc).
  cbv zeta in Hc. rewrite Hc. clear Hc.
  rewrite sv_vinfo_cv.
  pose proof (cinfo_length today) as L0.
  destruct (incr_numeric_semver (cinfo_of_ord today) c fl (Z.of_N ma) (Z.of_N mi) (Z.of_N pa) Hfl L0 L)
    as (bid & i0' & i1' & HN).
  rewrite HN. clear HN.
  unfold semver_next.
  destruct (f_major fl); [|destruct (f_minor fl); [|destruct (f_patch fl)]]; cbn [orb];
    rewrite (format_cv _ _ _ _ _ _ _ L), ?to_N_succ, ?N2Z.id; cbn [Z.to_N].
  all: rewrite match_nonempty by apply dotted_nonempty.
  4: { rewrite eqb_str_refl. reflexivity. }
  all: match goal with |- context [eqb_str ?a ?b] => destruct (eqb_str a b) eqn:Q end; [|reflexivity];
       exfalso; apply eqb_str_eq in Q; apply dotted_inj in Q; [|discriminate|discriminate];
       injection Q; lia.
Qed.

Theorem semver_incr : forall today date fl ma mi pa, only_part_flags fl -> f_major fl || f_minor fl || f_patch fl = true ->
  incr today (dotted [ma; mi; pa]) P fl date = INew (dotted (semver_next fl ma mi pa)).
Proof. intros today date fl ma mi pa H1 H2. rewrite incr_semver_gen by exact H1. rewrite H2. reflexivity. Qed.

Theorem semver_incr_noflag : forall today date fl ma mi pa, only_part_flags fl ->
  f_major fl = false -> f_minor fl = false -> f_patch fl = false ->
  incr today (dotted [ma; mi; pa]) P fl date = INone.
Proof. intros today date fl ma mi pa H1 A B C. rewrite incr_semver_gen by exact H1. rewrite A, B, C. reflexivity. Qed.

(* ------------------------------------------------------------------ the command *)
Lemma validate_flags_P fl : validate_flags P fl = true.
Proof.
  unfold validate_flags.
  change (has_brace_l P) with false. change (str_in s_MAJOR P) with true.
  change (str_in s_MINOR P) with true. change (str_in s_PATCH P) with true.
  destruct (f_major fl), (f_minor fl), (f_patch fl); reflexivity.
Qed.

Local Opaque parse_pep440 version_key.

Lemma to_pep440_dotted : forall ns, ns <> [] -> to_pep440 (dotted ns) = dotted ns.
Proof.
  intros ns H. unfold to_pep440. rewrite (parse_dotted ns H). unfold pver_str.
  cbn [pv_epoch pv_release pv_pre pv_post pv_dev pv_local N.eqb app]. rewrite !app_nil_r. reflexivity.
Qed.

Lemma ne3 (a b c : N) : [a; b; c] <> [].
Proof. intros Q; discriminate Q. Qed.

Lemma semver_next_shape fl ma mi pa : exists a b c, semver_next fl ma mi pa = [a; b; c].
Proof. unfold semver_next. destruct (f_major fl), (f_minor fl), (f_patch fl); do 3 eexists; reflexivity. Qed.

Lemma semver_next_gt fl ma mi pa : f_major fl || f_minor fl || f_patch fl = true ->
  cmp_list N.compare (semver_next fl ma mi pa) [ma; mi; pa] = Gt
  /\ cmp_list N.compare [ma; mi; pa] (semver_next fl ma mi pa) = Lt.
Proof.
  intros H. unfold semver_next.
  assert (G : forall x, N.compare (x + 1) x = Gt) by (intros x; apply N.compare_gt_iff; lia).
  assert (Lx : forall x, N.compare x (x + 1) = Lt) by (intros x; apply N.compare_lt_iff; lia).
  destruct (f_major fl); [|destruct (f_minor fl); [|destruct (f_patch fl); [|discriminate H]]];
    cbn [cmp_list]; rewrite ?N.compare_refl, ?G, ?Lx; split; reflexivity.
Qed.

Local Opaque ver_le ver_lt to_pep440 incr.

Theorem semver_test_cmd : forall today fl ma mi pa d, only_part_flags fl ->
  f_major fl || f_minor fl || f_patch fl = true ->
  test_cmd_v2 today (dotted [ma; mi; pa]) P fl (option_map Some d) None
    = Exit0 (dotted (semver_next fl ma mi pa)) (dotted (semver_next fl ma mi pa))
  /\ ver_lt (dotted [ma; mi; pa]) (dotted (semver_next fl ma mi pa)) = true.
Proof.
  intros today fl ma mi pa d Hfl Hp. pose proof Hfl as (Ht & Htn & Hpd).
  destruct (semver_next_shape fl ma mi pa) as (a & b & c & En).
  destruct (semver_next_gt fl ma mi pa Hp) as (HG & HL). rewrite En in HG, HL.
  assert (Hlt : ver_lt (dotted [ma; mi; pa]) (dotted [a; b; c]) = true).
  { rewrite (ver_lt_dotted [ma; mi; pa] [a; b; c] (ne3 _ _ _) (ne3 _ _ _) eq_refl), HL. reflexivity. }
  assert (Hle : ver_le (dotted [a; b; c]) (dotted [ma; mi; pa]) = false).
  { rewrite (ver_le_dotted [a; b; c] [ma; mi; pa] (ne3 _ _ _) (ne3 _ _ _) eq_refl), HG. reflexivity. }
  split; [|rewrite En; exact Hlt].
  unfold test_cmd_v2. rewrite Ht. cbn [validate_release_tag negb].
  rewrite validate_flags_P. cbn [negb]. rewrite Hpd, andb_false_r.
  assert (Hin : forall dd, incr today (dotted [ma; mi; pa]) P fl dd = INew (dotted [a; b; c])).
  { intros dd. rewrite (semver_incr today dd fl ma mi pa Hfl Hp), En. reflexivity. }
  assert (Hg : is_valid_version_v2 today P (dotted [ma; mi; pa]) (dotted [a; b; c]) = GateOk).
  { unfold is_valid_version_v2. rewrite semver_parse_eq, Hle. reflexivity. }
  rewrite En.
  destruct d as [z|]; cbn [option_map]; rewrite Hin, Hg, (to_pep440_dotted [a; b; c] (ne3 _ _ _)); reflexivity.
Qed.

Print Assumptions semver_parse.
Print Assumptions semver_format.
Print Assumptions semver_format_gen.
Print Assumptions semver_incr.
Print Assumptions semver_incr_noflag.
Print Assumptions to_pep440_dotted.
Print Assumptions semver_test_cmd.
