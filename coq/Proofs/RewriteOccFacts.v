(* Occurrence-level facts about the reference function replace_spans (Model/Rewrite.v) and their
   lifting to rewrite_lines:
     - every replacement text stands, whole, at a computable position of the result,
     - the text outside the spans is the original text,
     - the length of the result is accounted for exactly,
     - when every replacement equals the text it replaces, nothing changes. *)
From Coq Require Import List Bool NArith Arith Lia Permutation Sorted.
From BV Require Import Lib.PyStr Model.Rewrite Proofs.RewriteFacts.
Import ListNotations.

(* ================================================================== list helpers *)

Lemma skipn_len_app : forall A (l m : list A) n, skipn (length l + n) (l ++ m) = skipn n m.
Proof.
  intros A l m n. induction l as [|x l IH]; simpl; auto.
Qed.

Lemma firstn_len_app : forall A (l m : list A), firstn (length l) (l ++ m) = l.
Proof.
  intros A l m. induction l as [|x l IH]; simpl; [destruct m; reflexivity|]. f_equal. exact IH.
Qed.

Lemma firstn_mid_skipn : forall A (l : list A) n m,
  firstn n l ++ firstn m (skipn n l) ++ skipn (n + m) l = l.
Proof.
  intros A l n m.
  rewrite (Nat.add_comm n m), <- skipn_skipn'.
  rewrite (firstn_skipn m (skipn n l)). apply firstn_skipn.
Qed.

(* ================================================================== (A) well-formed span lists *)

(* ascending, pairwise disjoint (touching allowed), inside the remaining line of length [len]
   whose first character has absolute position [off] *)
Fixpoint spans_wf (off len : nat) (spans : list span) : Prop :=
  match spans with
  | [] => True
  | (a, b, _) :: t => off <= a /\ a <= b /\ b <= off + len /\ spans_wf b (off + len - b) t
  end.

Lemma spans_wf_in : forall spans off len a b r, spans_wf off len spans -> In (a, b, r) spans ->
  off <= a /\ a <= b /\ b <= off + len.
Proof.
  induction spans as [|[[s e] r'] t IH]; intros off len a b r Hw Hin; simpl in Hin; [contradiction|].
  simpl in Hw. destruct Hw as (H1 & H2 & H3 & H4).
  destruct Hin as [Hin|Hin].
  - injection Hin as -> -> ->. lia.
  - destruct (IH _ _ _ _ _ H4 Hin) as (K1 & K2 & K3). lia.
Qed.

Lemma spans_wf_app_mid : forall s1 off len a b r s2, spans_wf off len (s1 ++ (a, b, r) :: s2) ->
  off <= a /\ a <= b /\ b <= off + len.
Proof.
  intros s1 off len a b r s2 Hw. eapply spans_wf_in; [exact Hw|].
  apply in_or_app. right. left. reflexivity.
Qed.

(* the [chain] predicate of RewriteFacts gives a well-formed list *)
Lemma chain_spans_wf : forall S off A, chain off S A -> spans_wf off (A - off) S.
Proof.
  induction S as [|[[s e] r] T IH]; intros off A H; simpl in *; auto.
  destruct H as (H1 & H2 & H3).
  pose proof (chain_le _ _ _ H3) as H4.
  repeat split; try lia.
  replace (off + (A - off) - e) with (A - e) by lia.
  apply IH. exact H3.
Qed.

(* ================================================================== (B) length *)

Fixpoint sum_repl (spans : list span) : nat :=
  match spans with [] => 0 | (_, _, r) :: t => length r + sum_repl t end.
Fixpoint sum_cut (spans : list span) : nat :=
  match spans with [] => 0 | (a, b, _) :: t => (b - a) + sum_cut t end.

Theorem replace_spans_length : forall spans line off, spans_wf off (length line) spans ->
  length (replace_spans line off spans) + sum_cut spans = length line + sum_repl spans.
Proof.
  induction spans as [|[[a b] r] t IH]; intros line off Hw.
  - simpl. reflexivity.
  - simpl in Hw. destruct Hw as (H1 & H2 & H3 & H4).
    simpl replace_spans. simpl sum_cut. simpl sum_repl.
    rewrite !app_length, firstn_length.
    assert (Hl : length (skipn (b - off) line) = off + length line - b)
      by (rewrite skipn_length; lia).
    rewrite <- Hl in H4. apply IH in H4. rewrite Hl in H4. lia.
Qed.

(* ================================================================== (C) same text: identity *)

Fixpoint spans_same (off : nat) (line : list N) (spans : list span) : Prop :=
  match spans with
  | [] => True
  | (a, b, r) :: t => r = firstn (b - a) (skipn (a - off) line) /\ spans_same b (skipn (b - off) line) t
  end.

Theorem replace_spans_same : forall spans line off, spans_wf off (length line) spans ->
  spans_same off line spans -> replace_spans line off spans = line.
Proof.
  induction spans as [|[[a b] r] t IH]; intros line off Hw Hs.
  - reflexivity.
  - simpl in Hw, Hs. destruct Hw as (H1 & H2 & H3 & H4). destruct Hs as [Hr Hs].
    simpl replace_spans.
    assert (Hl : length (skipn (b - off) line) = off + length line - b)
      by (rewrite skipn_length; lia).
    rewrite <- Hl in H4. rewrite (IH _ _ H4 Hs). rewrite Hr.
    replace (b - off) with ((a - off) + (b - a)) by lia.
    apply firstn_mid_skipn.
Qed.

(* the pointwise formulation, relative to the one original line, implies the recursive one *)
Lemma spans_same_pointwise : forall spans line off, spans_wf off (length line) spans ->
  (forall a b r, In (a, b, r) spans -> r = firstn (b - a) (skipn (a - off) line)) ->
  spans_same off line spans.
Proof.
  induction spans as [|[[a b] r] t IH]; intros line off Hw Hp.
  - exact I.
  - simpl in Hw. destruct Hw as (H1 & H2 & H3 & H4).
    simpl. split; [apply Hp; left; reflexivity|].
    assert (Hl : length (skipn (b - off) line) = off + length line - b)
      by (rewrite skipn_length; lia).
    rewrite <- Hl in H4.
    apply IH; [exact H4|].
    intros a' b' r' Hin.
    destruct (spans_wf_in _ _ _ _ _ _ H4 Hin) as (K1 & _).
    rewrite skipn_skipn'. replace (a' - b + (b - off)) with (a' - off) by lia.
    apply Hp. right. exact Hin.
Qed.

Corollary replace_spans_same_pointwise : forall spans line off, spans_wf off (length line) spans ->
  (forall a b r, In (a, b, r) spans -> r = firstn (b - a) (skipn (a - off) line)) ->
  replace_spans line off spans = line.
Proof.
  intros spans line off Hw Hp. apply replace_spans_same; auto. apply spans_same_pointwise; auto.
Qed.

(* ================================================================== (D) occurrences *)

(* where the k-th replacement starts, relative to the start of [replace_spans line off spans] *)
Fixpoint out_pos (off : nat) (spans : list span) (k : nat) : nat :=
  match spans, k with
  | [], _ => 0
  | (a, _, _) :: _, O => a - off
  | (a, b, r) :: t, S k' => (a - off) + length r + out_pos b t k'
  end.

(* every replacement text stands, whole, in the result *)
Theorem replace_spans_occurrence : forall spans line off k a b r, spans_wf off (length line) spans ->
  nth_error spans k = Some (a, b, r) ->
  firstn (length r) (skipn (out_pos off spans k) (replace_spans line off spans)) = r.
Proof.
  induction spans as [|[[s e] r'] t IH]; intros line off k a b r Hw Hk.
  - destruct k; discriminate Hk.
  - simpl in Hw. destruct Hw as (H1 & H2 & H3 & H4).
    assert (Hf : length (firstn (s - off) line) = s - off) by (apply firstn_length_le; lia).
    simpl replace_spans.
    destruct k as [|k].
    + simpl in Hk. injection Hk as -> -> ->.
      simpl out_pos.
      rewrite <- Hf at 1. rewrite <- (Nat.add_0_r (length (firstn (a - off) line))).
      rewrite skipn_len_app. simpl skipn. apply firstn_len_app.
    + simpl in Hk. simpl out_pos.
      rewrite <- Hf at 1. rewrite <- Nat.add_assoc. rewrite skipn_len_app, skipn_len_app.
      assert (Hl : length (skipn (e - off) line) = off + length line - e)
        by (rewrite skipn_length; lia).
      rewrite <- Hl in H4.
      eapply IH; eauto.
Qed.

(* the form with nth and a default, as in the task statement *)
Corollary replace_spans_occurrence_nth : forall spans line off k a b r d, spans_wf off (length line) spans ->
  k < length spans -> nth k spans d = (a, b, r) ->
  firstn (length r) (skipn (out_pos off spans k) (replace_spans line off spans)) = r.
Proof.
  intros spans line off k a b r d Hw Hk Hn.
  eapply replace_spans_occurrence; [exact Hw|].
  rewrite (nth_error_nth' spans d Hk). rewrite Hn. reflexivity.
Qed.

(* context before the first span is the original text.
   the statement needs a - off <= length line (it is false when the span starts beyond the end of
   the line and r is not empty), which wf provides *)
Theorem replace_spans_prefix : forall a b r t line off, spans_wf off (length line) ((a, b, r) :: t) ->
  firstn (a - off) (replace_spans line off ((a, b, r) :: t)) = firstn (a - off) line.
Proof.
  intros a b r t line off Hw. simpl in Hw. destruct Hw as (H1 & H2 & H3 & _).
  simpl replace_spans.
  assert (Hf : length (firstn (a - off) line) = a - off) by (apply firstn_length_le; lia).
  rewrite <- Hf at 1. apply firstn_len_app.
Qed.

(* decomposition around any one span: the result is
     (the rewritten text before the span) ++ replacement ++ (the rewritten text after the span),
   where the first part only depends on the original text before the span and the last part only on
   the original text after it *)
Theorem replace_spans_decompose : forall s1 line off a b r s2, spans_wf off (length line) (s1 ++ (a, b, r) :: s2) ->
  replace_spans line off (s1 ++ (a, b, r) :: s2)
  = replace_spans (firstn (a - off) line) off s1 ++ r ++ replace_spans (skipn (b - off) line) b s2.
Proof.
  induction s1 as [|[[s e] r'] t IH]; intros line off a b r s2 Hw.
  - reflexivity.
  - simpl app in Hw. simpl in Hw. destruct Hw as (H1 & H2 & H3 & H4).
    destruct (spans_wf_app_mid _ _ _ _ _ _ _ H4) as (K1 & K2 & K3).
    assert (Hl : length (skipn (e - off) line) = off + length line - e)
      by (rewrite skipn_length; lia).
    rewrite <- Hl in H4.
    simpl app. simpl replace_spans.
    rewrite (IH _ _ _ _ _ _ H4).
    rewrite firstn_firstn. replace (Nat.min (s - off) (a - off)) with (s - off) by lia.
    rewrite skipn_firstn_comm. replace (a - off - (e - off)) with (a - e) by lia.
    rewrite skipn_skipn'. replace (b - e + (e - off)) with (b - off) by lia.
    rewrite <- !app_assoc. reflexivity.
Qed.

(* context after the last span is the original tail *)
Corollary replace_spans_last : forall s1 line off a b r, spans_wf off (length line) (s1 ++ [(a, b, r)]) ->
  replace_spans line off (s1 ++ [(a, b, r)])
  = replace_spans (firstn (a - off) line) off s1 ++ r ++ skipn (b - off) line.
Proof. intros. apply replace_spans_decompose; auto. Qed.

Corollary replace_spans_suffix : forall s1 line off a b r, spans_wf off (length line) (s1 ++ [(a, b, r)]) ->
  let res := replace_spans line off (s1 ++ [(a, b, r)]) in
  skipn (length res - (length line - (b - off))) res = skipn (b - off) line.
Proof.
  intros s1 line off a b r Hw res. subst res.
  rewrite (replace_spans_last _ _ _ _ _ _ Hw).
  set (X := replace_spans (firstn (a - off) line) off s1).
  rewrite app_assoc, app_length, skipn_length.
  replace (length (X ++ r) + (length line - (b - off)) - (length line - (b - off)))
    with (length (X ++ r) + 0) by lia.
  rewrite skipn_len_app. reflexivity.
Qed.

(* out_pos is the length of the rewritten text before the span, so the decomposition and the
   occurrence theorem speak about the same position *)
Lemma out_pos_decompose : forall s1 line off a b r s2, spans_wf off (length line) (s1 ++ (a, b, r) :: s2) ->
  out_pos off (s1 ++ (a, b, r) :: s2) (length s1) = length (replace_spans (firstn (a - off) line) off s1).
Proof.
  induction s1 as [|[[s e] r'] t IH]; intros line off a b r s2 Hw.
  - simpl. simpl in Hw. rewrite firstn_length_le; lia.
  - simpl app in Hw. simpl in Hw. destruct Hw as (H1 & H2 & H3 & H4).
    destruct (spans_wf_app_mid _ _ _ _ _ _ _ H4) as (K1 & K2 & K3).
    assert (Hl : length (skipn (e - off) line) = off + length line - e)
      by (rewrite skipn_length; lia).
    rewrite <- Hl in H4.
    simpl app. simpl length. simpl out_pos. simpl replace_spans.
    rewrite (IH _ _ _ _ _ _ H4).
    rewrite !app_length, firstn_firstn. replace (Nat.min (s - off) (a - off)) with (s - off) by lia.
    rewrite skipn_firstn_comm. replace (a - off - (e - off)) with (a - e) by lia.
    rewrite (firstn_length_le line) by lia. lia.
Qed.

(* ================================================================== (E) lifting to rewrite_lines *)

Lemma spans_on_wf : forall ms (lines : list (list N)) i, ForallOrdPairs separated ms ->
  (forall m, In m ms -> pm_start m <= pm_end m /\ pm_end m <= length (nth (pm_line m) lines [])) ->
  spans_wf 0 (length (nth i lines [])) (spans_on ms i).
Proof.
  intros ms lines i Hsep Hw.
  assert (Hw1 : forall m, In m ms -> pm_start m <= pm_end m) by (intros m Hm; apply Hw in Hm; tauto).
  rewrite (spans_on_sort_desc ms i Hsep Hw1).
  rewrite <- (Nat.sub_0_r (length (nth i lines []))).
  apply chain_spans_wf. apply chain_rev.
  - apply filter_line_ss, sort_desc_ss; auto.
  - intros f Hf. apply filter_In in Hf as [Hf Ef].
    assert (Hin : In f ms) by (eapply Permutation_in; [apply sort_desc_perm|exact Hf]).
    unfold on_line in Ef. apply Nat.eqb_eq in Ef.
    destruct (Hw f Hin) as [K1 K2]. rewrite Ef in K2. split; assumption.
Qed.

Lemma iter_matches_spans_wf : forall pats lines i, (forall p, In p pats -> span_ok p) ->
  spans_wf 0 (length (nth i lines [])) (spans_on (iter_matches lines pats) i).
Proof.
  intros pats lines i Hok. apply spans_on_wf.
  - apply iter_matches_separated.
  - intros m Hm. pose proof (iter_matches_nonempty _ _ _ Hm).
    apply iter_matches_in_line in Hm; auto. intuition lia.
Qed.

Lemma spans_on_in : forall ms i a b r, In (a, b, r) (spans_on ms i) ->
  exists m, In m ms /\ pm_line m = i /\ pm_start m = a /\ pm_end m = b /\ cp_repl (pm_pat m) = r.
Proof.
  intros ms i a b r Hin. unfold spans_on in Hin.
  apply (Permutation_in _ (sort_asc_perm _)) in Hin.
  apply in_map_iff in Hin as (m & Hm & Hin).
  apply filter_In in Hin as [Hin Ei]. unfold on_line in Ei. apply Nat.eqb_eq in Ei.
  unfold to_span in Hm. injection Hm as <- <- <-.
  exists m. repeat split; auto.
Qed.

(* no occurrence is left stale or half-written: the rendering of every applied match stands whole
   in the new line, at the position computed from the spans of that line *)
Theorem rewrite_lines_occurrences : forall pats lines nl, (forall p, In p pats -> span_ok p) ->
  rewrite_lines pats lines = RwOk nl ->
  forall i, i < length lines ->
    let sp := spans_on (iter_matches lines pats) i in
    forall k a b r, nth_error sp k = Some (a, b, r) ->
      firstn (length r) (skipn (out_pos 0 sp k) (nth i nl [])) = r.
Proof.
  intros pats lines nl Hok Hrw i Hi sp k a b r Hk.
  destruct (rewrite_lines_spec _ _ _ Hok Hrw) as [_ Hs].
  rewrite (Hs i Hi). fold sp.
  eapply replace_spans_occurrence; [|exact Hk].
  apply iter_matches_spans_wf. exact Hok.
Qed.

(* the same through the matches: every match yielded by iter_matches has its rendering in the new line *)
Theorem rewrite_lines_every_match_written : forall pats lines nl, (forall p, In p pats -> span_ok p) ->
  rewrite_lines pats lines = RwOk nl ->
  forall m, In m (iter_matches lines pats) ->
    exists pos, firstn (length (cp_repl (pm_pat m))) (skipn pos (nth (pm_line m) nl [])) = cp_repl (pm_pat m).
Proof.
  intros pats lines nl Hok Hrw m Hm.
  pose proof (iter_matches_in_line _ _ _ Hok Hm) as (Hi & _).
  set (sp := spans_on (iter_matches lines pats) (pm_line m)).
  assert (Hin : In (to_span m) sp).
  { unfold sp, spans_on. eapply Permutation_in; [apply Permutation_sym, sort_asc_perm|].
    apply in_map. apply filter_In. split; auto. unfold on_line. apply Nat.eqb_refl. }
  apply In_nth_error in Hin as [k Hk].
  exists (out_pos 0 sp k).
  exact (rewrite_lines_occurrences _ _ _ Hok Hrw _ Hi k _ _ _ Hk).
Qed.

(* the text before the first match of a line is unchanged *)
Theorem rewrite_lines_prefix_kept : forall pats lines nl, (forall p, In p pats -> span_ok p) ->
  rewrite_lines pats lines = RwOk nl ->
  forall i, i < length lines ->
    forall a b r t, spans_on (iter_matches lines pats) i = (a, b, r) :: t ->
      firstn a (nth i nl []) = firstn a (nth i lines []).
Proof.
  intros pats lines nl Hok Hrw i Hi a b r t Hsp.
  destruct (rewrite_lines_spec _ _ _ Hok Hrw) as [_ Hs].
  rewrite (Hs i Hi), Hsp.
  pose proof (iter_matches_spans_wf pats lines i Hok) as Hw. rewrite Hsp in Hw.
  pose proof (replace_spans_prefix _ _ _ _ _ _ Hw) as H. rewrite Nat.sub_0_r in H. exact H.
Qed.

(* the text after the last match of a line is the original tail *)
Theorem rewrite_lines_suffix_kept : forall pats lines nl, (forall p, In p pats -> span_ok p) ->
  rewrite_lines pats lines = RwOk nl ->
  forall i, i < length lines ->
    forall s1 a b r, spans_on (iter_matches lines pats) i = s1 ++ [(a, b, r)] ->
      skipn (length (nth i nl []) - (length (nth i lines []) - b)) (nth i nl []) = skipn b (nth i lines []).
Proof.
  intros pats lines nl Hok Hrw i Hi s1 a b r Hsp.
  destruct (rewrite_lines_spec _ _ _ Hok Hrw) as [_ Hs].
  rewrite (Hs i Hi), Hsp.
  pose proof (iter_matches_spans_wf pats lines i Hok) as Hw. rewrite Hsp in Hw.
  pose proof (replace_spans_suffix _ _ _ _ _ _ Hw) as H. cbv zeta in H.
  rewrite Nat.sub_0_r in H. exact H.
Qed.

(* exact length of every new line *)
Theorem rewrite_lines_line_length : forall pats lines nl, (forall p, In p pats -> span_ok p) ->
  rewrite_lines pats lines = RwOk nl ->
  forall i, i < length lines ->
    let sp := spans_on (iter_matches lines pats) i in
    length (nth i nl []) + sum_cut sp = length (nth i lines []) + sum_repl sp.
Proof.
  intros pats lines nl Hok Hrw i Hi sp.
  destruct (rewrite_lines_spec _ _ _ Hok Hrw) as [_ Hs].
  rewrite (Hs i Hi). fold sp.
  apply replace_spans_length. apply iter_matches_spans_wf. exact Hok.
Qed.

(* when every replacement equals the text it replaces, nothing changes *)
Theorem rewrite_lines_same_text_identity : forall pats lines nl, (forall p, In p pats -> span_ok p) ->
  rewrite_lines pats lines = RwOk nl ->
  (forall m, In m (iter_matches lines pats) ->
     cp_repl (pm_pat m) = firstn (pm_end m - pm_start m) (skipn (pm_start m) (nth (pm_line m) lines []))) ->
  nl = lines.
Proof.
  intros pats lines nl Hok Hrw Hsame.
  destruct (rewrite_lines_spec _ _ _ Hok Hrw) as [Hlen Hs].
  apply (nth_ext nl lines [] [] Hlen).
  intros i Hi. rewrite Hlen in Hi. rewrite (Hs i Hi).
  apply replace_spans_same_pointwise.
  - apply iter_matches_spans_wf. exact Hok.
  - intros a b r Hin. apply spans_on_in in Hin as (m & Hm & E1 & E2 & E3 & E4).
    specialize (Hsame m Hm). rewrite E1, E2, E3, E4 in Hsame.
    rewrite Nat.sub_0_r. exact Hsame.
Qed.

(* ================================================================== examples *)

(* "x=AAA;y=BB" with AAA -> "CCCCC" and BB -> "D": the two spans of the line, their well-formedness,
   the landing positions 2 and 10 of the two replacements in "x=CCCCC;y=D", the length equation *)
Example ex_occurrences :
  let sp := spans_on (iter_matches [ex_line] [ex_pA; ex_pB]) 0 in
  sp = [(2, 5, cp_repl ex_pA); (8, 10, cp_repl ex_pB)] /\
  spans_wf 0 (length ex_line) sp /\
  out_pos 0 sp 0 = 2 /\ out_pos 0 sp 1 = 10 /\
  firstn (length (cp_repl ex_pA)) (skipn 2 ex_new_line) = cp_repl ex_pA /\
  firstn (length (cp_repl ex_pB)) (skipn 10 ex_new_line) = cp_repl ex_pB /\
  replace_spans ex_line 0 sp = ex_new_line /\
  length ex_new_line + sum_cut sp = length ex_line + sum_repl sp.
Proof. vm_compute. repeat split; lia. Qed.

(* a pattern whose rendering equals the matched text: the hypothesis of the identity theorem holds
   and the line is unchanged *)
Example ex_identity :
  let ms := iter_matches [ex_line] [ex_same] in
  ms <> [] /\
  forallb (fun m => eqb_str (cp_repl (pm_pat m))
                            (firstn (pm_end m - pm_start m) (skipn (pm_start m) (nth (pm_line m) [ex_line] [])))) ms = true /\
  rewrite_lines [ex_same] [ex_line] = RwOk [ex_line].
Proof. vm_compute. repeat split; try reflexivity. discriminate. Qed.
