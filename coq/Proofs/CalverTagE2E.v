(* End-to-end theorem for bumpver's DEFAULT CalVer pattern vYYYY0M.BUILD[-TAG], for TAGGED versions and
   the --tag flag:

       cvt y m bid None        = v<year><month, two digits>.<build>            (v202401.1001)
       cvt y m bid (Some tag)  = v<year><month, two digits>.<build>-<tag>      (v202401.1001-beta)

   for ALL years 1000..9999, months 1..12, build strings (digit strings, leading zeros allowed), all
   dates, every tag of the old version (alpha beta rc post dev preview, or none = final) and the flag
   families  { no flag, --tag T for every T in cli.VALID_RELEASE_TAG_VALUES }  (--pin-increments free,
   the other flags off).

   What the model of `bumpver test OLD 'vYYYY0M.BUILD[-TAG]' [--tag T] --date D` does:
     BUILD is bumped on every call (never reset); the calendar part moves to the date unless the old
     version lies in the future of the date; TAG is carried over unless --tag is given, in which case
     it is T (the group -TAG is left out exactly when the tag is final).  The gate NEVER refuses: the
     release tuple (YYYYMM, BUILD) of the new version is greater, and PEP 440 compares the release
     tuple before the tag, so even a tag downgrade (rc to alpha, final to dev, post to dev) is a
     strictly greater version.  This is unlike SemVer (Proofs/SemverTagE2E.v), where --tag alone is
     accepted exactly when the rank of the tag goes up.

   Chain:  cvt_parse_eq       (regex compile + preferred match, the TAG alternation + field values -> record)
           cvt_format         (record -> text)                        [Proofs/Pep440VersionE2E.v cvt_format_gen]
           cvt_incr           (v2version.incr)
           cvt_result_greater (PEP 440 order: release tuple first)
           cvt_test_cmd, calver_tag_e2e (cli.test).
   Nothing here is computed on samples: year, month, build, date, tag and flag are universally quantified. *)
From Coq Require Import List Bool NArith ZArith Arith Lia.
From BV Require Import Lib.PyStr Lib.Decimal Lib.Types Lib.Regex Lib.RegexParse Lib.Calendar Model.Lexid Gen.Tables
  Model.V2 Model.Pep440 Model.Cli Model.PatAst Model.CalKeys.
From BV Require Import Proofs.PatPartsBase Proofs.RegexFacts Proofs.DecimalFacts Proofs.Pep440Facts Proofs.DottedFacts
  Proofs.DottedJoinFacts Proofs.TaggedFacts Proofs.IncrFacts Proofs.ResetFacts Proofs.CalendarFacts Proofs.LexidFacts.
From BV Require Proofs.SemverTagE2E Proofs.CalverE2E Proofs.Pep440VersionE2E.
Import ListNotations.
Local Open Scope N_scope.

Module ST := BV.Proofs.SemverTagE2E.
Module CV := BV.Proofs.CalverE2E.
Module PE := BV.Proofs.Pep440VersionE2E.

Local Opaque parse_pep440.

(* vYYYY0M.BUILD[-TAG] *)
Definition P : list N := CV.P.

(* ------------------------------------------------------------------ versions *)
(* tag of a version: None = final (nothing shown), Some l = -<text of l> *)
Notation tagst := (option PE.ltag) (only parsing).
Definition ttext (t : tagst) : list N := match t with Some l => PE.ltxt l | None => s_final end.
Definition pytext (t : tagst) : list N := match t with Some l => PE.stxt l | None => [] end.
Definition tsuf (t : tagst) : list N := match t with Some l => 45 :: PE.ltxt l | None => [] end.

Definition cvt (y m : N) (bid : list N) (t : tagst) : list N := CV.cv y m bid ++ tsuf t.

(* the same text in the notation of Proofs/Pep440VersionE2E.v (there the tag state carries a number that is not shown) *)
Definition st (t : tagst) : option (PE.ltag * N) := match t with Some l => Some (l, 0) | None => None end.
Lemma cvt_pe y m bid t : cvt y m bid t = PE.cvt y m bid (st t).
Proof. destruct t; reflexivity. Qed.
Lemma cvt_final y m bid : cvt y m bid None = CV.cv y m bid.
Proof. unfold cvt, tsuf. apply app_nil_r. Qed.
Lemma ttext_pe t : PE.tagtext (st t) = ttext t.
Proof. destruct t; reflexivity. Qed.

Lemma cvt_eq y m bid t : cvt y m bid t = 118 :: (dec y ++ (pad 2 m ++ 46 :: (bid ++ tsuf t))).
Proof. unfold cvt, CV.cv. cbn [app]. rewrite <- !app_assoc. cbn [app]. reflexivity. Qed.

Example cvt_samples :
  cvt 2024 1 [49;48;48;49] None = [118;50;48;50;52;48;49;46;49;48;48;49]                                  (* v202401.1001 *)
  /\ cvt 2024 1 [49;48;48;49] (Some PE.Lbeta) = [118;50;48;50;52;48;49;46;49;48;48;49;45;98;101;116;97]   (* v202401.1001-beta *)
  /\ cvt 2024 12 [48;48;55] (Some PE.Lrc) = [118;50;48;50;52;49;50;46;48;48;55;45;114;99].                (* v202412.007-rc *)
Proof. repeat split; reflexivity. Qed.

(* ------------------------------------------------------------------ (1) parse: the match *)
(* the TAG part compiles to the alternation preview|final|dev|alpha|beta|post|rc *)
Lemma pre_TAG : pre P_TAG = PE.R_tag.
Proof. vm_compute. reflexivity. Qed.

Definition R_opt : re := Alt (Cat (chr_re 45) (Cat (Grp n_tag (pre P_TAG)) Eps)) Eps.
Lemma R_calver_eq : CV.R_calver =
  Cat (chr_re 118) (Cat (Grp n_year_y (pre P_YYYY)) (Cat (Grp n_month (pre P_0M)) (Cat (chr_re 46)
    (Cat (Grp n_bid D1) (Cat R_opt Eps))))).
Proof. reflexivity. Qed.

Definition tenv (t : tagst) : env := match t with Some l => [(n_tag, PE.ltxt l)] | None => [] end.

Lemma first_bid_tail bid tail f n0 :
  all_digits bid = true -> bid <> [] -> nodigit_head tail = true -> (length bid <= f)%nat ->
  first_match f n0 (Grp n_bid D1) (bid ++ tail) = Some ([(n_bid, bid)], tail).
Proof.
  intros Hd Hne Ht Hf. rewrite <- (take_consumed_app bid tail) at 2. apply first_grp.
  unfold D1. apply first_cat_eps. apply first_plus_digits; assumption.
Qed.

Lemma tsuf_nodigit t : nodigit_head (tsuf t) = true.
Proof. destruct t; reflexivity. Qed.

(* the optional group: taken with the tag text (every tag, by the one-way match of the alternation), skipped at the end *)
Lemma first_opt t f n0 : first_match f n0 R_opt (tsuf t) = Some (tenv t, []).
Proof.
  unfold R_opt. destruct t as [l|]; cbn [tsuf tenv].
  - apply first_alt_l.
    change [(n_tag, PE.ltxt l)] with (([] : env) ++ ([(n_tag, PE.ltxt l)] ++ [])).
    eapply first_cat; [apply CV.first_chr|].
    eapply first_cat; [|apply first_eps].
    rewrite pre_TAG. pose proof (PE.first_tag l [] f n0) as H. rewrite app_nil_r in H. exact H.
  - rewrite first_alt_r; [apply first_eps|].
    apply rems_cat_nil. unfold chr_re. rewrite rems_cls. reflexivity.
Qed.

Lemma match_cvt y m bid t : 1000 <= y <= 9999 -> 1 <= m <= 12 -> all_digits bid = true -> bid <> [] ->
  re_match CV.R_calver (cvt y m bid t)
  = Some ([(n_year_y, dec y); (n_month, pad 2 m); (n_bid, bid)] ++ tenv t, []).
Proof.
  intros Hy Hm Hd Hne. unfold re_match. rewrite cvt_eq.
  set (s := 118 :: dec y ++ pad 2 m ++ 46 :: bid ++ tsuf t).
  remember (S (length s)) as f eqn:Ef.
  assert (Hf : (length s <= f)%nat) by lia. clear Ef.
  generalize (length s) as n0. intros n0.
  unfold s in *. clear s. cbn [length] in Hf. rewrite !app_length in Hf. cbn [length] in Hf. rewrite app_length in Hf.
  rewrite R_calver_eq.
  change ([(n_year_y, dec y); (n_month, pad 2 m); (n_bid, bid)] ++ tenv t)
    with (([] : env) ++ ([(n_year_y, dec y)] ++ ([(n_month, pad 2 m)] ++ ([] ++ ([(n_bid, bid)] ++ tenv t))))).
  eapply first_cat; [apply CV.first_chr|].
  eapply first_cat; [apply CV.first_year; [exact Hy|rewrite !app_length; cbn [length]; rewrite app_length; lia]|].
  eapply first_cat; [apply CV.first_month; [exact Hm|rewrite !app_length; cbn [length]; rewrite app_length; lia]|].
  eapply first_cat; [apply CV.first_chr|].
  eapply first_cat; [apply first_bid_tail; [exact Hd|exact Hne|apply tsuf_nodigit|lia]|].
  apply first_cat_eps. apply first_opt.
Qed.

(* match.groupdict() *)
Definition fv4 (a b c : list N) (tg : option (list N)) : fvals :=
  [(n_year_y, Some a); (n_month, Some b); (n_bid, Some c); (n_tag, tg)].
Definition tagfv (t : tagst) : option (list N) := match t with Some l => Some (PE.ltxt l) | None => None end.
Lemma groupdict_cvt a b c t :
  groupdict CV.R_calver ([(n_year_y, a); (n_month, b); (n_bid, c)] ++ tenv t) = fv4 a b c (tagfv t).
Proof. destruct t; reflexivity. Qed.

(* ------------------------------------------------------------------ (1) parse: field values to the record *)
Definition cvt_vinfo (y m : Z) (bid : list N) (t : tagst) : vinfo :=
  mkv (Some y) None (Some (quarter_from_month m)) (Some m) None None None None None
      0%Z 0%Z 0%Z bid (ttext t) (pytext t) [] [] 0%Z 0%Z 1%Z.

Lemma parse_cinfo_fv4 today y m c tg : 1000 <= y -> 1 <= m ->
  parse_cinfo today (fv4 (dec y) (pad 2 m) c tg) =
  POk [Some (Z.of_N y); None; Some (quarter_from_month (Z.of_N m)); Some (Z.of_N m); None; None; None; None; None].
Proof.
  intros Hy Hm. unfold parse_cinfo.
  change (fv_int n_year_y (fv4 (dec y) (pad 2 m) c tg)) with (Some (Some (zundec (dec y)))).
  change (fv_int n_year_g (fv4 (dec y) (pad 2 m) c tg)) with (Some (@None Z)).
  change (fv_int n_month (fv4 (dec y) (pad 2 m) c tg)) with (Some (Some (zundec (pad 2 m)))).
  change (fv_int n_doy (fv4 (dec y) (pad 2 m) c tg)) with (Some (@None Z)).
  change (fv_int n_dom (fv4 (dec y) (pad 2 m) c tg)) with (Some (@None Z)).
  change (fv_int n_week_w (fv4 (dec y) (pad 2 m) c tg)) with (Some (@None Z)).
  change (fv_int n_week_u (fv4 (dec y) (pad 2 m) c tg)) with (Some (@None Z)).
  change (fv_int n_week_v (fv4 (dec y) (pad 2 m) c tg)) with (Some (@None Z)).
  change (fv_int n_quarter (fv4 (dec y) (pad 2 m) c tg)) with (Some (@None Z)).
  rewrite CV.zundec_dec, CV.zundec_pad. cbv zeta. cbn [fix2000].
  assert (E1 : (Z.of_N y <? 1000)%Z = false) by (apply Z.ltb_ge; lia). rewrite E1.
  assert (E2 : (Z.of_N y =? 0)%Z = false) by (apply Z.eqb_neq; lia).
  assert (E3 : (Z.of_N m =? 0)%Z = false) by (apply Z.eqb_neq; lia).
  cbn [truthy andb orb bind V2.is_some nth]. rewrite ?E2, ?E3. cbn [negb andb orb bind V2.is_some nth truthy].
  rewrite ?E2, ?E3. cbn [negb andb orb bind V2.is_some nth truthy]. rewrite ?E3. reflexivity.
Qed.

(* the TAG text is kept as it is, the PYTAG field is looked up in PEP440_TAG_BY_TAG; no tag group: final, empty *)
Lemma parse_vinfo_fv4 today y m bid t : 1000 <= y -> 1 <= m ->
  parse_vinfo today (fv4 (dec y) (pad 2 m) bid (tagfv t)) = POk (cvt_vinfo (Z.of_N y) (Z.of_N m) bid t).
Proof.
  intros Hy Hm. unfold parse_vinfo. rewrite parse_cinfo_fv4 by assumption. cbn [bind].
  set (fv := fv4 (dec y) (pad 2 m) bid (tagfv t)).
  change (fv_str_or_empty n_pytag fv) with (@nil N).
  change (fv_str_or_empty n_githash fv) with (@nil N).
  change (fv_str_or_empty n_hexhash fv) with (@nil N).
  change (assoc n_bid fv) with (Some (Some bid)).
  change (fv_int_or n_major 0%Z fv) with 0%Z.
  change (fv_int_or n_minor 0%Z fv) with 0%Z.
  change (fv_int_or n_patch 0%Z fv) with 0%Z.
  change (fv_int_or n_num 0%Z fv) with 0%Z.
  change (fv_int_or n_inc0 0%Z fv) with 0%Z.
  change (fv_int_or n_inc1 1%Z fv) with 1%Z.
  unfold fv. destruct t as [l|]; cbn [tagfv].
  - change (fv_str_or_empty n_tag (fv4 (dec y) (pad 2 m) bid (Some (PE.ltxt l)))) with (PE.ltxt l).
    destruct l; reflexivity.
  - change (fv_str_or_empty n_tag (fv4 (dec y) (pad 2 m) bid None)) with (@nil N).
    reflexivity.
Qed.

Local Opaque compile_pattern_re normalize_pattern.

(* (1) parse *)
Theorem cvt_parse_eq : forall today y m bid t,
  1000 <= y <= 9999 -> 1 <= m <= 12 -> all_digits bid = true -> bid <> [] ->
  parse_version_info today (cvt y m bid t) P = POk (cvt_vinfo (Z.of_N y) (Z.of_N m) bid t).
Proof.
  intros today y m bid t Hy Hm Hd Hne. unfold parse_version_info, P.
  rewrite CV.compile_calver, (match_cvt y m bid t Hy Hm Hd Hne), groupdict_cvt.
  apply parse_vinfo_fv4; lia.
Qed.

(* the record, field by field *)
Theorem cvt_parse : forall today y m bid t,
  1000 <= y <= 9999 -> 1 <= m <= 12 -> all_digits bid = true -> bid <> [] ->
  exists v, parse_version_info today (cvt y m bid t) P = POk v
    /\ v_year_y v = Some (Z.of_N y) /\ v_month v = Some (Z.of_N m) /\ v_bid v = bid
    /\ v_tag v = ttext t /\ v_pytag v = pytext t /\ assoc (v_tag v) PEP440_TAG_BY_TAG = Some (v_pytag v)
    /\ v_dom v = None /\ v_doy v = None /\ v_week_w v = None /\ v_week_u v = None /\ v_week_v v = None
    /\ v_year_g v = None /\ v_quarter v = Some (quarter_from_month (Z.of_N m))
    /\ v_major v = 0%Z /\ v_minor v = 0%Z /\ v_patch v = 0%Z /\ v_num v = 0%Z /\ v_inc0 v = 0%Z /\ v_inc1 v = 1%Z
    /\ v_githash v = [] /\ v_hexhash v = [].
Proof.
  intros today y m bid t Hy Hm Hd Hne. eexists. split; [apply cvt_parse_eq; assumption|].
  repeat split; try reflexivity. destruct t as [l|]; [apply PE.short_table|apply PE.final_table].
Qed.

(* ------------------------------------------------------------------ (2) format *)
(* the optional group -TAG is left out exactly when the tag is final *)
Theorem cvt_format_gen : forall v y m t,
  v_year_y v = Some y -> v_month v = Some m -> v_tag v = ttext t -> all_digits (v_bid v) = true ->
  format_version v P = Some (cvt (Z.to_N y) (Z.to_N m) (v_bid v) t).
Proof.
  intros v y m t Hy Hm Ht Hb. rewrite cvt_pe. rewrite <- ttext_pe in Ht.
  exact (PE.cvt_format_gen v y m (st t) Hy Hm Ht Hb).
Qed.

Theorem cvt_format : forall y m bid t, all_digits bid = true ->
  format_version (cvt_vinfo (Z.of_N y) (Z.of_N m) bid t) P = Some (cvt y m bid t).
Proof.
  intros y m bid t Hb.
  rewrite (cvt_format_gen (cvt_vinfo (Z.of_N y) (Z.of_N m) bid t) (Z.of_N y) (Z.of_N m) t eq_refl eq_refl eq_refl Hb).
  cbn [cvt_vinfo v_bid]. rewrite !N2Z.id. reflexivity.
Qed.

Theorem cvt_roundtrip : forall today y m bid t v,
  1000 <= y <= 9999 -> 1 <= m <= 12 -> all_digits bid = true -> bid <> [] ->
  parse_version_info today (cvt y m bid t) P = POk v -> format_version v P = Some (cvt y m bid t).
Proof.
  intros today y m bid t v Hy Hm Hd Hne H. rewrite (cvt_parse_eq today y m bid t Hy Hm Hd Hne) in H.
  injection H as <-. apply cvt_format. exact Hd.
Qed.

Lemma group_shown_iff_tagged y m bid t : cvt y m bid t = CV.cv y m bid <-> t = None.
Proof.
  split; [|intros ->; apply cvt_final].
  intros H. destruct t as [l|]; [|reflexivity]. exfalso. unfold cvt in H.
  rewrite <- (app_nil_r (CV.cv y m bid)) in H at 2. apply app_inv_head in H. discriminate H.
Qed.

(* ------------------------------------------------------------------ PEP 440 reading *)
(* the parsed version: release (year * 100 + month, build number), and for a tag its PEP 440 letter with number 0 *)
Definition pv (y m : N) (bid : list N) (t : tagst) : pver := PE.pv2 y m bid (st t).

Theorem parse_cvt : forall y m bid t, m <= 12 -> all_digits bid = true -> bid <> [] ->
  parse_pep440 (cvt y m bid t) = Some (pv y m bid t).
Proof.
  intros y m bid t Hm Hd Hne. rewrite cvt_pe, (PE.parse_cvt y m bid (st t) Hm Hd Hne). unfold pv.
  destruct t; reflexivity.
Qed.

Lemma pv_release_eq y m bid t : pv_release (pv y m bid t) = [y * 100 + m; undec bid].
Proof. destruct t as [[]|]; reflexivity. Qed.

(* the comparison key: the release tuple comes before everything that depends on the tag *)
Lemma cmpkey_pv y m bid t : exists p po d,
  cmpkey (pv y m bid t) = KVer 0 (drop_trailing_zeros [y * 100 + m; undec bid]) p po d None.
Proof. destruct t as [[]|]; cbn [pv st PE.pv2 PE.lb tag_pver]; rewrite cmpkey_eq; do 3 eexists; reflexivity. Qed.

Lemma version_key_cvt y m bid t : m <= 12 -> all_digits bid = true -> bid <> [] ->
  version_key (cvt y m bid t) = cmpkey (pv y m bid t).
Proof. intros Hm Hd Hne. unfold version_key. rewrite (parse_cvt y m bid t Hm Hd Hne). reflexivity. Qed.

(* two such strings with different build numbers differ *)
Lemma cvt_inj_bid y m bid t y' m' bid' t' :
  m <= 12 -> all_digits bid = true -> bid <> [] -> m' <= 12 -> all_digits bid' = true -> bid' <> [] ->
  cvt y m bid t = cvt y' m' bid' t' -> undec bid = undec bid'.
Proof.
  intros Hm Hd Hne Hm' Hd' Hne' E.
  assert (Q : parse_pep440 (cvt y m bid t) = parse_pep440 (cvt y' m' bid' t')) by (rewrite E; reflexivity).
  rewrite (parse_cvt y m bid t Hm Hd Hne), (parse_cvt y' m' bid' t' Hm' Hd' Hne') in Q.
  injection Q as Q. apply (f_equal pv_release) in Q. rewrite !pv_release_eq in Q.
  injection Q as _ Q. exact Q.
Qed.

(* version.to_pep440: no v, leading zeros of the build number dropped, the short tag with number 0 *)
Definition pep_text (y m : N) (bid : list N) (t : tagst) : list N := PE.nf2 y m bid (st t).
Theorem to_pep440_cvt : forall y m bid t, m <= 12 -> all_digits bid = true -> bid <> [] ->
  to_pep440 (cvt y m bid t) = pep_text y m bid t.
Proof.
  intros y m bid t Hm Hd Hne. rewrite cvt_pe, (PE.to_pep440_cvt y m bid (st t) Hm Hd Hne). unfold pep_text.
  destruct t; reflexivity.
Qed.
Lemma pep_text_eq y m bid t :
  pep_text y m bid t = dotted [y * 100 + m; undec bid] ++
    match t with
    | None => []
    | Some PE.Lalpha => [97;48] | Some PE.Lbeta => [98;48] | Some PE.Lrc => [114;99;48] | Some PE.Lpreview => [114;99;48]
    | Some PE.Lpost => [46;112;111;115;116;48] | Some PE.Ldev => [46;100;101;118;48]
    end.
Proof. destruct t as [[]|]; reflexivity. Qed.

(* the order of two such strings is decided by the release tuple whenever the tuples differ *)
Lemma key_release_lt r r' p po d p' po' d' : length r = length r' -> cmp_list N.compare r r' = Lt ->
  key_lt (KVer 0 (drop_trailing_zeros r) p po d None) (KVer 0 (drop_trailing_zeros r') p' po' d' None) = true.
Proof. intros L H. unfold key_lt. rewrite cmp_key_ver, (cmp_strip r r' L), H. reflexivity. Qed.

Theorem ver_lt_cvt_release : forall y m bid t y' m' bid' t',
  m <= 12 -> all_digits bid = true -> bid <> [] -> m' <= 12 -> all_digits bid' = true -> bid' <> [] ->
  cmp_list N.compare [y * 100 + m; undec bid] [y' * 100 + m'; undec bid'] = Lt ->
  ver_lt (cvt y m bid t) (cvt y' m' bid' t') = true.
Proof.
  intros y m bid t y' m' bid' t' Hm Hd Hne Hm' Hd' Hne' H. unfold ver_lt.
  rewrite (version_key_cvt y m bid t Hm Hd Hne), (version_key_cvt y' m' bid' t' Hm' Hd' Hne').
  destruct (cmpkey_pv y m bid t) as (p & po & d & ->). destruct (cmpkey_pv y' m' bid' t') as (p' & po' & d' & ->).
  apply key_release_lt; [reflexivity|exact H].
Qed.

(* ------------------------------------------------------------------ (3) incr *)
(* the flag families: no flag, or --tag T.  ft is the abstract reading of --tag: None = not given,
   Some None = --tag final, Some (Some p) = --tag <name of p>; ST.ltext gives the six texts of
   cli.VALID_RELEASE_TAG_VALUES (Proofs/SemverTagE2E.v ltext_valid, valid_is_ltext).
   --major --minor --patch --tag-num --pin-date are off; --pin-increments is free *)
Definition tag_flags (fl : flags) (ft : option (option ST.ptag)) : Prop :=
  f_major fl = false /\ f_minor fl = false /\ f_patch fl = false /\ f_tag fl = option_map ST.ltext ft
  /\ f_tag_num fl = false /\ f_pin_date fl = false.

(* the tag --tag T asks for, as a tag of a version *)
Definition of_flag (T : option ST.ptag) : tagst :=
  match T with
  | None => None
  | Some ST.Pa => Some PE.Lalpha | Some ST.Pb => Some PE.Lbeta | Some ST.Prc => Some PE.Lrc
  | Some ST.Ppost => Some PE.Lpost | Some ST.Pdev => Some PE.Ldev
  end.
Lemma ttext_of_flag T : ttext (of_flag T) = ST.ltext T.
Proof. destruct T as [[]|]; reflexivity. Qed.

(* TAG is carried over unless --tag is given *)
Definition next_tag (ft : option (option ST.ptag)) (t : tagst) : tagst :=
  match ft with Some T => of_flag T | None => t end.

(* the calendar part moves to the date unless the old version lies in the future *)
Definition cvt_next (y m : N) (b' : list N) (t' : tagst) (date : Z) : list N :=
  let c := cal_of date in
  if CV.old_in_future y m c then cvt y m b' t' else cvt (Z.to_N (year_y c)) (Z.to_N (month c)) b' t'.

Lemma cvt_next_cv y m b' t' date : cvt_next y m b' t' date = CV.calver_next y m b' date ++ tsuf t'.
Proof. unfold cvt_next, CV.calver_next. cbv zeta. destruct (CV.old_in_future y m (cal_of date)); reflexivity. Qed.

Lemma is_cal_gt_cvt y m bid t date : 1 <= m <= 12 ->
  is_cal_gt (cal_list (cvt_vinfo (Z.of_N y) (Z.of_N m) bid t)) (cinfo_of_ord date) = CV.old_in_future y m (cal_of date).
Proof. intros Hm. exact (CV.is_cal_gt_cv y m bid date Hm). Qed.

(* _incr_numeric on this pattern: BUILD bumped, TAG replaced when --tag is given, calendar fields untouched,
   nothing reset (no part of the pattern has an initial value) *)
Lemma incr_numeric_cvt old cur fl ft b' : tag_flags fl ft -> bump_bid (v_bid cur) = Some b' ->
  exists nv, incr_numeric P old cur fl = Some nv /\ v_year_y nv = v_year_y cur /\ v_month nv = v_month cur
    /\ v_tag nv = (match ft with Some T => ST.ltext T | None => v_tag cur end) /\ v_bid nv = b'.
Proof.
  intros (Hma & Hmi & Hpa & Ht & Htn & _) Hb.
  destruct cur as [a b c d e g h i j ma mi pa bid tag pytag gh hh num i0 i1].
  destruct fl as [fm fi fp ftg ftn fpi fpd].
  cbn [f_major f_minor f_patch f_tag f_tag_num v_bid v_year_y v_month v_tag] in *. subst fm fi fp ftg ftn.
  rewrite incr_numeric_bumped. unfold bumped. cbv zeta.
  cbn [f_major f_minor f_patch f_tag f_tag_num f_pin_increments].
  destruct ft as [T|]; cbn [option_map].
  - destruct (ST.ltext_cons T) as (x & tl & E). rewrite E. cbv beta iota. proj.
    destruct (eqb_str (x :: tl) tag); cbn [negb]; upd; rewrite <- E, ST.py_of_ltext;
      destruct fpi; upd; rewrite Hb; upd; unfold P; rewrite reset_rollover_fields_eq, CV.ppf_calver, CV.inits_calver;
      (eexists; split; [reflexivity|]; repeat split; reflexivity).
  - destruct fpi; upd; rewrite Hb; upd; unfold P; rewrite reset_rollover_fields_eq, CV.ppf_calver, CV.inits_calver;
      (eexists; split; [reflexivity|]; repeat split; reflexivity).
Qed.

(* an overflowing build number (all nines): _incr_numeric raises *)
Lemma incr_numeric_cvt_overflow old cur fl ft : tag_flags fl ft -> bump_bid (v_bid cur) = None ->
  incr_numeric P old cur fl = None.
Proof.
  intros (Hma & Hmi & Hpa & Ht & Htn & _) Hb.
  destruct cur as [a b c d e g h i j ma mi pa bid tag pytag gh hh num i0 i1].
  destruct fl as [fm fi fp ftg ftn fpi fpd].
  cbn [f_major f_minor f_patch f_tag f_tag_num v_bid] in *. subst fm fi fp ftg ftn.
  rewrite incr_numeric_bumped. unfold bumped. cbv zeta.
  cbn [f_major f_minor f_patch f_tag f_tag_num f_pin_increments].
  destruct ft as [T|]; cbn [option_map].
  - destruct (ST.ltext_cons T) as (x & tl & E). rewrite E. cbv beta iota. proj.
    destruct (eqb_str (x :: tl) tag); cbn [negb]; upd; rewrite <- E, ST.py_of_ltext;
      destruct fpi; upd; rewrite Hb; reflexivity.
  - destruct fpi; upd; rewrite Hb; reflexivity.
Qed.

Lemma cvt_nonempty y m bid t : cvt y m bid t <> [].
Proof. rewrite cvt_eq. intros Q; discriminate Q. Qed.

(* the step after incr_numeric: format, and the result differs from the old string *)
Lemma incr_finish old_s y m bid t y' m' b' t' nv :
  m <= 12 -> Z.to_N m' <= 12 ->
  all_digits bid = true -> bid <> [] -> bump_bid bid = Some b' ->
  v_year_y nv = Some y' -> v_month nv = Some m' -> v_tag nv = ttext t' -> v_bid nv = b' ->
  old_s = cvt y m bid t ->
  match format_version nv P with
  | None => ICrash
  | Some [] => INone
  | Some s => if eqb_str s old_s then INone else INew s
  end = INew (cvt (Z.to_N y') (Z.to_N m') b' t').
Proof.
  intros Hm Hm' Hd Hne Hb E1 E2 E3 E4 ->.
  destruct (CV.bumped_bid_facts bid b' Hd Hne Hb) as (Hlt & Hd' & Hne').
  rewrite (cvt_format_gen nv y' m' t' E1 E2 E3) by (rewrite E4; exact Hd').
  rewrite E4.
  change (match cvt (Z.to_N y') (Z.to_N m') b' t' with
          | [] => INone
          | _ :: _ => if eqb_str (cvt (Z.to_N y') (Z.to_N m') b' t') (cvt y m bid t) then INone
                      else INew (cvt (Z.to_N y') (Z.to_N m') b' t')
          end = INew (cvt (Z.to_N y') (Z.to_N m') b' t')).
  rewrite CV.match_nonempty by apply cvt_nonempty.
  destruct (eqb_str (cvt (Z.to_N y') (Z.to_N m') b' t') (cvt y m bid t)) eqn:Q; [|reflexivity].
  exfalso. apply eqb_str_eq in Q. apply cvt_inj_bid in Q; try assumption. lia.
Qed.

Lemma ttext_next ft t : (match ft with Some T => ST.ltext T | None => ttext t end) = ttext (next_tag ft t).
Proof. destruct ft as [T|]; [symmetry; apply ttext_of_flag|reflexivity]. Qed.

Local Opaque parse_version_info format_version incr_numeric.

Theorem cvt_incr : forall today date fl ft y m bid b' t,
  1000 <= y <= 9999 -> 1 <= m <= 12 -> all_digits bid = true -> bid <> [] ->
  tag_flags fl ft -> bump_bid bid = Some b' ->
  incr today (cvt y m bid t) P fl date = INew (cvt_next y m b' (next_tag ft t) date).
Proof.
  intros today date fl ft y m bid b' t Hy Hm Hd Hne Hfl Hb.
  pose proof Hfl as (_ & _ & _ & Ht & Htn & Hpd).
  unfold incr. change (is_valid_week_pattern P) with (is_valid_week_pattern CV.P). rewrite CV.week_P. cbn [negb].
  rewrite (cvt_parse_eq today y m bid t Hy Hm Hd Hne). cbv zeta.
  rewrite Hpd, Htn. cbn [andb].
  rewrite (is_cal_gt_cvt y m bid t date Hm). unfold cvt_next. cbv zeta.
  pose proof (CV.month_range date) as HM.
  destruct (CV.old_in_future y m (cal_of date)).
  - destruct (incr_numeric_cvt (cvt_vinfo (Z.of_N y) (Z.of_N m) bid t) (cvt_vinfo (Z.of_N y) (Z.of_N m) bid t) fl ft b' Hfl Hb)
      as (nv & HN & E1 & E2 & E3 & E4).
    rewrite HN. cbn [cvt_vinfo v_tag] in E3. rewrite ttext_next in E3.
    rewrite (incr_finish (cvt y m bid t) y m bid t (Z.of_N y) (Z.of_N m) b' (next_tag ft t) nv
               ltac:(lia) ltac:(rewrite N2Z.id; lia) Hd Hne Hb E1 E2 E3 E4 eq_refl).
    rewrite !N2Z.id. reflexivity.
  - destruct (incr_numeric_cvt (cvt_vinfo (Z.of_N y) (Z.of_N m) bid t)
                (set_cal (cvt_vinfo (Z.of_N y) (Z.of_N m) bid t) (cinfo_of_ord date)) fl ft b' Hfl Hb)
      as (nv & HN & E1 & E2 & E3 & E4).
    rewrite HN.
    change (v_tag (set_cal (cvt_vinfo (Z.of_N y) (Z.of_N m) bid t) (cinfo_of_ord date))) with (ttext t) in E3.
    rewrite ttext_next in E3.
    exact (incr_finish (cvt y m bid t) y m bid t (year_y (cal_of date)) (month (cal_of date)) b' (next_tag ft t) nv
             ltac:(lia) ltac:(lia) Hd Hne Hb E1 E2 E3 E4 eq_refl).
Qed.

(* a build number made of nines only cannot be bumped: incr raises (OverflowError from lexid) *)
Theorem cvt_incr_overflow : forall today date fl ft y m bid t,
  1000 <= y <= 9999 -> 1 <= m <= 12 -> all_digits bid = true -> bid <> [] ->
  tag_flags fl ft -> bump_bid bid = None ->
  incr today (cvt y m bid t) P fl date = ICrash.
Proof.
  intros today date fl ft y m bid t Hy Hm Hd Hne Hfl Hb.
  pose proof Hfl as (_ & _ & _ & Ht & Htn & Hpd).
  unfold incr. change (is_valid_week_pattern P) with (is_valid_week_pattern CV.P). rewrite CV.week_P. cbn [negb].
  rewrite (cvt_parse_eq today y m bid t Hy Hm Hd Hne). cbv zeta.
  rewrite Hpd, Htn. cbn [andb].
  set (old := cvt_vinfo (Z.of_N y) (Z.of_N m) bid t).
  destruct (is_cal_gt (cal_list old) (cinfo_of_ord date)).
  - rewrite (incr_numeric_cvt_overflow old old fl ft Hfl Hb). reflexivity.
  - rewrite (incr_numeric_cvt_overflow old (set_cal old (cinfo_of_ord date)) fl ft Hfl Hb). reflexivity.
Qed.

(* ------------------------------------------------------------------ (4) the new version is greater, whatever the tags *)
(* the next version always has the shape of such a string again, with year and month in range *)
Lemma cvt_next_shape y m b' t' date : 1000 <= y <= 9999 -> 1 <= m <= 12 -> (0 <= date <= MAX_ORD)%Z ->
  exists y' m', cvt_next y m b' t' date = cvt y' m' b' t' /\ 1000 <= y' <= 9999 /\ 1 <= m' <= 12
                /\ y * 100 + m <= y' * 100 + m'
                /\ (y' = y /\ m' = m \/ y' = Z.to_N (year_y (cal_of date)) /\ m' = Z.to_N (month (cal_of date))).
Proof.
  intros Hy Hm Hdate. unfold cvt_next. cbv zeta.
  destruct (CV.old_in_future y m (cal_of date)) eqn:E.
  - exists y, m. repeat split; lia.
  - pose proof (CV.month_range date) as HM. pose proof (CV.year_max date Hdate) as HY.
    destruct (CV.not_future_ge y m (cal_of date) E HM ltac:(lia)) as [G1 G2].
    exists (Z.to_N (year_y (cal_of date))), (Z.to_N (month (cal_of date))). repeat split; lia.
Qed.

(* BUILD always grows and the calendar part never goes back, so the release tuple (YYYYMM, BUILD) grows: the new
   version is strictly greater under PEP 440 for EVERY pair of old and new tag, tag downgrades included *)
Theorem cvt_result_greater : forall date y m bid b' t t',
  1 <= m <= 12 -> all_digits bid = true -> bid <> [] -> bump_bid bid = Some b' ->
  ver_lt (cvt y m bid t) (cvt_next y m b' t' date) = true.
Proof.
  intros date y m bid b' t t' Hm Hd Hne Hb.
  destruct (CV.bumped_bid_facts bid b' Hd Hne Hb) as (Hlt & Hd' & Hne').
  assert (L2 : N.compare (undec bid) (undec b') = Lt) by (apply N.compare_lt_iff; exact Hlt).
  unfold cvt_next. cbv zeta.
  destruct (CV.old_in_future y m (cal_of date)) eqn:E.
  - apply ver_lt_cvt_release; try assumption; try lia.
    cbn [cmp_list]. rewrite N.compare_refl, L2. reflexivity.
  - pose proof (CV.month_range date) as HM.
    destruct (CV.not_future_ge y m (cal_of date) E HM ltac:(lia)) as [_ G2].
    apply ver_lt_cvt_release; try assumption; try lia.
    cbn [cmp_list].
    destruct (N.compare_spec (y * 100 + m) (Z.to_N (year_y (cal_of date)) * 100 + Z.to_N (month (cal_of date))))
      as [_|_|G]; [rewrite L2; reflexivity|reflexivity|exfalso; lia].
Qed.

(* in particular the downgrades that the SemVer gate refuses are accepted here; spelled out for same month *)
Corollary cvt_tag_downgrade_greater : forall y m bid b',
  1 <= m <= 12 -> all_digits bid = true -> bid <> [] -> bump_bid bid = Some b' ->
  ver_lt (cvt y m bid (Some PE.Lrc)) (cvt y m b' (Some PE.Lalpha)) = true
  /\ ver_lt (cvt y m bid None) (cvt y m b' (Some PE.Ldev)) = true
  /\ ver_lt (cvt y m bid (Some PE.Lpost)) (cvt y m b' (Some PE.Ldev)) = true
  /\ ver_lt (cvt y m bid (Some PE.Lbeta)) (cvt y m b' (Some PE.Lbeta)) = true.
Proof.
  intros y m bid b' Hm Hd Hne Hb.
  destruct (CV.bumped_bid_facts bid b' Hd Hne Hb) as (Hlt & Hd' & Hne').
  assert (L2 : N.compare (undec bid) (undec b') = Lt) by (apply N.compare_lt_iff; exact Hlt).
  repeat split; (apply ver_lt_cvt_release; try assumption; try lia; cbn [cmp_list]; rewrite N.compare_refl, L2; reflexivity).
Qed.

(* the PEP 440 form that the command prints next to the new version *)
Theorem cvt_next_pep440 : forall date y m bid b' t',
  1000 <= y <= 9999 -> 1 <= m <= 12 -> all_digits bid = true -> bid <> [] -> bump_bid bid = Some b' ->
  to_pep440 (cvt_next y m b' t' date) =
  (let c := cal_of date in
   if CV.old_in_future y m c then pep_text y m b' t'
   else pep_text (Z.to_N (year_y c)) (Z.to_N (month c)) b' t').
Proof.
  intros date y m bid b' t' Hy Hm Hd Hne Hb.
  destruct (CV.bumped_bid_facts bid b' Hd Hne Hb) as (_ & Hd' & Hne').
  pose proof (CV.month_range date) as HM.
  unfold cvt_next. cbv zeta. destruct (CV.old_in_future y m (cal_of date));
    apply to_pep440_cvt; (assumption || lia).
Qed.

(* ------------------------------------------------------------------ (4) the command *)
Lemma validate_flags_P fl ft : tag_flags fl ft -> validate_flags P fl = true.
Proof.
  intros (Hma & Hmi & Hpa & _). unfold validate_flags.
  change (has_brace_l P) with false. rewrite Hma, Hmi, Hpa. reflexivity.
Qed.

Local Opaque version_key ver_le ver_lt to_pep440 incr.

(* the gate of cli.test accepts the result, for every tag of the old version and every --tag *)
Lemma gate_ok today date y m bid b' t t' :
  1000 <= y <= 9999 -> 1 <= m <= 12 -> all_digits bid = true -> bid <> [] ->
  (0 <= date <= MAX_ORD)%Z -> bump_bid bid = Some b' ->
  is_valid_version_v2 today P (cvt y m bid t) (cvt_next y m b' t' date) = GateOk.
Proof.
  intros Hy Hm Hd Hne Hdate Hb.
  destruct (CV.bumped_bid_facts bid b' Hd Hne Hb) as (_ & Hd' & Hne').
  pose proof (cvt_result_greater date y m bid b' t t' Hm Hd Hne Hb) as Hlt.
  unfold is_valid_version_v2.
  rewrite ver_lt_iff_not_le in Hlt. apply negb_true_iff in Hlt. rewrite Hlt.
  destruct (cvt_next_shape y m b' t' date Hy Hm Hdate) as (y' & m' & En & Hy' & Hm' & _).
  rewrite En, (cvt_parse_eq today y' m' b' t' Hy' Hm' Hd' Hne'). reflexivity.
Qed.

Theorem cvt_test_cmd : forall today date fl ft y m bid b' t,
  1000 <= y <= 9999 -> 1 <= m <= 12 -> all_digits bid = true -> bid <> [] ->
  (0 <= date <= MAX_ORD)%Z -> tag_flags fl ft -> bump_bid bid = Some b' ->
  let new := cvt_next y m b' (next_tag ft t) date in
  test_cmd_v2 today (cvt y m bid t) P fl (Some (Some date)) None = Exit0 new (to_pep440 new)
  /\ ver_lt (cvt y m bid t) new = true.
Proof.
  intros today date fl ft y m bid b' t Hy Hm Hd Hne Hdate Hfl Hb new.
  split; [|exact (cvt_result_greater date y m bid b' t (next_tag ft t) ltac:(lia) Hd Hne Hb)].
  pose proof Hfl as (_ & _ & _ & Ht & Htn & Hpd).
  pose proof (cvt_incr today date fl ft y m bid b' t Hy Hm Hd Hne Hfl Hb) as Hin.
  pose proof (gate_ok today date y m bid b' t (next_tag ft t) Hy Hm Hd Hne Hdate Hb) as Hg.
  unfold test_cmd_v2. rewrite Ht, ST.validate_tag_ok. cbn [negb].
  rewrite (validate_flags_P fl ft Hfl). cbn [negb]. rewrite Hpd. cbn [andb].
  rewrite Hin, Hg. reflexivity.
Qed.

(* without --date the date is TODAY *)
Corollary cvt_test_cmd_today : forall today fl ft y m bid b' t,
  1000 <= y <= 9999 -> 1 <= m <= 12 -> all_digits bid = true -> bid <> [] ->
  (0 <= today <= MAX_ORD)%Z -> tag_flags fl ft -> bump_bid bid = Some b' ->
  let new := cvt_next y m b' (next_tag ft t) today in
  test_cmd_v2 today (cvt y m bid t) P fl None None = Exit0 new (to_pep440 new).
Proof.
  intros today fl ft y m bid b' t Hy Hm Hd Hne Hdate Hfl Hb new.
  pose proof Hfl as (_ & _ & _ & Ht & Htn & Hpd).
  pose proof (cvt_incr today today fl ft y m bid b' t Hy Hm Hd Hne Hfl Hb) as Hin.
  pose proof (gate_ok today today y m bid b' t (next_tag ft t) Hy Hm Hd Hne Hdate Hb) as Hg.
  unfold test_cmd_v2. rewrite Ht, ST.validate_tag_ok. cbn [negb].
  rewrite (validate_flags_P fl ft Hfl). cbn [negb andb].
  rewrite Hin, Hg. reflexivity.
Qed.

(* the only way the command fails inside this family: the build number cannot be bumped (all nines) *)
Theorem cvt_test_cmd_overflow : forall today date fl ft y m bid t,
  1000 <= y <= 9999 -> 1 <= m <= 12 -> all_digits bid = true -> bid <> [] ->
  tag_flags fl ft -> bump_bid bid = None ->
  test_cmd_v2 today (cvt y m bid t) P fl (Some (Some date)) None = ExitErr.
Proof.
  intros today date fl ft y m bid t Hy Hm Hd Hne Hfl Hb.
  pose proof Hfl as (_ & _ & _ & Ht & Htn & Hpd).
  unfold test_cmd_v2. rewrite Ht, ST.validate_tag_ok. cbn [negb].
  rewrite (validate_flags_P fl ft Hfl). cbn [negb]. rewrite Hpd. cbn [andb].
  rewrite (cvt_incr_overflow today date fl ft y m bid t Hy Hm Hd Hne Hfl Hb). reflexivity.
Qed.

(* every value cli._validate_release_tag lets through is one of the six names: the abstraction ft loses nothing *)
Theorem tag_flags_complete : forall fl,
  f_major fl = false -> f_minor fl = false -> f_patch fl = false -> f_tag_num fl = false -> f_pin_date fl = false ->
  validate_release_tag (f_tag fl) = true -> exists ft, tag_flags fl ft.
Proof.
  intros fl H1 H2 H3 H4 H5 H6. destruct (ST.valid_tag_abstract fl H6) as [ft Hft].
  exists ft. repeat split; assumption.
Qed.
Theorem invalid_tag_rejected : forall today old fl d sv, validate_release_tag (f_tag fl) = false ->
  test_cmd_v2 today old P fl d sv = ExitErr.
Proof. intros today old fl d sv H. unfold test_cmd_v2. rewrite H. reflexivity. Qed.

(* ------------------------------------------------------------------ the whole statement in one piece *)
Theorem calver_tag_e2e : forall today date fl ft y m bid b' t,
  1000 <= y <= 9999 -> 1 <= m <= 12 -> all_digits bid = true -> bid <> [] ->
  (0 <= date <= MAX_ORD)%Z -> tag_flags fl ft -> bump_bid bid = Some b' ->
  let t' := next_tag ft t in
  let new := cvt_next y m b' t' date in
  parse_version_info today (cvt y m bid t) P = POk (cvt_vinfo (Z.of_N y) (Z.of_N m) bid t)
  /\ format_version (cvt_vinfo (Z.of_N y) (Z.of_N m) bid t) P = Some (cvt y m bid t)
  /\ incr today (cvt y m bid t) P fl date = INew new
  /\ test_cmd_v2 today (cvt y m bid t) P fl (Some (Some date)) None = Exit0 new (to_pep440 new)
  /\ ver_lt (cvt y m bid t) new = true
  /\ undec bid < undec b' /\ all_digits b' = true
  /\ exists y' m', new = cvt y' m' b' t' /\ 1000 <= y' <= 9999 /\ 1 <= m' <= 12 /\ y * 100 + m <= y' * 100 + m'
       /\ (y' = y /\ m' = m \/ y' = Z.to_N (year_y (cal_of date)) /\ m' = Z.to_N (month (cal_of date)))
       /\ to_pep440 new = pep_text y' m' b' t'.
Proof.
  intros today date fl ft y m bid b' t Hy Hm Hd Hne Hdate Hfl Hb t' new.
  destruct (CV.bumped_bid_facts bid b' Hd Hne Hb) as (Hlt & Hd' & Hne').
  destruct (cvt_test_cmd today date fl ft y m bid b' t Hy Hm Hd Hne Hdate Hfl Hb) as [Hc Hg].
  split; [exact (cvt_parse_eq today y m bid t Hy Hm Hd Hne)|].
  split; [exact (cvt_format y m bid t Hd)|].
  split; [exact (cvt_incr today date fl ft y m bid b' t Hy Hm Hd Hne Hfl Hb)|].
  split; [exact Hc|]. split; [exact Hg|]. split; [exact Hlt|]. split; [exact Hd'|].
  destruct (cvt_next_shape y m b' t' date Hy Hm Hdate) as (y' & m' & En & Hy' & Hm' & Hge & Hcase).
  exists y', m'. split; [exact En|]. split; [exact Hy'|]. split; [exact Hm'|]. split; [exact Hge|]. split; [exact Hcase|].
  unfold new. rewrite En. apply to_pep440_cvt; (assumption || lia).
Qed.

(* the flag families of the task, spelled out *)
(* no flag: the tag is carried over *)
Corollary cvt_cmd_noflag : forall today date fl y m bid b' t,
  1000 <= y <= 9999 -> 1 <= m <= 12 -> all_digits bid = true -> bid <> [] ->
  (0 <= date <= MAX_ORD)%Z -> tag_flags fl None -> bump_bid bid = Some b' ->
  let new := cvt_next y m b' t date in
  test_cmd_v2 today (cvt y m bid t) P fl (Some (Some date)) None = Exit0 new (to_pep440 new)
  /\ ver_lt (cvt y m bid t) new = true.
Proof. intros. exact (cvt_test_cmd today date fl None y m bid b' t H H0 H1 H2 H3 H4 H5). Qed.

(* --tag T, T any of alpha beta dev rc post final: the new tag is T whatever the old one was (upgrade, same tag, downgrade) *)
Corollary cvt_cmd_tag : forall today date fl T y m bid b' t,
  1000 <= y <= 9999 -> 1 <= m <= 12 -> all_digits bid = true -> bid <> [] ->
  (0 <= date <= MAX_ORD)%Z -> tag_flags fl (Some T) -> bump_bid bid = Some b' ->
  let new := cvt_next y m b' (of_flag T) date in
  test_cmd_v2 today (cvt y m bid t) P fl (Some (Some date)) None = Exit0 new (to_pep440 new)
  /\ ver_lt (cvt y m bid t) new = true.
Proof. intros. exact (cvt_test_cmd today date fl (Some T) y m bid b' t H H0 H1 H2 H3 H4 H5). Qed.

(* the final (untagged) case without flags is the theorem of Proofs/CalverE2E.v *)
Lemma cvt_next_final y m b' date : cvt_next y m b' None date = CV.calver_next y m b' date.
Proof. rewrite cvt_next_cv. apply app_nil_r. Qed.

(* ------------------------------------------------------------------ the closed form against the model, on samples *)
(* v202401.1001-beta and v202401.1001, flags: none, --tag rc, --tag final, --tag alpha (a downgrade), --tag beta (same tag),
   --tag dev, --tag post; dates 2024-01 (same month), 2024-03 (later), 2023-10 (the old version lies in the future):
   the model run by vm_compute gives the closed form, and the new version is greater *)
Definition sample_fts : list (option (option ST.ptag)) :=
  [None; Some (Some ST.Prc); Some None; Some (Some ST.Pa); Some (Some ST.Pb); Some (Some ST.Pdev); Some (Some ST.Ppost)].
Definition sample_flags (ft : option (option ST.ptag)) : flags :=
  mkflags false false false (option_map ST.ltext ft) false false false.
Example cvt_samples_cmd :
  forallb (fun t => forallb (fun ft => forallb (fun d =>
    let old := cvt 2024 1 [49;48;48;49] t in
    let new := cvt_next 2024 1 [49;48;48;50] (next_tag ft t) d in
    eqb_cli_res (test_cmd_v2 738000 old P (sample_flags ft) (Some (Some d)) None) (Exit0 new (to_pep440 new))
    && ver_lt old new)
    [738900; 738950; 738800]%Z) sample_fts) [Some PE.Lbeta; None; Some PE.Lpost; Some PE.Lpreview] = true
  /\ cvt_next 2024 1 [49;48;48;50] (Some PE.Lalpha) 738950 = [118;50;48;50;52;48;51;46;49;48;48;50;45;97;108;112;104;97]  (* v202403.1002-alpha *)
  /\ cvt_next 2024 1 [49;48;48;50] None 738800 = [118;50;48;50;52;48;49;46;49;48;48;50]                                  (* v202401.1002 *)
  /\ to_pep440 (cvt_next 2024 1 [49;48;48;50] (Some PE.Ldev) 738900) = [50;48;50;52;48;49;46;49;48;48;50;46;100;101;118;48]. (* 202401.1002.dev0 *)
Proof. vm_compute. repeat split; reflexivity. Qed.

Print Assumptions cvt_parse_eq.
Print Assumptions cvt_samples_cmd.
Print Assumptions cvt_parse.
Print Assumptions cvt_format_gen.
Print Assumptions cvt_format.
Print Assumptions cvt_roundtrip.
Print Assumptions parse_cvt.
Print Assumptions to_pep440_cvt.
Print Assumptions ver_lt_cvt_release.
Print Assumptions cvt_incr.
Print Assumptions cvt_incr_overflow.
Print Assumptions cvt_result_greater.
Print Assumptions cvt_tag_downgrade_greater.
Print Assumptions cvt_next_pep440.
Print Assumptions cvt_test_cmd.
Print Assumptions cvt_test_cmd_today.
Print Assumptions cvt_test_cmd_overflow.
Print Assumptions tag_flags_complete.
Print Assumptions invalid_tag_rejected.
Print Assumptions calver_tag_e2e.
Print Assumptions cvt_cmd_noflag.
Print Assumptions cvt_cmd_tag.
