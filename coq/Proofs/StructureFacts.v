(* Structural facts about control flow, extracted from the source by T1 (translate/t1_calls.py):
   the order of the steps inside cli.update, cli._update, cli.test, cli.init, vcs.commit and
   vcs.assert_not_dirty is exactly the order the models assume.  A reordering in the source changes
   the generated lists and breaks these proofs. *)
From Coq Require Import List NArith.
From BV Require Import Gen.Tables.
Import ListNotations.
Local Open Scope N_scope.

Theorem repo_order_cli_update :
  ORDER_CLI_UPDATE = [
  [95;118;97;108;105;100;97;116;101;95;114;101;108;101;97;115;101;95;116;97;103] (* _validate_release_tag *);
  [95;118;97;108;105;100;97;116;101;95;100;97;116;101] (* _validate_date *);
  [99;111;110;102;105;103;46;105;110;105;116] (* config.init *);
  [95;112;97;114;115;101;95;118;99;115;95;111;112;116;105;111;110;115] (* _parse_vcs_options *);
  [95;117;112;100;97;116;101;95;99;102;103;95;102;114;111;109;95;118;99;115] (* _update_cfg_from_vcs *);
  [105;110;99;114;95;100;105;115;112;97;116;99;104] (* incr_dispatch *);
  [95;105;115;95;118;97;108;105;100;95;118;101;114;115;105;111;110] (* _is_valid_version *);
  [95;112;114;105;110;116;95;100;105;102;102] (* _print_diff *);
  [99;111;109;109;105;116;95;109;115;103;95;116;101;109;112;108;97;116;101;46;102;111;114;109;97;116] (* commit_msg_template.format *);
  [116;97;103;95;109;115;103;95;116;101;109;112;108;97;116;101;46;102;111;114;109;97;116] (* tag_msg_template.format *);
  [60;105;102;32;100;114;121;58;32;114;101;116;117;114;110;62] (* <if dry: return> *);
  [95;116;114;121;95;117;112;100;97;116;101] (* _try_update *)
  ].
Proof. reflexivity. Qed.

Theorem repo_order_cli__update :
  ORDER_CLI__UPDATE = [
  [118;99;115;46;103;101;116;95;118;99;115;95;97;112;105] (* vcs.get_vcs_api *);
  [118;99;115;46;97;115;115;101;114;116;95;110;111;116;95;100;105;114;116;121] (* vcs.assert_not_dirty *);
  [118;50;114;101;119;114;105;116;101;46;114;101;119;114;105;116;101;95;102;105;108;101;115] (* v2rewrite.rewrite_files *);
  [118;49;114;101;119;114;105;116;101;46;114;101;119;114;105;116;101;95;102;105;108;101;115] (* v1rewrite.rewrite_files *);
  [118;99;115;46;99;111;109;109;105;116] (* vcs.commit *)
  ].
Proof. reflexivity. Qed.

Theorem repo_order_cli_test :
  ORDER_CLI_TEST = [
  [95;118;97;108;105;100;97;116;101;95;114;101;108;101;97;115;101;95;116;97;103] (* _validate_release_tag *);
  [95;118;97;108;105;100;97;116;101;95;102;108;97;103;115] (* _validate_flags *);
  [95;118;97;108;105;100;97;116;101;95;100;97;116;101] (* _validate_date *);
  [105;110;99;114;95;100;105;115;112;97;116;99;104] (* incr_dispatch *);
  [95;105;115;95;118;97;108;105;100;95;118;101;114;115;105;111;110] (* _is_valid_version *);
  [118;101;114;115;105;111;110;46;116;111;95;112;101;112;52;52;48] (* version.to_pep440 *);
  [99;108;105;99;107;46;101;99;104;111] (* click.echo *);
  [99;108;105;99;107;46;101;99;104;111] (* click.echo *)
  ].
Proof. reflexivity. Qed.

Theorem repo_order_vcs_commit :
  ORDER_VCS_COMMIT = [
  [104;111;111;107;115;46;114;117;110] (* hooks.run *);
  [118;99;115;95;97;112;105;46;97;100;100] (* vcs_api.add *);
  [118;99;115;95;97;112;105;46;99;111;109;109;105;116] (* vcs_api.commit *);
  [104;111;111;107;115;46;114;117;110] (* hooks.run *);
  [118;99;115;95;97;112;105;46;116;97;103] (* vcs_api.tag *);
  [118;99;115;95;97;112;105;46;112;117;115;104;95;116;97;103] (* vcs_api.push_tag *);
  [118;99;115;95;97;112;105;46;112;117;115;104] (* vcs_api.push *)
  ].
Proof. reflexivity. Qed.

Theorem repo_order_vcs_assert_not_dirty :
  ORDER_VCS_ASSERT_NOT_DIRTY = [
  [118;99;115;95;97;112;105;46;115;116;97;116;117;115] (* vcs_api.status *);
  [115;121;115;46;101;120;105;116] (* sys.exit *);
  [115;121;115;46;101;120;105;116] (* sys.exit *)
  ].
Proof. reflexivity. Qed.

Theorem repo_order_cli_init :
  ORDER_CLI_INIT = [
  [99;111;110;102;105;103;46;105;110;105;116] (* config.init *);
  [115;121;115;46;101;120;105;116] (* sys.exit *);
  [99;111;110;102;105;103;46;100;101;102;97;117;108;116;95;99;111;110;102;105;103] (* config.default_config *);
  [115;121;115;46;101;120;105;116] (* sys.exit *);
  [99;111;110;102;105;103;46;119;114;105;116;101;95;99;111;110;116;101;110;116] (* config.write_content *)
  ].
Proof. reflexivity. Qed.
