(* Facts about decimal printing / reading (Lib/Decimal.v). *)
From Coq Require Import List Bool ZArith NArith Arith Lia ZifyBool ZifyN.
From BV Require Import Lib.PyStr Lib.Decimal.
Import ListNotations.
Local Open Scope N_scope.
Ltac Zify.zify_post_hook ::= Z.div_mod_to_equations.

(* ------------------------------------------------------------------ *)
(* undec                                                               *)

Lemma fold_undec s : forall a,
  fold_left (fun a c => 10 * a + (c - 48)) s a
  = a * 10 ^ N.of_nat (length s) + undec s.
Proof.
  unfold undec. induction s as [|c s IH]; intro a.
  - cbn [fold_left length]. change (N.of_nat 0) with 0. rewrite N.pow_0_r. lia.
  - cbn [fold_left length]. rewrite IH. rewrite (IH (10 * 0 + (c - 48))).
    rewrite Nat2N.inj_succ, N.pow_succ_r'.
    generalize (10 ^ N.of_nat (length s)). intro P.
    generalize (fold_left (fun a0 c0 : N => 10 * a0 + (c0 - 48)) s 0). intro u.
    generalize (c - 48). intro d. ring.
Qed.

Lemma undec_nil : undec [] = 0.
Proof. reflexivity. Qed.

Lemma undec_cons c s :
  undec (c :: s) = (c - 48) * 10 ^ N.of_nat (length s) + undec s.
Proof.
  unfold undec at 1. cbn [fold_left]. rewrite fold_undec.
  replace (10 * 0 + (c - 48)) with (c - 48) by lia. reflexivity.
Qed.

Lemma undec_app a b :
  undec (a ++ b) = (undec a * 10 ^ N.of_nat (length b) + undec b)%N.
Proof.
  unfold undec at 1. rewrite fold_left_app. rewrite fold_undec. reflexivity.
Qed.

Lemma undec_single c : undec [c] = c - 48.
Proof. unfold undec. cbn [fold_left]. lia. Qed.

Lemma undec_snoc s c : undec (s ++ [c]) = 10 * undec s + (c - 48).
Proof.
  rewrite undec_app, undec_single. cbn [length].
  change (N.of_nat 1) with 1. rewrite N.pow_1_r. lia.
Qed.

Lemma pow10_pos k : 0 < 10 ^ k.
Proof. apply N.neq_0_lt_0. apply N.pow_nonzero. lia. Qed.

Lemma is_digit_bounds c : is_digit c = true <-> 48 <= c <= 57.
Proof. unfold is_digit. lia. Qed.

Lemma all_digits_cons c s :
  all_digits (c :: s) = true <-> (48 <= c <= 57) /\ all_digits s = true.
Proof.
  unfold all_digits. cbn [forallb]. rewrite andb_true_iff.
  rewrite is_digit_bounds. reflexivity.
Qed.

Lemma all_digits_app a b :
  all_digits (a ++ b) = true <-> all_digits a = true /\ all_digits b = true.
Proof. unfold all_digits. rewrite forallb_app, andb_true_iff. reflexivity. Qed.

Lemma undec_lt_pow s :
  all_digits s = true -> (undec s < 10 ^ N.of_nat (length s))%N.
Proof.
  induction s as [|c s IH]; intro H.
  - cbn. lia.
  - apply all_digits_cons in H. destruct H as [Hc Hs]. specialize (IH Hs).
    rewrite undec_cons. cbn [length]. rewrite Nat2N.inj_succ, N.pow_succ_r'.
    revert IH. generalize (10 ^ N.of_nat (length s)). intro P.
    generalize (undec s). intros u Hu. nia.
Qed.

(* ------------------------------------------------------------------ *)
(* dec: fuel independence and the defining equation                     *)

Definition fuel_ok (f : nat) (n : N) : Prop := (0 < f)%nat /\ n < 2 ^ N.of_nat f.

Lemma fuel_ok_step f n : fuel_ok (S f) n -> 10 <= n -> fuel_ok f (n / 10).
Proof.
  unfold fuel_ok. intros [_ H] Hn.
  rewrite Nat2N.inj_succ, N.pow_succ_r' in H.
  assert (Hlt : n / 10 < 2 ^ N.of_nat f) by
    (revert H; generalize (2 ^ N.of_nat f); intros; lia).
  split; [|exact Hlt].
  destruct f as [|f]; [|lia].
  exfalso. change (N.of_nat 0) with 0 in Hlt. rewrite N.pow_0_r in Hlt. lia.
Qed.

Lemma dec_aux_S f n acc :
  dec_aux (S f) n acc =
  if n <? 10 then digit_chr (n mod 10) :: acc
  else dec_aux f (n / 10) (digit_chr (n mod 10) :: acc).
Proof. reflexivity. Qed.

Lemma dec_aux_acc f : forall n acc, fuel_ok f n ->
  dec_aux f n acc = dec_aux f n [] ++ acc.
Proof.
  induction f as [|f IH]; intros n acc Hok.
  - destruct Hok; lia.
  - rewrite !dec_aux_S. destruct (n <? 10) eqn:E.
    + reflexivity.
    + assert (Hok' : fuel_ok f (n / 10)) by (apply fuel_ok_step; [exact Hok | lia]).
      rewrite (IH _ (_ :: acc) Hok'). rewrite (IH _ [_] Hok').
      rewrite <- app_assoc. reflexivity.
Qed.

Lemma dec_aux_fuel f1 : forall f2 n, fuel_ok f1 n -> fuel_ok f2 n ->
  dec_aux f1 n [] = dec_aux f2 n [].
Proof.
  induction f1 as [|f1 IH]; intros f2 n H1 H2.
  - destruct H1; lia.
  - destruct f2 as [|f2]; [destruct H2; lia|].
    rewrite !dec_aux_S. destruct (n <? 10) eqn:E.
    + reflexivity.
    + assert (Hok1 : fuel_ok f1 (n / 10)) by (apply fuel_ok_step; [exact H1 | lia]).
      assert (Hok2 : fuel_ok f2 (n / 10)) by (apply fuel_ok_step; [exact H2 | lia]).
      rewrite (dec_aux_acc f1 _ _ Hok1), (dec_aux_acc f2 _ _ Hok2).
      rewrite (IH f2 _ Hok1 Hok2). reflexivity.
Qed.

Lemma fuel_ok_dec n : fuel_ok (S (N.to_nat (N.size n))) n.
Proof.
  split; [lia|]. rewrite Nat2N.inj_succ, N2Nat.id, N.pow_succ_r'.
  pose proof (N.size_gt n). lia.
Qed.

Lemma dec_eq n :
  dec n = if n <? 10 then [digit_chr n]
          else dec (n / 10) ++ [digit_chr (n mod 10)].
Proof.
  unfold dec at 1. rewrite dec_aux_S. destruct (n <? 10) eqn:E.
  - rewrite N.mod_small by lia. reflexivity.
  - pose proof (fuel_ok_dec n) as Hn.
    assert (Hok : fuel_ok (N.to_nat (N.size n)) (n / 10))
      by (apply fuel_ok_step; [exact Hn | lia]).
    rewrite (dec_aux_acc _ _ _ Hok). f_equal.
    unfold dec. apply dec_aux_fuel; [exact Hok | apply fuel_ok_dec].
Qed.

Lemma dec_small n : n < 10 -> dec n = [digit_chr n].
Proof. intro H. rewrite dec_eq. replace (n <? 10) with true by lia. reflexivity. Qed.

Lemma dec_big n : 10 <= n -> dec n = dec (n / 10) ++ [digit_chr (n mod 10)].
Proof. intro H. rewrite dec_eq. replace (n <? 10) with false by lia. reflexivity. Qed.

Lemma dec_ind (P : N -> Prop) :
  (forall n, n < 10 -> P n) ->
  (forall n, 10 <= n -> P (n / 10) -> P n) ->
  forall n, P n.
Proof.
  intros Hs Hb n. induction n as [n IH] using (well_founded_induction N.lt_wf_0).
  destruct (N.lt_ge_cases n 10) as [H|H].
  - apply Hs; exact H.
  - apply Hb; [exact H|]. apply IH. lia.
Qed.

(* ------------------------------------------------------------------ *)
(* properties of dec                                                   *)

Lemma digit_chr_digit d : d < 10 -> 48 <= digit_chr d <= 57.
Proof. unfold digit_chr. lia. Qed.

Lemma all_digits_single c : all_digits [c] = true <-> 48 <= c <= 57.
Proof. rewrite all_digits_cons. unfold all_digits; cbn [forallb]. tauto. Qed.

Lemma dec_all_digits n : all_digits (dec n) = true.
Proof.
  induction n as [n H|n H IH] using dec_ind.
  - rewrite dec_small by exact H. apply all_digits_single. apply digit_chr_digit. exact H.
  - rewrite dec_big by exact H. apply all_digits_app. split; [exact IH|].
    apply all_digits_single. apply digit_chr_digit. lia.
Qed.

Lemma dec_nonempty n : dec n <> [].
Proof.
  rewrite dec_eq. destruct (n <? 10); [discriminate|].
  intro H. apply app_eq_nil in H. destruct H; discriminate.
Qed.

Lemma undec_dec n : undec (dec n) = n.
Proof.
  induction n as [n H|n H IH] using dec_ind.
  - rewrite dec_small by exact H. rewrite undec_single. unfold digit_chr. lia.
  - rewrite dec_big by exact H. rewrite undec_snoc, IH. unfold digit_chr. lia.
Qed.

Lemma hd_app_nonempty (a b : list N) : a <> [] -> hd 0 (a ++ b) = hd 0 a.
Proof. destruct a; [congruence|reflexivity]. Qed.

Lemma dec_hd_nonzero n : n <> 0%N -> hd 0%N (dec n) <> 48%N.
Proof.
  induction n as [n H|n H IH] using dec_ind; intro Hn.
  - rewrite dec_small by exact H. cbn [hd]. unfold digit_chr. lia.
  - rewrite dec_big by exact H. rewrite hd_app_nonempty by apply dec_nonempty.
    apply IH. lia.
Qed.

(* a digit string with non-zero head denotes a number >= 10^(len-1) *)
Lemma undec_ge_pow c s :
  49 <= c -> 10 ^ N.of_nat (length s) <= undec (c :: s).
Proof.
  intro Hc. rewrite undec_cons.
  generalize (10 ^ N.of_nat (length s)). intro P. generalize (undec s). intro u. nia.
Qed.

Lemma dec_canonical s :
  all_digits s = true -> s <> [] -> (hd 0%N s <> 48%N \/ s = [48%N]) ->
  dec (undec s) = s.
Proof.
  induction s as [|c s IH] using rev_ind; intros Hd Hne Hhd; [congruence|].
  apply all_digits_app in Hd. destruct Hd as [Hds Hdc].
  apply all_digits_single in Hdc.
  destruct s as [|x s].
  - cbn [app]. rewrite undec_single. rewrite dec_small by lia.
    unfold digit_chr. f_equal. lia.
  - assert (Hx : hd 0 (x :: s) <> 48).
    { destruct Hhd as [Hh|Hh]; [exact Hh|].
      exfalso. cbn [app] in Hh. injection Hh as _ Hh.
      destruct s; discriminate. }
    cbn [hd] in Hx.
    assert (Hxd : 48 <= x <= 57) by (apply all_digits_cons in Hds; tauto).
    assert (Hge : 1 <= undec (x :: s)).
    { pose proof (undec_ge_pow x s ltac:(lia)) as Hp.
      pose proof (pow10_pos (N.of_nat (length s))). lia. }
    rewrite undec_snoc.
    rewrite dec_big by lia.
    replace ((10 * undec (x :: s) + (c - 48)) / 10) with (undec (x :: s)) by lia.
    rewrite IH; [|exact Hds|discriminate|left; exact Hx].
    f_equal. f_equal. unfold digit_chr. lia.
Qed.

Lemma dec_length_le a b : (a <= b)%N -> (length (dec a) <= length (dec b))%nat.
Proof.
  revert a. induction b as [b H|b H IH] using dec_ind; intros a Hab.
  - rewrite (dec_small a) by lia. rewrite (dec_small b) by lia. cbn [length]. lia.
  - rewrite (dec_big b) by exact H. rewrite app_length. cbn [length].
    destruct (N.lt_ge_cases a 10) as [Ha|Ha].
    + rewrite (dec_small a) by exact Ha. cbn [length]. lia.
    + rewrite (dec_big a) by exact Ha. rewrite app_length. cbn [length].
      specialize (IH (a / 10) ltac:(lia)). lia.
Qed.

(* ------------------------------------------------------------------ *)
(* pad                                                                 *)

Lemma all_digits_repeat0 k : all_digits (repeat 48 k) = true.
Proof. induction k as [|k IH]; [reflexivity|]. cbn [repeat]. apply all_digits_cons. split; [lia|exact IH]. Qed.

Lemma undec_repeat0 k : undec (repeat 48 k) = 0.
Proof.
  induction k as [|k IH]; [reflexivity|]. cbn [repeat]. rewrite undec_cons, IH. lia.
Qed.

Lemma pad_all_digits k n : all_digits (pad k n) = true.
Proof.
  unfold pad, zfill. apply all_digits_app. split; [apply all_digits_repeat0|apply dec_all_digits].
Qed.

Lemma undec_pad k n : undec (pad k n) = n.
Proof.
  unfold pad, zfill. rewrite undec_app, undec_repeat0, undec_dec. lia.
Qed.

Lemma dec_length_bound k n :
  n < 10 ^ N.of_nat k -> (0 < k)%nat -> (length (dec n) <= k)%nat.
Proof.
  intros Hn Hk. destruct (N.eq_dec n 0) as [->|Hnz].
  - rewrite dec_small by lia. cbn [length]. lia.
  - pose proof (dec_hd_nonzero n Hnz) as Hh.
    pose proof (dec_all_digits n) as Hd.
    pose proof (undec_dec n) as Hu.
    destruct (dec n) as [|c t] eqn:E; [cbn [length]; lia|].
    cbn [hd] in Hh. apply all_digits_cons in Hd. destruct Hd as [Hc _].
    pose proof (undec_ge_pow c t ltac:(lia)) as Hp. rewrite Hu in Hp.
    assert (Hlt : 10 ^ N.of_nat (length t) < 10 ^ N.of_nat k) by lia.
    apply N.pow_lt_mono_r_iff in Hlt; [|lia]. cbn [length]. lia.
Qed.

Lemma pad_length k n :
  (n < 10 ^ N.of_nat k)%N -> (0 < k)%nat -> length (pad k n) = k.
Proof.
  intros Hn Hk. pose proof (dec_length_bound k n Hn Hk).
  unfold pad, zfill. rewrite app_length, repeat_length. lia.
Qed.

(* ------------------------------------------------------------------ *)
(* lexicographic order on equal-length digit strings                    *)

Lemma lt_str_digits a b :
  all_digits a = true -> all_digits b = true -> length a = length b ->
  lt_str a b = (undec a <? undec b)%N.
Proof.
  revert b. induction a as [|x a IH]; intros [|y b] Ha Hb Hl; try discriminate.
  - reflexivity.
  - apply all_digits_cons in Ha. destruct Ha as [Hx Ha].
    apply all_digits_cons in Hb. destruct Hb as [Hy Hb].
    cbn [length] in Hl. injection Hl as Hl.
    cbn [lt_str]. rewrite (IH b Ha Hb Hl). rewrite !undec_cons.
    pose proof (undec_lt_pow a Ha) as Hua. pose proof (undec_lt_pow b Hb) as Hub.
    rewrite Hl in *. revert Hua Hub.
    generalize (10 ^ N.of_nat (length b)). intro P.
    generalize (undec a) (undec b). intros ua ub Hua Hub.
    destruct (N.lt_trichotomy x y) as [H|[H|H]].
    + replace (x <? y) with true by lia. cbn [orb].
      assert ((x - 48 + 1) * P <= (y - 48) * P) by (apply N.mul_le_mono_r; lia).
      lia.
    + subst y. replace (x <? x) with false by lia. replace (x =? x) with true by lia.
      cbn [orb andb]. lia.
    + replace (x <? y) with false by lia. replace (x =? y) with false by lia.
      cbn [orb andb].
      assert ((y - 48 + 1) * P <= (x - 48) * P) by (apply N.mul_le_mono_r; lia).
      lia.
Qed.
