(* Shared by Proofs/PatAstFacts.v (sweeps over ALL parts of the generated tables, C02) and by the end-to-end
   proofs for single patterns: the part names, the text of a part for an integer value, and the
   separation lemma for ONE fixed-width part whose side conditions are computed for that part only,
   so that a theorem about vYYYY0M.BUILD does not rest on the regex of, say, JJJ. *)
From Coq Require Import List Bool NArith ZArith Arith Lia.
From BV Require Import Lib.PyStr Lib.Decimal Lib.Types Lib.Regex Lib.RegexParse Model.V2 Gen.Tables
  Model.PatAst Proofs.DecimalFacts Proofs.RegexFacts.
Import ListNotations.

(* ------------------------------------------------------------------ part names *)
Definition P_YYYY := [89;89;89;89]%N.
Definition P_YY := [89;89]%N.
Definition P_0Y := [48;89]%N.
Definition P_GGGG := [71;71;71;71]%N.
Definition P_GG := [71;71]%N.
Definition P_0G := [48;71]%N.
Definition P_Q := [81]%N.
Definition P_MM := [77;77]%N.
Definition P_0M := [48;77]%N.
Definition P_DD := [68;68]%N.
Definition P_0D := [48;68]%N.
Definition P_JJJ := [74;74;74]%N.
Definition P_00J := [48;48;74]%N.
Definition P_WW := [87;87]%N.
Definition P_0W := [48;87]%N.
Definition P_UU := [85;85]%N.
Definition P_0U := [48;85]%N.
Definition P_VV := [86;86]%N.
Definition P_0V := [48;86]%N.
Definition P_MAJOR := [77;65;74;79;82]%N.
Definition P_MINOR := [77;73;78;79;82]%N.
Definition P_PATCH := [80;65;84;67;72]%N.
Definition P_BUILD := [66;85;73;76;68]%N.
Definition P_BLD := [66;76;68]%N.
Definition P_TAG := [84;65;71]%N.
Definition P_PYTAG := [80;89;84;65;71]%N.
Definition P_NUM := [78;85;77]%N.
Definition P_INC0 := [73;78;67;48]%N.
Definition P_INC1 := [73;78;67;49]%N.

Ltac in_list := repeat first [left; reflexivity | right].


Fixpoint zrange (lo : Z) (cnt : nat) : list Z :=
  match cnt with O => [] | S k => lo :: zrange (lo + 1) k end.
Lemma in_zrange : forall cnt lo z, (lo <= z < lo + Z.of_nat cnt)%Z -> In z (zrange lo cnt).
Proof.
  induction cnt as [|k IH]; intros lo z H; [lia|]. cbn [zrange In].
  destruct (Z.eq_dec lo z) as [->|Hne]; [left; reflexivity|right]. apply IH. lia.
Qed.

(* text of a part for an integer field value: PART_FORMATS[name](z) *)
Definition fmtpart (name : list N) (z : Z) : list N :=
  match assoc name PART_FORMATS with Some k => apply_fmt k (FInt z) | None => [] end.

(* one fixed-width part: every text of the list is fully matched as the preferred match, the regex has no
   anchors and consumes at most w characters, every text has w characters; then inside a longer subject
   the part consumes exactly its text, whatever follows *)
Definition part_texts_ok (name : list N) (texts : list (list N)) : bool :=
  forallb (fun t => match re_match (pre name) t with Some ([], []) => true | _ => false end) texts
  && no_anchor (pre name)
  && match maxw (pre name) with Some w => forallb (fun t => Nat.eqb (length t) w) texts | None => false end.

Lemma fixed_part_sep_local : forall name texts t rest f n0,
  part_texts_ok name texts = true -> In t texts ->
  (length (t ++ rest) <= f)%nat ->
  first_match f n0 (pre name) (t ++ rest) = Some ([], rest).
Proof.
  intros name texts t rest f n0 Hok Ht Hf.
  unfold part_texts_ok in Hok. apply andb_prop in Hok. destruct Hok as [Hok Hw]. apply andb_prop in Hok. destruct Hok as [Hm Hna].
  pose proof (proj1 (forallb_forall _ _) Hm t Ht) as Hm'. cbn beta in Hm'.
  assert (Hm2 : re_match (pre name) t = Some ([], [])).
  { destruct (re_match (pre name) t) as [[[|] [|]]|]; try discriminate. reflexivity. }
  destruct (maxw (pre name)) as [w|] eqn:Ew; [|discriminate].
  pose proof (proj1 (forallb_forall _ _) Hw t Ht) as Hl. cbn beta in Hl. apply Nat.eqb_eq in Hl.
  change (Some ([], rest)) with (Some (@nil (list N * list N), [] ++ rest)).
  apply (re_match_lift_width (pre name) w); auto. lia.
Qed.
