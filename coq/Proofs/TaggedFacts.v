(* Versions that carry one of bumpver's release tags, read by the PEP 440 model, for ALL release
   numbers:  [v]N.N...[-]TAG[NUM]  with TAG one of alpha beta rc dev post preview a b.
   Python's alternation (a|b|c|rc|alpha|beta|pre|preview) tries the SHORT spelling first; the
   engine must backtrack out of it because the rest of the pattern (optional number, post, dev and
   local groups, trailing blanks, end of string) cannot start with the next letter.  The proof works
   with the preferred match UNDER A CONTINUATION (fmk) and with a small symbolic evaluator (sev) that
   computes all matches of a regex on a string with a known prefix and an unknown rest, as long as
   the engine never looks at the rest. *)
From Coq Require Import List Bool NArith ZArith Arith Lia.
From BV Require Import Lib.PyStr Lib.Decimal Lib.Regex Model.Pep440.
From BV Require Import Proofs.RegexFacts Proofs.DecimalFacts Proofs.Pep440Facts Proofs.DottedFacts Proofs.DottedJoinFacts.
Import ListNotations.
Local Open Scope N_scope.

(* ------------------------------------------------------------------ symbolic evaluation on a known prefix *)
Notation menv := (list (env * list N)) (only parsing).

Definition sev_seq (sb : list N -> option (list (env * list N))) : list (env * list N) -> option (list (env * list N)) :=
  fix go l :=
    match l with
    | [] => Some []
    | (e1, s1) :: l' =>
        match sb s1, go l' with
        | Some lb, Some rest => Some (map (fun '(e2, s2) => (e1 ++ e2, s2)) lb ++ rest)
        | _, _ => None
        end
    end.

(* Some l: on p ++ t the matcher produces l with t appended to every remainder, whatever t is *)
Fixpoint sev (r : re) (p : list N) : option (list (env * list N)) :=
  match r with
  | Eps => Some [([], p)]
  | Cls neg rs => match p with c :: p' => Some (if cls_accepts neg rs c then [([], p')] else []) | [] => None end
  | Cat a b => match sev a p with Some la => sev_seq (sev b) la | None => None end
  | Alt a b => match sev a p, sev b p with Some x, Some y => Some (x ++ y) | _, _ => None end
  | Star a => match sev a p with Some [] => Some [([], p)] | _ => None end
  | Grp n a => match sev a p with
               | Some l => Some (map (fun '(e, s') => ((n, take_consumed p s') :: e, s')) l)
               | None => None
               end
  | Bol => None
  | Eol => match p with c :: _ => if c =? 10 then None else Some [] | [] => None end
  end.

Lemma rems_eol_cons f n0 c t : c <> 10 -> rems f n0 Eol (c :: t) = [].
Proof.
  intros H. rewrite rems_eol. destruct c as [|q]; [reflexivity|].
  do 4 (destruct q as [q|q|]; try reflexivity). exfalso. apply H. reflexivity.
Qed.

Theorem sev_sound : forall r p l, sev r p = Some l ->
  forall f n0 t, rems f n0 r (p ++ t) = map (ext_tail t) l.
Proof.
  induction r as [|neg rs|a IHa b IHb|a IHa b IHb|a IHa|n a IHa| |]; intros p l H f n0 t; cbn [sev] in H.
  - injection H as <-. rewrite rems_eps. reflexivity.
  - destruct p as [|c p']; [discriminate H|]. injection H as <-. rewrite rems_cls. cbn [app].
    destruct (cls_accepts neg rs c); reflexivity.
  - destruct (sev a p) as [la|] eqn:Ea; [|discriminate H].
    rewrite rems_cat, (IHa p la Ea f n0 t). clear Ea. revert l H.
    induction la as [|[e1 s1] la IH]; intros l H; cbn [sev_seq] in H.
    + injection H as <-. reflexivity.
    + destruct (sev b s1) as [lb|] eqn:Eb; [|discriminate H].
      change ((fix go (l : list (env * list N)) : option (list (env * list N)) :=
                 match l with
                 | [] => Some []
                 | (e1, s1) :: l' =>
                     match sev b s1 with
                     | Some lb => match go l' with
                                  | Some rest => Some (map (fun '(e2, s2) => (e1 ++ e2, s2)) lb ++ rest)
                                  | None => None end
                     | None => None
                     end
                 end) la) with (sev_seq (sev b) la) in H.
      destruct (sev_seq (sev b) la) as [rest|] eqn:Er; [|discriminate H]. injection H as <-.
      cbn [map flat_map ext_tail]. rewrite (IHb s1 lb Eb f n0 t), (IH rest eq_refl), map_app, !map_map.
      f_equal. apply map_ext. intros [e2 s2]. reflexivity.
  - destruct (sev a p) as [x|] eqn:Ea; [|discriminate H]. destruct (sev b p) as [y|] eqn:Eb; [|discriminate H].
    injection H as <-. rewrite rems_alt, (IHa p x Ea), (IHb p y Eb), map_app. reflexivity.
  - destruct (sev a p) as [[|x la]|] eqn:Ea; try discriminate H. injection H as <-.
    destruct f as [|f]; [rewrite rems_star0; reflexivity|].
    rewrite rems_starS, (IHa p [] Ea). reflexivity.
  - destruct (sev a p) as [la|] eqn:Ea; [|discriminate H]. injection H as <-.
    rewrite rems_grp, (IHa p la Ea), !map_map. apply map_ext. intros [e s']. cbn [ext_tail].
    rewrite take_consumed_ext. reflexivity.
  - discriminate H.
  - destruct p as [|c p']; [discriminate H|]. destruct (N.eqb_spec c 10) as [E|E]; [discriminate H|].
    injection H as <-. cbn [app]. rewrite rems_eol_cons by exact E. reflexivity.
Qed.

(* ------------------------------------------------------------------ the preferred match under a continuation *)
(* the first match of r whose remainder is accepted by K: what the backtracking engine settles on
   when K says whether the rest of the pattern can go on from there *)
Definition fmk (f n0 : nat) (r : re) (K : list N -> bool) (s : list N) : option (env * list N) :=
  find (fun x => K (snd x)) (rems f n0 r s).
Definition Ktrue (s : list N) : bool := true.
Definition is_some {A} (o : option A) : bool := match o with Some _ => true | None => false end.
(* the continuation: b, then K *)
Definition Kc (f n0 : nat) (b : re) (K : list N -> bool) (s : list N) : bool := is_some (fmk f n0 b K s).

Lemma fmk_true f n0 r s : fmk f n0 r Ktrue s = first_match f n0 r s.
Proof. unfold fmk, first_match. destruct (rems f n0 r s); reflexivity. Qed.

Lemma fmk_of_first f n0 r K s e y :
  first_match f n0 r s = Some (e, y) -> K y = true -> fmk f n0 r K s = Some (e, y).
Proof.
  unfold fmk, first_match. destruct (rems f n0 r s) as [|[e' y'] l]; cbn [hd_error]; [discriminate|].
  intros [= -> ->] HK. cbn [find snd]. rewrite HK. reflexivity.
Qed.

Lemma find_app_none {A} (P : A -> bool) m l : find P m = None -> find P (m ++ l) = find P l.
Proof. induction m as [|x m IH]; cbn [find app]; [reflexivity|]. destruct (P x); [discriminate|exact IH]. Qed.

(* the general rule for a concatenation: a settles on the first match from which b;K can go on *)
Lemma fmk_cat f n0 a b K s e1 s1 e2 s2 :
  fmk f n0 a (Kc f n0 b K) s = Some (e1, s1) -> fmk f n0 b K s1 = Some (e2, s2) ->
  fmk f n0 (Cat a b) K s = Some (e1 ++ e2, s2).
Proof.
  unfold fmk at 1 3. rewrite rems_cat. intros Ha Hb.
  induction (rems f n0 a s) as [|[e s'] l IH]; cbn [find] in Ha; [discriminate Ha|].
  cbn [flat_map snd] in *.
  destruct (Kc f n0 b K s') eqn:E.
  - injection Ha as -> ->. unfold fmk in Hb.
    induction (rems f n0 b s1) as [|[e3 s3] l3 IH3]; cbn [find] in Hb; [discriminate Hb|].
    cbn [map app find snd] in *. destruct (K s3).
    + injection Hb as -> ->. reflexivity.
    + apply IH3. exact Hb.
  - unfold Kc, fmk in E.
    assert (N0 : find (fun x => K (snd x)) (map (fun '(e2, s2) => (e ++ e2, s2)) (rems f n0 b s')) = None).
    { revert E. induction (rems f n0 b s') as [|[e4 s4] l4 IH4]; [reflexivity|].
      cbn [find map snd]. destruct (K s4); [intros Q; discriminate Q|exact IH4]. }
    rewrite (find_app_none _ _ _ N0). apply IH. exact Ha.
Qed.

(* the common case: a's very first match is the one *)
Lemma fmk_cat_first f n0 a b K s e1 s1 e2 s2 :
  first_match f n0 a s = Some (e1, s1) -> fmk f n0 b K s1 = Some (e2, s2) ->
  fmk f n0 (Cat a b) K s = Some (e1 ++ e2, s2).
Proof.
  intros Ha Hb. eapply fmk_cat; [|exact Hb]. apply fmk_of_first; [exact Ha|]. unfold Kc. rewrite Hb. reflexivity.
Qed.

Lemma fmk_eps f n0 K s : K s = true -> fmk f n0 Eps K s = Some ([], s).
Proof. intros H. unfold fmk. rewrite rems_eps. cbn [find snd]. rewrite H. reflexivity. Qed.

Lemma fmk_ok f n0 r K s e y : fmk f n0 r K s = Some (e, y) -> K y = true.
Proof. unfold fmk. intros H. apply find_some in H. exact (proj2 H). Qed.
Lemma fmk_ext f n0 r K K' s : (forall x, K x = K' x) -> fmk f n0 r K s = fmk f n0 r K' s.
Proof.
  intros H. unfold fmk. induction (rems f n0 r s) as [|x l IH]; [reflexivity|].
  cbn [find]. rewrite H, IH. reflexivity.
Qed.
Lemma Kc_eps f n0 K s : Kc f n0 Eps K s = K s.
Proof. unfold Kc, fmk. rewrite rems_eps. cbn [find snd]. destruct (K s); reflexivity. Qed.

Lemma fmk_cat_eps f n0 a K s e y : fmk f n0 a K s = Some (e, y) -> fmk f n0 (Cat a Eps) K s = Some (e, y).
Proof.
  intros H. rewrite <- (app_nil_r e). eapply fmk_cat; [|apply fmk_eps; exact (fmk_ok _ _ _ _ _ _ _ H)].
  rewrite (fmk_ext f n0 a _ K s (Kc_eps f n0 K)). exact H.
Qed.

Lemma fmk_alt_l f n0 a b K s x : fmk f n0 a K s = Some x -> fmk f n0 (Alt a b) K s = Some x.
Proof.
  unfold fmk. rewrite rems_alt. intros H.
  induction (rems f n0 a s) as [|y l IH]; cbn [find app] in *; [discriminate H|].
  destruct (K (snd y)); [exact H|apply IH; exact H].
Qed.
Lemma fmk_alt_r f n0 a b K s : fmk f n0 a K s = None -> fmk f n0 (Alt a b) K s = fmk f n0 b K s.
Proof.
  unfold fmk. rewrite rems_alt. intros H.
  induction (rems f n0 a s) as [|y l IH]; cbn [find app] in *; [reflexivity|].
  destruct (K (snd y)); [discriminate H|apply IH; exact H].
Qed.
Lemma fmk_grp f n0 n a K s e y :
  fmk f n0 a K s = Some (e, y) -> fmk f n0 (Grp n a) K s = Some ((n, take_consumed s y) :: e, y).
Proof.
  unfold fmk. rewrite rems_grp. intros H.
  induction (rems f n0 a s) as [|[e' y'] l IH]; cbn [find map snd] in *; [discriminate H|].
  destruct (K y'); [injection H as -> ->; reflexivity|apply IH; exact H].
Qed.
Lemma fmk_nil f n0 r K s : rems f n0 r s = [] -> fmk f n0 r K s = None.
Proof. unfold fmk. intros ->. reflexivity. Qed.

(* when the matches of r on a known prefix are known: walk down the list *)
Lemma fmk_sev f n0 r K p t l : sev r p = Some l ->
  fmk f n0 r K (p ++ t) = find (fun x => K (snd x)) (map (ext_tail t) l).
Proof. intros H. unfold fmk. rewrite (sev_sound r p l H). reflexivity. Qed.
Lemma rems_sev_nil f n0 r p t : sev r p = Some [] -> rems f n0 r (p ++ t) = [].
Proof. intros H. rewrite (sev_sound r p [] H). reflexivity. Qed.

(* ------------------------------------------------------------------ the shape of the optional pre / post / dev groups *)
Definition grp_body (r : re) : re := match r with Grp _ a => a | _ => Eps end.
Definition alt_r (r : re) : re := match r with Alt _ b => b | _ => Eps end.

Definition n_pre_g : list N := [112; 114; 101].
Definition n_post_g : list N := [112; 111; 115; 116].
Definition n_dev_g : list N := [100; 101; 118].

Definition R_sepopt : re := Alt (Cls false [(45, 45); (95, 95); (46, 46)]) Eps.
(* D1 = [0-9]+ as defined in CalverE2E *)
Definition R_numtail (name : list N) : re := Cat R_sepopt (Cat (Alt (Grp name D1) Eps) Eps).
(* a|b|c|rc|alpha|beta|pre|preview,  post|rev|r,  dev  (case-insensitive) *)
Definition R_prel_alts : re :=
  Eval vm_compute in cat_l (grp_body (cat_l (cat_r (grp_body (alt_l (cat_l R_tail1)))))).
Definition R_postl_alts : re :=
  Eval vm_compute in grp_body (cat_l (cat_r (cat_l (alt_r (grp_body (alt_l (cat_l (cat_r R_tail1)))))))).
Definition R_devl : re :=
  Eval vm_compute in grp_body (cat_l (cat_r (grp_body (alt_l (cat_l (cat_r (cat_r R_tail1))))))).

Definition R_pre_core : re := Cat (Grp n_pre_l (Cat R_prel_alts Eps)) (R_numtail n_pre_n).
Definition R_pre_grp : re := Grp n_pre_g (Cat R_sepopt R_pre_core).
Definition R_post_n1 : re := Cat (Cat (Cls false [(45, 45)]) (Cat (Grp n_post_n1 D1) Eps)) Eps.
Definition R_post_core : re := Cat (Grp n_post_l R_postl_alts) (R_numtail n_post_n2).
Definition R_post_grp : re := Grp n_post_g (Alt R_post_n1 (Cat (Cat R_sepopt R_post_core) Eps)).
Definition R_dev_core : re := Cat (Grp n_dev_l R_devl) (R_numtail n_dev_n).
Definition R_dev_grp : re := Grp n_dev_g (Cat R_sepopt R_dev_core).
Definition R_d : re := Cat (Alt R_dev_grp Eps) Eps.
Definition R_pd : re := Cat (Alt R_post_grp Eps) R_d.

Lemma tail1_shape : R_tail1 = Cat (Alt R_pre_grp Eps) R_pd.
Proof. vm_compute. reflexivity. Qed.

(* ------------------------------------------------------------------ continuations and dead ends *)
Section Conts.
Variables (f n0 : nat).
(* after the optional pre/post/dev groups: optional local version, blanks, end of string *)
Definition K2 : list N -> bool := Kc f n0 R_tail2 Ktrue.
Definition K_d : list N -> bool := Kc f n0 R_d K2.        (* after the post group *)
Definition K_pd : list N -> bool := Kc f n0 R_pd K2.      (* after the pre group *)

Lemma dead_K2 c t : sev R_tail2 [c] = Some [] -> K2 (c :: t) = false.
Proof.
  intros H. unfold K2, Kc. change (c :: t) with ([c] ++ t). rewrite (fmk_nil f n0 R_tail2 Ktrue _ (rems_sev_nil f n0 _ _ t H)).
  reflexivity.
Qed.
(* r consumes nothing on c... and the rest of the pattern cannot go on there either *)
Lemma dead_Kc r K c t : sev r [c] = Some [([], [c])] -> K (c :: t) = false -> Kc f n0 r K (c :: t) = false.
Proof.
  intros H HK. unfold Kc. change (c :: t) with ([c] ++ t). rewrite (fmk_sev f n0 r K [c] t _ H).
  cbn [map ext_tail find snd app]. rewrite HK. reflexivity.
Qed.

Lemma fmk_nil_first r K e : first_match 0 n0 r [] = Some (e, []) -> K [] = true -> fmk f n0 r K [] = Some (e, []).
Proof.
  intros H HK. apply fmk_of_first; [|exact HK]. unfold first_match in *. rewrite rems_nil_fuel. exact H.
Qed.

Lemma K2_nil : K2 [] = true.
Proof. unfold K2, Kc. rewrite fmk_true, first_tail2_nil. reflexivity. Qed.
Lemma fmk_d_nil : fmk f n0 R_d K2 [] = Some ([], []).
Proof. apply fmk_nil_first; [vm_compute; reflexivity|apply K2_nil]. Qed.
Lemma K_d_nil : K_d [] = true.
Proof. unfold K_d, Kc. rewrite fmk_d_nil. reflexivity. Qed.
Lemma fmk_pd_nil : fmk f n0 R_pd K2 [] = Some ([], []).
Proof. apply fmk_nil_first; [vm_compute; reflexivity|apply K2_nil]. Qed.
Lemma K_pd_nil : K_pd [] = true.
Proof. unfold K_pd, Kc. rewrite fmk_pd_nil. reflexivity. Qed.

(* after a too short spelling of the tag (a of alpha, b of beta, pre of preview) the next letter is
   l, e or v: the number part takes nothing, neither do the post and dev groups, and the end of the
   pattern does not accept a letter *)
Definition after_short (c : N) : bool := (c =? 108) || (c =? 101) || (c =? 118).
Lemma dead_after_prel c t : after_short c = true -> Kc f n0 (R_numtail n_pre_n) K_pd (c :: t) = false.
Proof.
  intros H. unfold after_short in H.
  assert (C : c = 108 \/ c = 101 \/ c = 118).
  { destruct (N.eqb_spec c 108) as [E1|E1]; [left; exact E1|].
    destruct (N.eqb_spec c 101) as [E2|E2]; [right; left; exact E2|].
    destruct (N.eqb_spec c 118) as [E3|E3]; [right; right; exact E3|]. discriminate H. }
  destruct C as [C | [C | C]]; subst c;
    (apply dead_Kc; [vm_compute; reflexivity|]; unfold K_pd; apply dead_Kc; [vm_compute; reflexivity|];
     apply dead_K2; vm_compute; reflexivity).
Qed.

(* ------------------------------------------------------------------ the optional number after a tag *)
Definition numenv (name num : list N) : env := match num with [] => [] | _ => [(name, num)] end.

Lemma digit_not_sep d : is_digit d = true -> cls_accepts false [(45, 45); (95, 95); (46, 46)] d = false.
Proof.
  unfold is_digit, cls_accepts, inr. cbn [existsb xorb]. intros H.
  apply andb_true_iff in H as [H1 H2]. apply N.leb_le in H1, H2.
  destruct (N.leb_spec 45 d), (N.leb_spec d 45), (N.leb_spec 95 d), (N.leb_spec d 95), (N.leb_spec 46 d), (N.leb_spec d 46);
    simpl; auto; lia.
Qed.

Lemma num_part name K num : all_digits num = true -> (length num <= f)%nat -> K [] = true ->
  fmk f n0 (R_numtail name) K num = Some (numenv name num, []).
Proof.
  intros Hd Hf HK. destruct num as [|d ds].
  - apply fmk_nil_first; [vm_compute; reflexivity|exact HK].
  - pose proof Hd as Hd'. unfold all_digits in Hd'. cbn [forallb] in Hd'. apply andb_true_iff in Hd' as [Hc _].
    unfold R_numtail. change (numenv name (d :: ds)) with (([] : env) ++ [(name, d :: ds)]).
    eapply fmk_cat_first.
    + unfold R_sepopt. rewrite first_alt_r; [apply first_eps|]. rewrite rems_cls, digit_not_sep by exact Hc. reflexivity.
    + apply fmk_cat_eps. apply fmk_alt_l.
      rewrite <- (take_consumed_nil (d :: ds)) at 2. apply fmk_grp.
      apply fmk_of_first; [|exact HK]. unfold D1. apply first_cat_eps.
      rewrite <- (app_nil_r (d :: ds)) at 1.
      apply first_plus_digits; [exact Hd|intros Q; discriminate Q|reflexivity|exact Hf].
Qed.
End Conts.

(* ------------------------------------------------------------------ the release group followed by more text *)
(* the rest does not start with a digit, nor with a dot followed by a digit *)
Definition relstop (rest : list N) : Prop :=
  match rest with
  | [] => True
  | c :: r => is_digit c = false /\ (c = 46 -> match r with d :: _ => is_digit d = false | [] => True end)
  end.
Lemma relstop_nodigit rest : relstop rest -> nodigit_head rest = true.
Proof. destruct rest as [|c t]; [reflexivity|]. intros [H _]. cbn [nodigit_head]. rewrite H. reflexivity. Qed.

Lemma first_star_dotnum_t : forall ds f n0 rest, Forall dstr ds -> relstop rest -> (length (dj ds) <= f)%nat ->
  first_match f n0 (Star R_dotnum) ((match ds with [] => [] | _ => 46 :: dj ds end) ++ rest) = Some ([], rest).
Proof.
  induction ds as [|m r IH]; intros f n0 rest Hg Hr Hf.
  - apply first_star_stop. unfold R_dotnum. cbn [app].
    destruct rest as [|c t]; [rewrite rems_cat, rems_cls; reflexivity|]. destruct Hr as [_ Hc].
    destruct (N.eq_dec c 46) as [E|Hne].
    + subst c. rewrite rems_cat, rems_cls, cls_single. cbn [flat_map]. rewrite app_nil_r.
      rewrite (rems_cat_nil f n0 (plus_re digit_re) Eps t); [reflexivity|].
      unfold plus_re. apply rems_cat_nil. rewrite rems_digit.
      specialize (Hc eq_refl). destruct t as [|d t']; [reflexivity|]. rewrite Hc. reflexivity.
    + rewrite rems_cat, rems_cls, cls_single_ne by (intros Q; apply Hne; symmetry; exact Q). reflexivity.
  - pose proof (Forall_inv Hg) as Hm. pose proof (Forall_inv_tail Hg) as Hg'.
    destruct (dstr_cons m Hm) as (c & t & Em & _ & _).
    destruct f as [|f]; [exfalso|].
    { destruct (dj_head m r Hm) as (c' & t' & E & _). rewrite E in Hf. cbn [length] in Hf. lia. }
    set (rest0 := match r with [] => [] | _ => 46 :: dj r end).
    assert (E : dj (m :: r) = m ++ rest0).
    { destruct r as [|m' r']; [unfold rest0; rewrite app_nil_r; reflexivity|]. apply dj_cons2. }
    assert (Hrest : nodigit_head (rest0 ++ rest) = true).
    { unfold rest0. destruct r; [apply relstop_nodigit; exact Hr|reflexivity]. }
    assert (Hlen : (length (dj r) <= f)%nat).
    { rewrite E, app_length in Hf. rewrite Em in Hf. unfold rest0 in Hf.
      destruct r; [change (dj []) with (@nil N)|]; cbn [length] in *; lia. }
    rewrite E. cbn [app]. rewrite <- app_assoc.
    eapply first_star_step0.
    + unfold R_dotnum. eapply first_cat0.
      * unfold first_match. rewrite rems_cls, cls_single. reflexivity.
      * apply first_cat_eps. apply first_plus_digits.
        -- exact (proj1 Hm).
        -- exact (proj2 Hm).
        -- exact Hrest.
        -- rewrite E, app_length in Hf. lia.
    + cbn [length]. rewrite !app_length. lia.
    + exact (IH f n0 rest Hg' Hr Hlen).
Qed.

Lemma first_release_t d ds f n0 rest : Forall dstr (d :: ds) -> relstop rest -> (length (dj (d :: ds)) <= f)%nat ->
  first_match f n0 (Grp n_release R_release_body) (dj (d :: ds) ++ rest) = Some ([(n_release, dj (d :: ds))], rest).
Proof.
  intros Hg Hr Hf. pose proof (Forall_inv Hg) as Hd. pose proof (Forall_inv_tail Hg) as Hg'.
  rewrite <- (take_consumed_app (dj (d :: ds)) rest) at 2. apply first_grp.
  set (rest0 := match ds with [] => [] | _ => 46 :: dj ds end).
  assert (E : dj (d :: ds) = d ++ rest0).
  { destruct ds as [|m' r']; [unfold rest0; rewrite app_nil_r; reflexivity|]. apply dj_cons2. }
  assert (Hrest : nodigit_head (rest0 ++ rest) = true).
  { unfold rest0. destruct ds; [apply relstop_nodigit; exact Hr|reflexivity]. }
  rewrite E, <- app_assoc. unfold R_release_body. eapply first_cat0.
  - apply first_plus_digits.
    + exact (proj1 Hd).
    + exact (proj2 Hd).
    + exact Hrest.
    + rewrite E, app_length in Hf. lia.
  - apply first_cat_eps.
    assert (Hlen : (length (dj ds) <= f)%nat).
    { rewrite E, app_length in Hf. unfold rest0 in Hf. destruct ds; [change (dj []) with (@nil N)|]; cbn [length] in *; lia. }
    exact (first_star_dotnum_t ds f n0 rest Hg' Hr Hlen).
Qed.

(* ------------------------------------------------------------------ env-friendly variants *)
Lemma fmk_cat_r_nil f n0 a b K s e1 s1 s2 :
  fmk f n0 a (Kc f n0 b K) s = Some (e1, s1) -> fmk f n0 b K s1 = Some ([], s2) ->
  fmk f n0 (Cat a b) K s = Some (e1, s2).
Proof. intros Ha Hb. rewrite <- (app_nil_r e1). exact (fmk_cat f n0 a b K s e1 s1 [] s2 Ha Hb). Qed.
Lemma fmk_cat_first_l_nil f n0 a b K s s1 e2 s2 :
  first_match f n0 a s = Some ([], s1) -> fmk f n0 b K s1 = Some (e2, s2) ->
  fmk f n0 (Cat a b) K s = Some (e2, s2).
Proof. intros Ha Hb. exact (fmk_cat_first f n0 a b K s [] s1 e2 s2 Ha Hb). Qed.
Lemma fmk_grp_all f n0 n a K s e :
  fmk f n0 a K s = Some (e, []) -> fmk f n0 (Grp n a) K s = Some ((n, s) :: e, []).
Proof. intros H. rewrite <- (take_consumed_nil s) at 2. apply fmk_grp. exact H. Qed.

(* TAG NUM inside its group: the letters, then the optional number *)
Lemma core_tag f n0 nl nn alts K tag num :
  fmk f n0 alts (Kc f n0 (R_numtail nn) K) (tag ++ num) = Some ([], num) ->
  all_digits num = true -> (length num <= f)%nat -> K [] = true ->
  fmk f n0 (Cat (Grp nl alts) (R_numtail nn)) K (tag ++ num) = Some ((nl, tag) :: numenv nn num, []).
Proof.
  intros Ha Hd Hf HK. change ((nl, tag) :: numenv nn num) with ([(nl, tag)] ++ numenv nn num).
  eapply fmk_cat; [|apply num_part; assumption].
  rewrite <- (take_consumed_app tag num) at 2. apply fmk_grp. exact Ha.
Qed.
Lemma Kc_num_ok f n0 nn K num : all_digits num = true -> (length num <= f)%nat -> K [] = true ->
  Kc f n0 (R_numtail nn) K num = true.
Proof. intros Hd Hf HK. unfold Kc. rewrite (num_part f n0 nn K num Hd Hf HK). reflexivity. Qed.

(* ------------------------------------------------------------------ bumpver's tags *)
Inductive btag := Talpha | Tbeta | Trc | Tdev | Tpost | Tpreview | Ta | Tb.
Definition tag_text (t : btag) : list N :=
  match t with
  | Talpha => s_alpha | Tbeta => s_beta | Trc => s_rc | Tdev => s_dev | Tpost => s_post
  | Tpreview => s_preview | Ta => s_a | Tb => s_b
  end.
Definition is_pre (t : btag) : bool := match t with Tdev | Tpost => false | _ => true end.

Definition A_a : re := Cat (Cls false [(97, 97); (65, 65)]) Eps.
Definition A_b : re := Cat (Cls false [(98, 98); (66, 66)]) Eps.
Lemma prel_shape : R_prel_alts = Alt A_a (Alt A_b (alt_r (alt_r R_prel_alts))).
Proof. reflexivity. Qed.

Ltac sev_fmk r p t :=
  let v := eval vm_compute in (sev r p) in
  match v with Some ?l => rewrite (fmk_sev _ _ r _ p t l) by (vm_compute; reflexivity) end.

(* the letters of a pre-release tag: the engine settles on the full spelling *)
Lemma prel_letters f n0 t num : is_pre t = true -> all_digits num = true -> (length num <= f)%nat ->
  fmk f n0 (Cat R_prel_alts Eps) (Kc f n0 (R_numtail n_pre_n) (K_pd f n0)) (tag_text t ++ num) = Some ([], num).
Proof.
  intros Ht Hd Hf.
  pose proof (Kc_num_ok f n0 n_pre_n (K_pd f n0) num Hd Hf (K_pd_nil f n0)) as HK.
  destruct t; try discriminate Ht; unfold tag_text, s_alpha, s_beta, s_rc, s_preview, s_a, s_b.
  - sev_fmk (Cat R_prel_alts Eps) [97; 108; 112; 104; 97] num.
    cbn [map ext_tail find snd app]. rewrite dead_after_prel by reflexivity. rewrite HK. reflexivity.
  - sev_fmk (Cat R_prel_alts Eps) [98; 101; 116; 97] num.
    cbn [map ext_tail find snd app]. rewrite dead_after_prel by reflexivity. rewrite HK. reflexivity.
  - sev_fmk (Cat R_prel_alts Eps) [114; 99] num.
    cbn [map ext_tail find snd app]. rewrite HK. reflexivity.
  - sev_fmk (Cat R_prel_alts Eps) [112; 114; 101; 118; 105; 101; 119] num.
    cbn [map ext_tail find snd app]. rewrite dead_after_prel by reflexivity. rewrite HK. reflexivity.
  - apply fmk_cat_eps. rewrite prel_shape. apply fmk_alt_l. sev_fmk A_a [97] num.
    cbn [map ext_tail find snd app]. rewrite HK. reflexivity.
  - apply fmk_cat_eps. rewrite prel_shape. rewrite fmk_alt_r.
    2:{ apply fmk_nil. apply rems_sev_nil. vm_compute. reflexivity. }
    apply fmk_alt_l. sev_fmk A_b [98] num.
    cbn [map ext_tail find snd app]. rewrite HK. reflexivity.
Qed.

Lemma pre_core f n0 t num : is_pre t = true -> all_digits num = true -> (length num <= f)%nat ->
  fmk f n0 R_pre_core (K_pd f n0) (tag_text t ++ num) = Some ((n_pre_l, tag_text t) :: numenv n_pre_n num, []).
Proof.
  intros Ht Hd Hf. unfold R_pre_core. apply core_tag; [|exact Hd|exact Hf|apply K_pd_nil].
  apply prel_letters; assumption.
Qed.
Lemma post_core f n0 num : all_digits num = true -> (length num <= f)%nat ->
  fmk f n0 R_post_core (K_d f n0) (s_post ++ num) = Some ((n_post_l, s_post) :: numenv n_post_n2 num, []).
Proof.
  intros Hd Hf. unfold R_post_core. apply core_tag; [|exact Hd|exact Hf|apply K_d_nil].
  unfold s_post. sev_fmk R_postl_alts [112; 111; 115; 116] num.
  cbn [map ext_tail find snd app]. rewrite (Kc_num_ok f n0 n_post_n2 (K_d f n0) num Hd Hf (K_d_nil f n0)). reflexivity.
Qed.
Lemma dev_core f n0 num : all_digits num = true -> (length num <= f)%nat ->
  fmk f n0 R_dev_core (K2 f n0) (s_dev ++ num) = Some ((n_dev_l, s_dev) :: numenv n_dev_n num, []).
Proof.
  intros Hd Hf. unfold R_dev_core. apply core_tag; [|exact Hd|exact Hf|apply K2_nil].
  unfold s_dev. sev_fmk R_devl [100; 101; 118] num.
  cbn [map ext_tail find snd app]. rewrite (Kc_num_ok f n0 n_dev_n (K2 f n0) num Hd Hf (K2_nil f n0)). reflexivity.
Qed.

(* ------------------------------------------------------------------ the separator before the tag *)
(* bumpver patterns put nothing or a dash before the tag; PEP 440 also allows a dot or an underscore *)
Definition sep_ok (sep : list N) : Prop := sep = [] \/ sep = [45] \/ sep = [46] \/ sep = [95].
Definition not_sep_head (x : list N) : Prop :=
  match x with c :: _ => cls_accepts false [(45, 45); (95, 95); (46, 46)] c = false | [] => True end.

Lemma sepopt_first f n0 sep x : sep_ok sep -> not_sep_head x ->
  first_match f n0 R_sepopt (sep ++ x) = Some ([], x).
Proof.
  intros Hs Hx. unfold R_sepopt. destruct Hs as [E | [E | [E | E]]]; subst sep; cbn [app].
  - rewrite first_alt_r; [apply first_eps|]. rewrite rems_cls. destruct x as [|c x']; [reflexivity|].
    cbn [not_sep_head] in Hx. rewrite Hx. reflexivity.
  - apply first_alt_l. unfold first_match. rewrite rems_cls. reflexivity.
  - apply first_alt_l. unfold first_match. rewrite rems_cls. reflexivity.
  - apply first_alt_l. unfold first_match. rewrite rems_cls. reflexivity.
Qed.
Lemma tag_head t num : not_sep_head (tag_text t ++ num).
Proof. destruct t; reflexivity. Qed.

(* an optional group that cannot match a known prefix is skipped *)
Lemma opt_skip f n0 G p t : sev G p = Some [] -> first_match f n0 (Alt G Eps) (p ++ t) = Some ([], p ++ t).
Proof. intros H. rewrite first_alt_r; [apply first_eps|]. apply rems_sev_nil. exact H. Qed.

(* what the three optional groups capture *)
Definition tenv (sep : list N) (t : btag) (num : list N) : env :=
  match t with
  | Tpost => (n_post_g, sep ++ tag_text t ++ num) :: (n_post_l, s_post) :: numenv n_post_n2 num
  | Tdev => (n_dev_g, sep ++ tag_text t ++ num) :: (n_dev_l, s_dev) :: numenv n_dev_n num
  | _ => (n_pre_g, sep ++ tag_text t ++ num) :: (n_pre_l, tag_text t) :: numenv n_pre_n num
  end.

Lemma tail1_pre f n0 sep t num : is_pre t = true -> sep_ok sep -> all_digits num = true -> (length num <= f)%nat ->
  fmk f n0 R_tail1 (K2 f n0) (sep ++ tag_text t ++ num) = Some (tenv sep t num, []).
Proof.
  intros Ht Hs Hd Hf.
  assert (E : tenv sep t num = (n_pre_g, sep ++ tag_text t ++ num) :: (n_pre_l, tag_text t) :: numenv n_pre_n num)
    by (destruct t; try discriminate Ht; reflexivity).
  rewrite E, tail1_shape.
  eapply fmk_cat_r_nil; [|apply fmk_pd_nil].
  apply fmk_alt_l. unfold R_pre_grp. apply fmk_grp_all.
  eapply fmk_cat_first_l_nil; [apply sepopt_first; [exact Hs|apply tag_head]|].
  apply pre_core; assumption.
Qed.

Lemma tail1_post f n0 sep num : sep_ok sep -> all_digits num = true -> (length num <= f)%nat ->
  fmk f n0 R_tail1 (K2 f n0) (sep ++ tag_text Tpost ++ num) = Some (tenv sep Tpost num, []).
Proof.
  intros Hs Hd Hf. unfold tenv. rewrite tail1_shape. cbn [tag_text].
  eapply fmk_cat_first_l_nil.
  { rewrite app_assoc. apply opt_skip.
    destruct Hs as [E | [E | [E | E]]]; subst sep; vm_compute; reflexivity. }
  rewrite <- app_assoc. unfold R_pd.
  eapply fmk_cat_r_nil; [|apply fmk_d_nil].
  apply fmk_alt_l. unfold R_post_grp. apply fmk_grp_all.
  rewrite fmk_alt_r.
  2:{ apply fmk_nil. rewrite app_assoc. apply rems_sev_nil.
      destruct Hs as [E | [E | [E | E]]]; subst sep; vm_compute; reflexivity. }
  apply fmk_cat_eps.
  eapply fmk_cat_first_l_nil; [apply sepopt_first; [exact Hs|apply (tag_head Tpost)]|].
  apply post_core; assumption.
Qed.

Lemma tail1_dev f n0 sep num : sep_ok sep -> all_digits num = true -> (length num <= f)%nat ->
  fmk f n0 R_tail1 (K2 f n0) (sep ++ tag_text Tdev ++ num) = Some (tenv sep Tdev num, []).
Proof.
  intros Hs Hd Hf. unfold tenv. rewrite tail1_shape. cbn [tag_text].
  eapply fmk_cat_first_l_nil.
  { rewrite app_assoc. apply opt_skip.
    destruct Hs as [E | [E | [E | E]]]; subst sep; vm_compute; reflexivity. }
  rewrite <- app_assoc. unfold R_pd.
  eapply fmk_cat_first_l_nil.
  { rewrite app_assoc. apply opt_skip.
    destruct Hs as [E | [E | [E | E]]]; subst sep; vm_compute; reflexivity. }
  rewrite <- app_assoc. unfold R_d.
  apply fmk_cat_eps. apply fmk_alt_l. unfold R_dev_grp. apply fmk_grp_all.
  eapply fmk_cat_first_l_nil; [apply sepopt_first; [exact Hs|apply (tag_head Tdev)]|].
  apply dev_core; assumption.
Qed.

Lemma tail1_tagged f n0 sep t num : sep_ok sep -> all_digits num = true -> (length num <= f)%nat ->
  fmk f n0 R_tail1 (K2 f n0) (sep ++ tag_text t ++ num) = Some (tenv sep t num, []).
Proof.
  intros Hs Hd Hf. destruct (is_pre t) eqn:Ht.
  - apply tail1_pre; assumption.
  - destruct t; try discriminate Ht; [apply tail1_dev|apply tail1_post]; assumption.
Qed.

(* ------------------------------------------------------------------ the whole version string *)
Definition tagged (v : bool) (ds : list (list N)) (sep : list N) (t : btag) (num : list N) : list N :=
  (if v then [118] else []) ++ join [46] ds ++ sep ++ tag_text t ++ num.

Lemma septag_no_bang sep t : sep_ok sep -> ~ In 33 (sep ++ tag_text t).
Proof.
  intros Hs H. destruct Hs as [E | [E | [E | E]]]; subst sep; destruct t; cbn in H;
    repeat (destruct H as [H|H]; [discriminate H|]); exact H.
Qed.
Lemma tagged_no_bang ds sep t num : Forall dstr ds -> sep_ok sep -> all_digits num = true ->
  ~ In 33 (dj ds ++ sep ++ tag_text t ++ num).
Proof.
  intros Hg Hs Hd H. apply in_app_or in H as [H|H]; [exact (dj_no_bang ds Hg H)|].
  rewrite app_assoc in H. apply in_app_or in H as [H|H]; [exact (septag_no_bang sep t Hs H)|].
  apply (digits_bounds num 33 Hd) in H. lia.
Qed.
Lemma relstop_tagged sep t num : sep_ok sep -> relstop (sep ++ tag_text t ++ num).
Proof.
  intros Hs. destruct Hs as [E | [E | [E | E]]]; subst sep; destruct t; cbn [app tag_text relstop];
    (split; [reflexivity|intros Q; try discriminate Q; reflexivity]).
Qed.

Lemma inner_tagged f n0 d ds sep t num : Forall dstr (d :: ds) -> sep_ok sep -> all_digits num = true ->
  (length (dj (d :: ds) ++ sep ++ tag_text t ++ num) <= f)%nat ->
  fmk f n0 R_inner (K2 f n0) (dj (d :: ds) ++ sep ++ tag_text t ++ num)
  = Some ((n_release, dj (d :: ds)) :: tenv sep t num, []).
Proof.
  intros Hg Hs Hd Hf. rewrite !app_length in Hf. unfold R_inner.
  eapply fmk_cat_first_l_nil.
  { rewrite first_alt_r; [apply first_eps|]. unfold R_epoch_alt. apply rems_cat_absent.
    apply tagged_no_bang; assumption. }
  change ((n_release, dj (d :: ds)) :: tenv sep t num) with ([(n_release, dj (d :: ds))] ++ tenv sep t num).
  eapply fmk_cat_first.
  - apply first_release_t; [exact Hg|apply relstop_tagged; exact Hs|lia].
  - apply tail1_tagged; [exact Hs|exact Hd|lia].
Qed.

Theorem search_tagged v d ds sep t num : Forall dstr (d :: ds) -> sep_ok sep -> all_digits num = true ->
  re_search vre (tagged v (d :: ds) sep t num) = Some (0%nat, (n_release, dj (d :: ds)) :: tenv sep t num, []).
Proof.
  intros Hg Hs Hd. unfold re_search. apply search_go_first. rewrite <- fmk_true.
  unfold tagged. change (join [46] (d :: ds)) with (dj (d :: ds)).
  set (body := dj (d :: ds) ++ sep ++ tag_text t ++ num).
  change vre with (Cat Bol (Cat (Star space_re) (Cat R_optv (Cat R_inner R_tail2)))).
  eapply fmk_cat_first_l_nil.
  { unfold first_match. rewrite rems_bol, Nat.eqb_refl. reflexivity. }
  destruct v; cbn [app].
  - eapply fmk_cat_first_l_nil.
    { apply first_star_stop. unfold space_re. rewrite rems_cls. reflexivity. }
    eapply fmk_cat_first_l_nil.
    { unfold R_optv. apply first_alt_l. unfold first_match. rewrite rems_cls. reflexivity. }
    eapply fmk_cat_r_nil.
    + apply inner_tagged; try assumption. cbn [length]. fold body. lia.
    + rewrite fmk_true. apply first_tail2_nil.
  - destruct (dj_head d ds (Forall_inv Hg)) as (c & tl & E & Hc).
    assert (Eb : body = c :: (tl ++ sep ++ tag_text t ++ num)) by (unfold body; rewrite E; reflexivity).
    eapply fmk_cat_first_l_nil.
    { apply first_star_stop. unfold space_re. rewrite rems_cls, Eb, digit_not_space by exact Hc. reflexivity. }
    eapply fmk_cat_first_l_nil.
    { unfold R_optv. rewrite first_alt_r; [apply first_eps|].
      rewrite rems_cls, Eb, digit_not_v by exact Hc. reflexivity. }
    eapply fmk_cat_r_nil.
    + apply inner_tagged; try assumption. fold body. lia.
    + rewrite fmk_true. apply first_tail2_nil.
Qed.

(* ------------------------------------------------------------------ from the captures to the parsed version *)
Definition pver_of (e : env) : pver :=
  mkpver (if nonempty (g n_epoch e) then undec (match g n_epoch e with Some d => d | None => [] end) else 0)
         (map undec (ssplit [46] (match g n_release e with Some d => d | None => [] end)))
         (parse_letter_version (g n_pre_l e) (g n_pre_n e))
         (parse_letter_version (g n_post_l e) (if nonempty (g n_post_n1 e) then g n_post_n1 e else g n_post_n2 e))
         (parse_letter_version (g n_dev_l e) (g n_dev_n e))
         (parse_local (g n_local e)).
Lemma parse_of_search' s off e rest : re_search vre s = Some (off, e, rest) -> parse_pep440 s = Some (pver_of e).
Proof. exact (parse_of_search s off e rest). Qed.

Definition tag_pver (rel : list N) (t : btag) (n : N) : pver :=
  match t with
  | Talpha | Ta => mkpver 0 rel (Some (s_a, n)) None None None
  | Tbeta | Tb => mkpver 0 rel (Some (s_b, n)) None None None
  | Trc | Tpreview => mkpver 0 rel (Some (s_rc, n)) None None None
  | Tpost => mkpver 0 rel None (Some (s_post, n)) None None
  | Tdev => mkpver 0 rel None None (Some (s_dev, n)) None
  end.

Lemma pver_of_tagged X sep t num :
  pver_of ((n_release, X) :: tenv sep t num) = tag_pver (map undec (ssplit [46] X)) t (undec num).
Proof. destruct t; destruct num as [|c r]; reflexivity. Qed.

(* sep may also be a dot or an underscore *)
Theorem parse_tagged_sep : forall v ds sep t num, ds <> [] -> Forall dstr ds -> sep_ok sep -> all_digits num = true ->
  parse_pep440 (tagged v ds sep t num) = Some (tag_pver (map undec ds) t (undec num)).
Proof.
  intros v [|d ds] sep t num Hne Hg Hs Hd; [congruence|].
  rewrite (parse_of_search' _ _ _ _ (search_tagged v d ds sep t num Hg Hs Hd)), pver_of_tagged.
  rewrite (ssplit_dj (d :: ds) Hg Hne). reflexivity.
Qed.

Theorem parse_tagged : forall v ds sep t num, ds <> [] -> Forall dstr ds -> (sep = [] \/ sep = [45]) ->
  all_digits num = true ->
  parse_pep440 (tagged v ds sep t num) = Some (tag_pver (map undec ds) t (undec num)).
Proof.
  intros v ds sep t num Hne Hg Hs Hd. apply parse_tagged_sep; try assumption.
  unfold sep_ok. destruct Hs as [E|E]; auto.
Qed.

(* ------------------------------------------------------------------ consequences *)
Corollary is_pep440_tagged : forall v ds sep t num, ds <> [] -> Forall dstr ds -> sep_ok sep -> all_digits num = true ->
  is_pep440 (tagged v ds sep t num) = true.
Proof. intros. unfold is_pep440. rewrite parse_tagged_sep by assumption. reflexivity. Qed.

(* version.to_pep440: the v and the separator go away, leading zeros are dropped, the tag gets its
   canonical spelling and always a number *)
Definition canon_suffix (t : btag) (n : N) : list N :=
  match t with
  | Talpha | Ta => s_a ++ dec n
  | Tbeta | Tb => s_b ++ dec n
  | Trc | Tpreview => s_rc ++ dec n
  | Tpost => [46] ++ s_post ++ dec n
  | Tdev => [46] ++ s_dev ++ dec n
  end.

Corollary to_pep440_tagged_sep : forall v ds sep t num, ds <> [] -> Forall dstr ds -> sep_ok sep -> all_digits num = true ->
  to_pep440 (tagged v ds sep t num) = dotted (map undec ds) ++ canon_suffix t (undec num).
Proof.
  intros v ds sep t num Hne Hg Hs Hd. unfold to_pep440. rewrite (parse_tagged_sep v ds sep t num Hne Hg Hs Hd).
  unfold pver_str, dotted.
  destruct t; cbn [tag_pver pv_epoch pv_release pv_pre pv_post pv_dev pv_local N.eqb canon_suffix];
    cbn [app]; rewrite ?app_nil_r; reflexivity.
Qed.
Corollary to_pep440_tagged : forall v ds sep t num, ds <> [] -> Forall dstr ds -> (sep = [] \/ sep = [45]) ->
  all_digits num = true ->
  to_pep440 (tagged v ds sep t num) = dotted (map undec ds) ++ canon_suffix t (undec num).
Proof.
  intros v ds sep t num Hne Hg Hs Hd. apply to_pep440_tagged_sep; try assumption.
  unfold sep_ok. destruct Hs as [E|E]; auto.
Qed.

Lemma version_key_tagged v ds sep t num : ds <> [] -> Forall dstr ds -> sep_ok sep -> all_digits num = true ->
  version_key (tagged v ds sep t num) = cmpkey (tag_pver (map undec ds) t (undec num)).
Proof. intros Hne Hg Hs Hd. unfold version_key. rewrite (parse_tagged_sep v ds sep t num Hne Hg Hs Hd). reflexivity. Qed.

(* the untagged (final) version, with or without the leading v *)
Definition untagged (v : bool) (ds : list (list N)) : list N := (if v then [118] else []) ++ join [46] ds.
Lemma version_key_untagged v ds : ds <> [] -> Forall dstr ds ->
  version_key (untagged v ds) = cmpkey (mkpver 0 (map undec ds) None None None None).
Proof.
  intros Hne Hg. unfold version_key, untagged. change (join [46] ds) with (dj ds). destruct v; cbn [app].
  - rewrite (parse_vdj ds Hg Hne). reflexivity.
  - rewrite (parse_dj ds Hg Hne). reflexivity.
Qed.

(* PEP 440 rank of a tag; the final version sits between rc and post *)
Definition rank (t : btag) : N :=
  match t with Tdev => 0 | Talpha | Ta => 1 | Tbeta | Tb => 2 | Trc | Tpreview => 3 | Tpost => 5 end.
Definition rank_final : N := 4.

(* for the same release numbers the tag decides, whatever the tag numbers, separators and v are *)
Theorem tag_rank_lt : forall v v' ds sep sep' t1 t2 n m, ds <> [] -> Forall dstr ds -> sep_ok sep -> sep_ok sep' ->
  all_digits n = true -> all_digits m = true -> rank t1 < rank t2 ->
  ver_lt (tagged v ds sep t1 n) (tagged v' ds sep' t2 m) = true /\
  ver_lt (tagged v' ds sep' t2 m) (tagged v ds sep t1 n) = false.
Proof.
  intros v v' ds sep sep' t1 t2 n m Hne Hg Hs Hs' Hn Hm Hr. unfold ver_lt.
  rewrite (version_key_tagged v ds sep t1 n Hne Hg Hs Hn), (version_key_tagged v' ds sep' t2 m Hne Hg Hs' Hm).
  destruct t1, t2; try (exfalso; revert Hr; vm_compute; intros Q; discriminate Q);
    cbn [tag_pver]; rewrite !cmpkey_eq, !key_lt_same_er; split; reflexivity.
Qed.
Theorem tag_vs_final : forall v v' ds sep t n, ds <> [] -> Forall dstr ds -> sep_ok sep -> all_digits n = true ->
  ver_lt (tagged v ds sep t n) (untagged v' ds) = (rank t <? rank_final) /\
  ver_lt (untagged v' ds) (tagged v ds sep t n) = (rank_final <? rank t).
Proof.
  intros v v' ds sep t n Hne Hg Hs Hn. unfold ver_lt.
  rewrite (version_key_tagged v ds sep t n Hne Hg Hs Hn), (version_key_untagged v' ds Hne Hg).
  destruct t; cbn [tag_pver]; rewrite !cmpkey_eq, !key_lt_same_er; split; reflexivity.
Qed.
(* the same tag (or two spellings of it): the tag number decides *)
Theorem tag_num_order : forall v v' ds sep sep' t1 t2 n m, ds <> [] -> Forall dstr ds -> sep_ok sep -> sep_ok sep' ->
  all_digits n = true -> all_digits m = true -> rank t1 = rank t2 ->
  ver_lt (tagged v ds sep t1 n) (tagged v' ds sep' t2 m) = (undec n <? undec m).
Proof.
  intros v v' ds sep sep' t1 t2 n m Hne Hg Hs Hs' Hn Hm Hr. unfold ver_lt.
  rewrite (version_key_tagged v ds sep t1 n Hne Hg Hs Hn), (version_key_tagged v' ds sep' t2 m Hne Hg Hs' Hm).
  destruct t1, t2; try (exfalso; revert Hr; vm_compute; intros Q; discriminate Q);
    cbn [tag_pver]; rewrite !cmpkey_eq, !key_lt_same_er; unfold tag_of; rewrite ?cmp_ppd_tag;
    cbn [cmp_ppd cmp_local lexc]; change (cmp_str s_a s_a) with Eq; change (cmp_str s_b s_b) with Eq;
    change (cmp_str s_rc s_rc) with Eq; change (cmp_str s_post s_post) with Eq; change (cmp_str s_dev s_dev) with Eq;
    cbn [lexc]; unfold N.ltb; destruct (undec n ?= undec m); reflexivity.
Qed.

Lemma sep_dash : sep_ok [45].
Proof. unfold sep_ok. auto. Qed.

(* the release-tag order at string level, for the same release numbers:
   dev < alpha < beta < rc < final < post *)
Theorem tag_order_strings : forall ds, ds <> [] -> Forall dstr ds -> forall n1 n2 n3 n4 n5,
  all_digits n1 = true -> all_digits n2 = true -> all_digits n3 = true -> all_digits n4 = true -> all_digits n5 = true ->
  ver_lt (tagged false ds [45] Tdev n1) (tagged false ds [45] Talpha n2) = true /\
  ver_lt (tagged false ds [45] Talpha n2) (tagged false ds [45] Tbeta n3) = true /\
  ver_lt (tagged false ds [45] Tbeta n3) (tagged false ds [45] Trc n4) = true /\
  ver_lt (tagged false ds [45] Trc n4) (join [46] ds) = true /\
  ver_lt (join [46] ds) (tagged false ds [45] Tpost n5) = true.
Proof.
  intros ds Hne Hg n1 n2 n3 n4 n5 H1 H2 H3 H4 H5.
  split; [apply (tag_rank_lt false false ds [45] [45] Tdev Talpha n1 n2); auto using sep_dash; reflexivity|].
  split; [apply (tag_rank_lt false false ds [45] [45] Talpha Tbeta n2 n3); auto using sep_dash; reflexivity|].
  split; [apply (tag_rank_lt false false ds [45] [45] Tbeta Trc n3 n4); auto using sep_dash; reflexivity|].
  split.
  - exact (proj1 (tag_vs_final false false ds [45] Trc n4 Hne Hg sep_dash H4)).
  - exact (proj2 (tag_vs_final false false ds [45] Tpost n5 Hne Hg sep_dash H5)).
Qed.

(* hence the gate of bumpver (new version must be greater) rejects a tag downgrade without a numeric bump *)
Corollary tag_downgrade_not_greater : forall ds sep n m, ds <> [] -> Forall dstr ds -> (sep = [] \/ sep = [45]) ->
  all_digits n = true -> all_digits m = true ->
  ver_lt (tagged false ds sep Tbeta n) (tagged false ds sep Talpha m) = false /\
  ver_lt (tagged false ds sep Trc n) (tagged false ds sep Tdev m) = false.
Proof.
  intros ds sep n m Hne Hg Hs Hn Hm.
  assert (Hs' : sep_ok sep) by (unfold sep_ok; destruct Hs as [E|E]; auto).
  split.
  - exact (proj2 (tag_rank_lt false false ds sep sep Talpha Tbeta m n Hne Hg Hs' Hs' Hm Hn eq_refl)).
  - exact (proj2 (tag_rank_lt false false ds sep sep Tdev Trc m n Hne Hg Hs' Hs' Hm Hn eq_refl)).
Qed.
(* in general: going to a tag of lower rank is never an increase *)
Corollary tag_downgrade_general : forall v v' ds sep sep' t1 t2 n m, ds <> [] -> Forall dstr ds -> sep_ok sep -> sep_ok sep' ->
  all_digits n = true -> all_digits m = true -> rank t2 < rank t1 ->
  ver_lt (tagged v ds sep t1 n) (tagged v' ds sep' t2 m) = false.
Proof.
  intros v v' ds sep sep' t1 t2 n m Hne Hg Hs Hs' Hn Hm Hr.
  exact (proj2 (tag_rank_lt v' v ds sep' sep t2 t1 m n Hne Hg Hs' Hs Hm Hn Hr)).
Qed.

(* preview and rc are the same PEP 440 tag; so are alpha and a, beta and b *)
Corollary preview_is_rc : forall v ds sep num, ds <> [] -> Forall dstr ds -> sep_ok sep -> all_digits num = true ->
  version_key (tagged v ds sep Tpreview num) = version_key (tagged v ds sep Trc num).
Proof. intros v ds sep num Hne Hg Hs Hd. rewrite !version_key_tagged by assumption. reflexivity. Qed.
Corollary alpha_is_a : forall v ds sep num, ds <> [] -> Forall dstr ds -> sep_ok sep -> all_digits num = true ->
  version_key (tagged v ds sep Talpha num) = version_key (tagged v ds sep Ta num).
Proof. intros v ds sep num Hne Hg Hs Hd. rewrite !version_key_tagged by assumption. reflexivity. Qed.
Corollary beta_is_b : forall v ds sep num, ds <> [] -> Forall dstr ds -> sep_ok sep -> all_digits num = true ->
  version_key (tagged v ds sep Tbeta num) = version_key (tagged v ds sep Tb num).
Proof. intros v ds sep num Hne Hg Hs Hd. rewrite !version_key_tagged by assumption. reflexivity. Qed.
(* a missing tag number is the number 0, and neither v nor the separator matter *)
Corollary tag_number_default : forall v v' ds sep sep' t, ds <> [] -> Forall dstr ds -> sep_ok sep -> sep_ok sep' ->
  version_key (tagged v ds sep t []) = version_key (tagged v' ds sep' t [48]).
Proof. intros v v' ds sep sep' t Hne Hg Hs Hs'. rewrite !version_key_tagged by (try assumption; reflexivity). reflexivity. Qed.

Print Assumptions sev_sound.
Print Assumptions search_tagged.
Print Assumptions parse_tagged_sep.
Print Assumptions parse_tagged.
Print Assumptions is_pep440_tagged.
Print Assumptions to_pep440_tagged_sep.
Print Assumptions to_pep440_tagged.
Print Assumptions tag_rank_lt.
Print Assumptions tag_vs_final.
Print Assumptions tag_num_order.
Print Assumptions tag_order_strings.
Print Assumptions tag_downgrade_not_greater.
Print Assumptions tag_downgrade_general.
Print Assumptions preview_is_rc.
Print Assumptions alpha_is_a.
Print Assumptions beta_is_b.
Print Assumptions tag_number_default.
