(* C15, end to end, for the README-style SemVer pattern with a LONG release tag

       PV  =  vMAJOR.MINOR.PATCH[-TAGNUM]          (v1.2.3, v1.2.3-beta1, v1.2.3-rc0, v1.2.3-post2, v1.2.3-dev0)

   For ALL numbers a.b.c and every tag state (final, or one of alpha beta rc post dev preview followed by ANY
   number) the two texts that `bumpver update` writes for the placeholders {version} and {pep440_version}
   are computed in closed form, and they denote the same PEP 440 version.

   Chain:  convert_PV / norm_version / norm_pep440   (what the two placeholders are replaced by)
           vt_format_gen, pt_format_gen              (record -> the two texts)
           update_writes                             (the replacement texts of rewrite.v2_cpat)
           parse_vt                                  (PEP 440 reading of the {version} text)
           c15_same_version                          (is_pep440, same key, same normal form, ...)
           pt_read_back                              (the {pep440_version} text is accepted by the derived pattern)
           vt_parse_eq, c15_roundtrip                (text -> record -> both texts)
           c15_semver_update                         (all of it in one statement)

   The same for the default CalVer pattern  P2 = vYYYY0M.BUILD[-TAG]  (P2' = YYYY0M.BLD[PYTAGNUM]), for all years,
   months, build strings (leading zeros allowed) and tags: cvt_format_gen, cpt_format_gen, update_writes_calver,
   parse_cvt, parse_cpt, c15_calver, cpt_literal_iff, c15_calver_update.

   Three places where the two placeholders do NOT agree, or the written text is not read back, are proved as well:
   final_with_num_diverges (tag final with a non-zero NUM), calver_hidden_num_diverges (P2 has no NUM part but
   PYTAGNUM prints the NUM field), bld_zero_not_read_back (a build string of zeros is written as 0, which BLD rejects).
   Nothing here is computed on samples: all numbers are universally quantified. *)
From Coq Require Import List Bool NArith ZArith Arith Lia.
From BV Require Import Lib.PyStr Lib.Decimal Lib.Types Lib.Regex Lib.RegexParse Lib.Calendar Model.Lexid Gen.Tables
  Model.V2 Model.Pep440 Model.Rewrite Model.PatAst Model.CalKeys.
From BV Require Import Proofs.PatPartsBase Proofs.RegexFacts Proofs.DecimalFacts Proofs.Pep440Facts Proofs.DottedFacts
  Proofs.DottedJoinFacts Proofs.TaggedFacts Proofs.IncrFacts.
From BV Require Proofs.SemverTagE2E Proofs.CalverE2E.
Import ListNotations.
Local Open Scope N_scope.

Module ST := BV.Proofs.SemverTagE2E.
Module CV := BV.Proofs.CalverE2E.

(* vMAJOR.MINOR.PATCH[-TAGNUM] *)
Definition PV : list N := [118;77;65;74;79;82;46;77;73;78;79;82;46;80;65;84;67;72;91;45;84;65;71;78;85;77;93].
(* MAJOR.MINOR.PATCH[PYTAGNUM] : the pattern of Proofs/SemverTagE2E.v *)
Definition PP : list N := ST.P.

(* ------------------------------------------------------------------ (1) the two placeholders *)
Theorem convert_PV : convert_to_pep440 PV = PP.
Proof. vm_compute. reflexivity. Qed.
(* a file pattern that is exactly {version} / {pep440_version}, as config._compile_v2_file_patterns normalizes it *)
Theorem norm_version : normalize_pattern PV s_version_ph = PV.
Proof. vm_compute. reflexivity. Qed.
Theorem norm_pep440 : normalize_pattern PV s_pep440_ph = PP.
Proof. vm_compute. reflexivity. Qed.
Lemma norm_PP : normalize_pattern PP PP = PP.
Proof. vm_compute. reflexivity. Qed.
Lemma norm_PV : normalize_pattern PV PV = PV.
Proof. vm_compute. reflexivity. Qed.

(* ------------------------------------------------------------------ tags and the two texts *)
(* the texts the TAG part can show, final excepted *)
Inductive ltag := Lalpha | Lbeta | Lrc | Lpost | Ldev | Lpreview.
Definition ltxt (l : ltag) : list N :=
  match l with
  | Lalpha => s_alpha | Lbeta => s_beta | Lrc => s_rc | Lpost => s_post | Ldev => s_dev | Lpreview => s_preview
  end.
(* the PEP 440 spelling *)
Definition short (l : ltag) : ST.ptag :=
  match l with Lalpha => ST.Pa | Lbeta => ST.Pb | Lrc => ST.Prc | Lpost => ST.Ppost | Ldev => ST.Pdev | Lpreview => ST.Prc end.
Definition stxt (l : ltag) : list N := ST.ptext (short l).

(* short is what the generated table PEP440_TAG_BY_TAG says *)
Lemma short_table l : assoc (ltxt l) PEP440_TAG_BY_TAG = Some (stxt l).
Proof. destruct l; reflexivity. Qed.
Lemma final_table : assoc s_final PEP440_TAG_BY_TAG = Some [].
Proof. reflexivity. Qed.

(* tag state: None = final, Some (l, n) = TAG l followed by NUM n *)
Notation lstate := (option (ltag * N)) (only parsing).
Definition pstate (t : lstate) : option (ST.ptag * N) :=
  match t with Some (l, n) => Some (short l, n) | None => None end.
Definition lnum (t : lstate) : N := match t with Some (_, n) => n | None => 0 end.
Definition tagtext (t : lstate) : list N := match t with Some (l, _) => ltxt l | None => s_final end.
Definition pytext (t : lstate) : list N := match t with Some (l, _) => stxt l | None => [] end.

(* v1.2.3  or  v1.2.3-beta1 *)
Definition vt (a b c : N) (t : lstate) : list N :=
  [118] ++ dotted [a; b; c] ++ match t with Some (l, n) => [45] ++ ltxt l ++ dec n | None => [] end.
(* 1.2.3  or  1.2.3b1 *)
Definition pt (a b c : N) (t : lstate) : list N :=
  dotted [a; b; c] ++ match t with Some (l, n) => stxt l ++ dec n | None => [] end.

Lemma pt_svt a b c t : pt a b c t = ST.svt a b c (pstate t).
Proof. destruct t as [[l n]|]; reflexivity. Qed.

(* the tag fields of a record that is in tag state t *)
Definition state_of (v : vinfo) (t : lstate) : Prop :=
  v_tag v = tagtext t /\ v_pytag v = pytext t /\ v_num v = Z.of_N (lnum t).

(* the pytag field need not be given: it is what the table says *)
Lemma state_of_table v t :
  v_tag v = tagtext t -> assoc (v_tag v) PEP440_TAG_BY_TAG = Some (v_pytag v) -> v_num v = Z.of_N (lnum t) ->
  state_of v t.
Proof.
  intros Ht Hp Hn. split; [exact Ht|]. split; [|exact Hn].
  rewrite Ht in Hp. destruct t as [[l n]|]; cbn [tagtext pytext] in *.
  - rewrite short_table in Hp. injection Hp as Hp. symmetry. exact Hp.
  - rewrite final_table in Hp. injection Hp as Hp. symmetry. exact Hp.
Qed.

Lemma state_tag_ok v t : state_of v t -> ST.tag_ok v (pstate t).
Proof.
  intros (Ht & Hp & Hn). destruct t as [[l n]|]; cbn [pstate ST.tag_ok tagtext pytext lnum] in *.
  - split; assumption.
  - split; [exact Hp|]. split; [exact Ht|exact Hn].
Qed.

(* ------------------------------------------------------------------ (2) format under PV *)
Definition segA : list N := [118;77;65;74;79;82;46;77;73;78;79;82;46;80;65;84;67;72].     (* vMAJOR.MINOR.PATCH *)
Definition segB : list N := [45;84;65;71;78;85;77].                                       (* -TAGNUM *)

Lemma segtree_PV : parse_segtree PV = Some [SStr segA; STree [SStr segB]].
Proof. vm_compute. reflexivity. Qed.

Lemma pvg_used : forall F v,
  match ST.pvg F v PATTERN_PART_FIELDS with
  | Some l =>
      filter (fun '(p, _) => str_in p segA) (sort_by_len_desc (fun x => length (fst x)) l)
      = [(ST.s_MAJ, F FmtStr (FInt (v_major v))); (ST.s_MIN, F FmtStr (FInt (v_minor v)));
         (ST.s_PAT, F FmtStr (FInt (v_patch v)))]
      /\ filter (fun '(p, _) => str_in p segB) (sort_by_len_desc (fun x => length (fst x)) l)
      = [(s_TAG, F FmtStr (FStr (v_tag v))); (s_NUM, F FmtStr (FInt (v_num v)))]
  | None => False
  end.
Proof.
  intros F [a b c d e g h i j ma mi pa bid tag pytag gh hh num i0 i1].
  destruct a, b, c, d, e, g, h, i, j; vm_compute; split; reflexivity.
Qed.

Lemma fpv_used : forall v, exists pv, format_part_values v = Some pv
  /\ filter (fun '(p, _) => str_in p segA) pv
     = [(ST.s_MAJ, zdec (v_major v)); (ST.s_MIN, zdec (v_minor v)); (ST.s_PAT, zdec (v_patch v))]
  /\ filter (fun '(p, _) => str_in p segB) pv
     = [(s_TAG, v_tag v); (s_NUM, zdec (v_num v))].
Proof.
  intros v. pose proof (pvg_used apply_fmt v) as H.
  destruct (ST.pvg apply_fmt v PATTERN_PART_FIELDS) as [l|] eqn:H1; [|contradiction].
  destruct H as [H2 H3].
  exists (sort_by_len_desc (fun x => length (fst x)) l). split; [|split].
  - unfold format_part_values. rewrite ST.pvg_eq, H1. reflexivity.
  - rewrite H2. reflexivity.
  - rewrite H3. reflexivity.
Qed.

Lemma r3_segA : sreplace [92; 93] [93] (sreplace [92; 91] [91] (sreplace [36] [] (sreplace [94] [] segA))) = segA.
Proof. vm_compute. reflexivity. Qed.
Lemma r3_segB : sreplace [92; 93] [93] (sreplace [92; 91] [91] (sreplace [36] [] (sreplace [94] [] segB))) = segB.
Proof. vm_compute. reflexivity. Qed.

Lemma subst3v a b c :
  sreplace ST.s_PAT (dec c) (sreplace ST.s_MIN (dec b) (sreplace ST.s_MAJ (dec a) segA)) = 118 :: dotted [a; b; c].
Proof.
  assert (E1 : sreplace ST.s_MAJ (dec a) segA = 118 :: dec a ++ 46 :: ST.s_MIN ++ 46 :: ST.s_PAT) by reflexivity.
  rewrite E1. clear E1.
  assert (E2 : sreplace ST.s_MIN (dec b) (118 :: dec a ++ 46 :: ST.s_MIN ++ 46 :: ST.s_PAT)
               = 118 :: dec a ++ 46 :: dec b ++ 46 :: ST.s_PAT).
  { unfold sreplace, ST.s_MIN. cbn [replace_go prefixb N.eqb Pos.eqb andb].
    rewrite ST.replace_go_dec by lia. reflexivity. }
  rewrite E2. clear E2.
  unfold sreplace, ST.s_PAT. cbn [replace_go prefixb N.eqb Pos.eqb andb]. rewrite ST.replace_go_dec by lia.
  cbn [replace_go prefixb N.eqb Pos.eqb andb]. rewrite ST.replace_go_dec by lia.
  rewrite ST.dotted3. cbn [replace_go prefixb N.eqb Pos.eqb andb length Nat.sub]. rewrite app_nil_r. reflexivity.
Qed.

(* the text of the group: TAG, then NUM (no tag text contains the letters NUM) *)
Lemma subst_groupB l n : sreplace s_NUM (dec n) (sreplace s_TAG (ltxt l) segB) = [45] ++ ltxt l ++ dec n.
Proof. destruct l; cbn; rewrite app_nil_r; reflexivity. Qed.
Lemma subst_groupB_final n : sreplace s_NUM (dec n) (sreplace s_TAG s_final segB) = [45] ++ s_final ++ dec n.
Proof. cbn. rewrite app_nil_r. reflexivity. Qed.
Lemma ltxt_not_zero l : is_zero_val s_TAG (ltxt l) = false.
Proof. destruct l; reflexivity. Qed.

(* ================================================================== the default CalVer pattern
       P2  =  vYYYY0M.BUILD[-TAG]       (v202401.1001, v202401.1001-beta; the tag has NO number)
       P2' =  YYYY0M.BLD[PYTAGNUM]      (202401.1001,  202401.1001b0)
   BUILD is a digit string that may have leading zeros; BLD prints it as a number. *)
Definition P2 : list N := CV.P.
Definition P2' : list N := [89;89;89;89;48;77;46;66;76;68;91;80;89;84;65;71;78;85;77;93].

Theorem convert_P2 : convert_to_pep440 P2 = P2'.
Proof. vm_compute. reflexivity. Qed.
Theorem norm2_version : normalize_pattern P2 s_version_ph = P2.
Proof. vm_compute. reflexivity. Qed.
Theorem norm2_pep440 : normalize_pattern P2 s_pep440_ph = P2'.
Proof. vm_compute. reflexivity. Qed.

(* {version}: the tag is shown without its number *)
Definition cvt (y m : N) (bid : list N) (t : lstate) : list N :=
  CV.cv y m bid ++ match t with Some (l, _) => [45] ++ ltxt l | None => [] end.
(* {pep440_version}: PYTAGNUM shows the short tag AND the NUM field of the record *)
Definition cpt (y m : N) (bid : list N) (t : lstate) : list N :=
  dec y ++ pad 2 m ++ [46] ++ dec (undec bid) ++ match t with Some (l, n) => stxt l ++ dec n | None => [] end.

(* ------------------------------------------------------------------ format under P2 *)
Lemma r3_seg2_cv : sreplace [92; 93] [93] (sreplace [92; 91] [91] (sreplace [36] [] (sreplace [94] [] CV.seg2))) = CV.seg2.
Proof. vm_compute. reflexivity. Qed.
Lemma subst_group_cv l : sreplace P_TAG (ltxt l) CV.seg2 = [45] ++ ltxt l.
Proof. destruct l; reflexivity. Qed.


(* ------------------------------------------------------------------ format under P2' *)
Definition segC : list N := [89;89;89;89;48;77;46;66;76;68].     (* YYYY0M.BLD *)
Lemma segtree_P2' : parse_segtree P2' = Some [SStr segC; STree [SStr ST.seg2]].
Proof. vm_compute. reflexivity. Qed.

Lemma pvg_used2 : forall F b c e g h i j y m ma mi pa bid tag pytag gh hh num i0 i1,
  match ST.pvg F (mkv (Some y) b c (Some m) e g h i j ma mi pa bid tag pytag gh hh num i0 i1) PATTERN_PART_FIELDS with
  | Some l =>
      filter (fun '(p, _) => str_in p segC) (sort_by_len_desc (fun x => length (fst x)) l)
      = [(P_YYYY, F FmtStr (FInt y)); (P_BLD, F FmtInt (FStr bid)); (P_YY, F FmtLast2 (FInt y));
         (P_0M, F (FmtPad 2) (FInt m))]
      /\ filter (fun '(p, _) => str_in p ST.seg2) (sort_by_len_desc (fun x => length (fst x)) l)
      = [(s_PYTAG, F FmtStr (FStr pytag)); (s_TAG, F FmtStr (FStr tag)); (s_NUM, F FmtStr (FInt num))]
  | None => False
  end.
Proof.
  intros F b c e g h i j. intros.
  destruct b, c, e, g, h, i, j; vm_compute; split; reflexivity.
Qed.

Lemma fpv_used2 : forall v y m, v_year_y v = Some y -> v_month v = Some m ->
  exists pv, format_part_values v = Some pv
  /\ filter (fun '(p, _) => str_in p segC) pv
     = [(P_YYYY, zdec y); (P_BLD, dec (undec (v_bid v))); (P_YY, CV.yy_text y); (P_0M, pad 2 (Z.to_N m))]
  /\ filter (fun '(p, _) => str_in p ST.seg2) pv
     = [(s_PYTAG, v_pytag v); (s_TAG, v_tag v); (s_NUM, zdec (v_num v))].
Proof.
  intros v y m Hy Hm.
  destruct v as [a b c d e g h i j ma mi pa bid tag pytag gh hh num i0 i1].
  cbn [v_year_y v_month v_bid v_tag v_pytag v_num] in *. subst a d.
  pose proof (pvg_used2 apply_fmt b c e g h i j y m ma mi pa bid tag pytag gh hh num i0 i1) as H.
  destruct (ST.pvg apply_fmt _ PATTERN_PART_FIELDS) as [l|] eqn:H1; [|contradiction].
  destruct H as [H2 H3].
  exists (sort_by_len_desc (fun x => length (fst x)) l). split; [|split].
  - unfold format_part_values. rewrite ST.pvg_eq, H1. reflexivity.
  - rewrite H2. reflexivity.
  - rewrite H3. reflexivity.
Qed.

Lemma r3_segC : sreplace [92; 93] [93] (sreplace [92; 91] [91] (sreplace [36] [] (sreplace [94] [] segC))) = segC.
Proof. vm_compute. reflexivity. Qed.

Lemma subst_C y m bl yy : all_digits bl = true ->
  sreplace P_0M (pad 2 m) (sreplace P_YY yy (sreplace P_BLD bl (sreplace P_YYYY (dec y) segC)))
  = dec y ++ pad 2 m ++ [46] ++ bl.
Proof.
  intros Hb.
  assert (E1 : sreplace P_YYYY (dec y) segC = dec y ++ [48;77;46;66;76;68]) by reflexivity.
  rewrite E1. clear E1.
  assert (E2 : sreplace P_BLD bl (dec y ++ [48;77;46;66;76;68]) = dec y ++ [48;77;46] ++ bl).
  { unfold sreplace, P_BLD. rewrite (CV.replace_go_digits 66 [76;68] bl (dec y)) by (try apply dec_all_digits; lia).
    cbn [app replace_go prefixb N.eqb Pos.eqb andb length Nat.sub]. rewrite app_nil_r. reflexivity. }
  rewrite E2. clear E2.
  assert (E3 : sreplace P_YY yy (dec y ++ [48;77;46] ++ bl) = dec y ++ [48;77;46] ++ bl).
  { unfold sreplace, P_YY. rewrite (CV.replace_go_digits 89 [89] yy (dec y)) by (try apply dec_all_digits; lia).
    cbn [app replace_go prefixb N.eqb Pos.eqb andb].
    rewrite (CV.replace_go_digits_end 89 [89] yy bl Hb) by lia. reflexivity. }
  rewrite E3. clear E3.
  unfold sreplace, P_0M.
  rewrite (CV.replace_go_0M (pad 2 m) (dec y)); [|apply dec_all_digits|cbn [app]; intros Q; discriminate Q].
  cbn [app replace_go prefixb N.eqb Pos.eqb andb length Nat.sub].
  rewrite (CV.replace_go_0M_end (pad 2 m) bl Hb). reflexivity.
Qed.


Local Opaque format_part_values parse_segtree.

(* the optional group is left out exactly when TAG shows final AND NUM shows 0 *)
Lemma format_shape_PV v :
  format_version v PV =
    Some (118 :: dotted [Z.to_N (v_major v); Z.to_N (v_minor v); Z.to_N (v_patch v)]
          ++ (if forallb (fun '(p, x) => is_zero_val p x) [(s_TAG, v_tag v); (s_NUM, zdec (v_num v))]
              then []
              else sreplace s_NUM (zdec (v_num v)) (sreplace s_TAG (v_tag v) segB))).
Proof.
  destruct (fpv_used v) as (pv & H1 & H2 & H3).
  unfold format_version. rewrite H1, segtree_PV. cbn [map concat].
  rewrite ST.fmt_opt_one by (rewrite H3; intros Q; discriminate Q).
  cbn [fmt_seg]. rewrite !ST.format_segment_res, H2, H3, r3_segA, r3_segB. unfold zdec at 1 2 3. cbn [fold_left].
  rewrite subst3v, app_nil_r. reflexivity.
Qed.

(* (2a) what {version} is replaced by *)
Theorem vt_format_gen : forall v t, state_of v t ->
  format_version v PV = Some (vt (Z.to_N (v_major v)) (Z.to_N (v_minor v)) (Z.to_N (v_patch v)) t).
Proof.
  intros v t (Ht & _ & Hn). rewrite format_shape_PV, Ht, Hn. unfold vt, zdec. rewrite N2Z.id.
  destruct t as [[l n]|]; cbn [tagtext lnum forallb].
  - rewrite ltxt_not_zero. cbn [andb]. rewrite subst_groupB. reflexivity.
  - reflexivity.
Qed.

(* (2b) what {pep440_version} is replaced by *)
Theorem pt_format_gen : forall v t, state_of v t ->
  format_version v PP = Some (pt (Z.to_N (v_major v)) (Z.to_N (v_minor v)) (Z.to_N (v_patch v)) t).
Proof. intros v t H. rewrite pt_svt. exact (ST.svt_format_gen v (pstate t) (state_tag_ok v t H)). Qed.

(* NUM 0 IS printed after a tag: v1.2.3-rc0 and 1.2.3rc0 *)
Example num_zero_is_printed : forall v, state_of v (Some (Lrc, 0)) ->
  format_version v PV = Some ([118] ++ dotted [Z.to_N (v_major v); Z.to_N (v_minor v); Z.to_N (v_patch v)] ++ [45;114;99;48])
  /\ format_version v PP = Some (dotted [Z.to_N (v_major v); Z.to_N (v_minor v); Z.to_N (v_patch v)] ++ [114;99;48]).
Proof. intros v H. rewrite (vt_format_gen v _ H), (pt_format_gen v _ H). split; reflexivity. Qed.

(* A record whose tag is final but whose number is NOT 0 (state_of excludes it, and Proofs/SemverTagE2E.v
   svt_incr shows that no flag combination produces it): neither group is left out, {version} shows
   -final<n>, which is not a PEP 440 version, and {pep440_version} glues the number to the patch number.
   The two placeholders then do NOT denote the same version. *)
Theorem final_with_num_diverges : forall v n, v_tag v = s_final -> v_pytag v = [] -> v_num v = Z.of_N n -> n <> 0 ->
  format_version v PV
  = Some ([118] ++ dotted [Z.to_N (v_major v); Z.to_N (v_minor v); Z.to_N (v_patch v)] ++ [45] ++ s_final ++ dec n)
  /\ format_version v PP
  = Some (dotted [Z.to_N (v_major v); Z.to_N (v_minor v); Z.to_N (v_patch v)] ++ dec n).
Proof.
  intros v n Ht Hp Hn Hne. split.
  - rewrite format_shape_PV, Ht, Hn. unfold zdec. rewrite N2Z.id.
    assert (Z0 : is_zero_val s_NUM (dec n) = false).
    { change (is_zero_val s_NUM (dec n)) with (eqb_str (dec n) [48]).
      destruct (eqb_str (dec n) [48]) eqn:Q; [|reflexivity]. apply eqb_str_eq in Q.
      exfalso. apply Hne. rewrite <- (undec_dec n), Q. reflexivity. }
    cbn [forallb]. rewrite Z0, !andb_false_r, subst_groupB_final. reflexivity.
  - exact (ST.svt_format_final_with_num v n Hp Hn Hne).
Qed.

(* ------------------------------------------------------------------ format under P2 and P2' *)
Theorem cvt_format_gen : forall v y m t,
  v_year_y v = Some y -> v_month v = Some m -> v_tag v = tagtext t -> all_digits (v_bid v) = true ->
  format_version v P2 = Some (cvt (Z.to_N y) (Z.to_N m) (v_bid v) t).
Proof.
  intros v y m t Hy Hm Ht Hb. destruct (CV.fpv_used v y m Hy Hm) as (pv & H1 & H2 & H3).
  unfold format_version, P2. rewrite H1, CV.segtree_P. cbn [map concat].
  rewrite ST.fmt_opt_one by (rewrite H3; intros Q; discriminate Q).
  cbn [fmt_seg]. rewrite !ST.format_segment_res, H2, H3, CV.r3_seg1, r3_seg2_cv. cbn [fold_left]. unfold zdec.
  rewrite CV.subst_calver by exact Hb. rewrite Ht, app_nil_r. unfold cvt.
  destruct t as [[l n]|]; cbn [tagtext forallb].
  - change (is_zero_val P_TAG (ltxt l)) with (is_zero_val s_TAG (ltxt l)). rewrite ltxt_not_zero. cbn [andb].
    rewrite subst_group_cv. reflexivity.
  - reflexivity.
Qed.

Theorem cpt_format_gen : forall v y m t,
  v_year_y v = Some y -> v_month v = Some m -> state_of v t ->
  format_version v P2' = Some (cpt (Z.to_N y) (Z.to_N m) (v_bid v) t).
Proof.
  intros v y m t Hy Hm (Ht & Hp & Hn). destruct (fpv_used2 v y m Hy Hm) as (pv & H1 & H2 & H3).
  unfold format_version. rewrite H1, segtree_P2'. cbn [map concat].
  rewrite ST.fmt_opt_one by (rewrite H3; intros Q; discriminate Q).
  cbn [fmt_seg]. rewrite !ST.format_segment_res, H2, H3, r3_segC, ST.r3_seg2. cbn [fold_left]. unfold zdec.
  rewrite subst_C by apply dec_all_digits. rewrite Ht, Hp, Hn, N2Z.id, app_nil_r. unfold cpt.
  destruct t as [[l n]|]; cbn [tagtext pytext lnum forallb].
  - unfold stxt. rewrite ST.ptext_not_zero. cbn [andb]. rewrite ST.subst_group, <- !app_assoc. reflexivity.
  - cbn. rewrite <- !app_assoc. reflexivity.
Qed.


(* ------------------------------------------------------------------ what update writes *)
Lemma compile_PP : compile_pattern_re PP = Some ST.R_svt.
Proof. vm_compute. reflexivity. Qed.

(* -(preview|final|dev|alpha|beta|post|rc)<num> *)
Definition R_tag : re :=
  Alt (lit s_preview) (Alt (lit s_final) (Alt (lit s_dev) (Alt (lit s_alpha) (Alt (lit s_beta) (Alt (lit s_post) (lit s_rc)))))).
Definition R_optB : re := Cat (chr_re 45) (Cat (Grp n_tag R_tag) (Cat (Grp n_num D1) Eps)).
Definition R_PV : re :=
  Cat (chr_re 118) (Cat (Grp n_major D1) (Cat (chr_re 46) (Cat (Grp n_minor D1) (Cat (chr_re 46) (Cat (Grp n_patch D1)
    (Cat (Alt R_optB Eps) Eps)))))).
Lemma compile_PV : compile_pattern_re PV = Some R_PV.
Proof. vm_compute. reflexivity. Qed.

Lemma compile_P2 : compile_pattern_re P2 = Some CV.R_calver.
Proof. vm_compute. reflexivity. Qed.
Lemma compile_P2' : exists r, compile_pattern_re P2' = Some r.
Proof. eexists. vm_compute. reflexivity. Qed.

Local Opaque format_version compile_pattern_re normalize_pattern.

(* rewrite.v2_cpat is the model of config._compile_v2_file_patterns + the replacement text of
   v2rewrite.rewrite_lines: for a file pattern that is exactly one of the two placeholders, the text written
   into the file *)
Theorem update_writes : forall v t, state_of v t ->
  option_map cp_repl (v2_cpat PV s_version_ph v)
    = Some (vt (Z.to_N (v_major v)) (Z.to_N (v_minor v)) (Z.to_N (v_patch v)) t)
  /\ option_map cp_repl (v2_cpat PV s_pep440_ph v)
    = Some (pt (Z.to_N (v_major v)) (Z.to_N (v_minor v)) (Z.to_N (v_patch v)) t).
Proof.
  intros v t H. unfold v2_cpat. cbv zeta.
  rewrite norm_version, norm_pep440, compile_PV, compile_PP, (vt_format_gen v t H), (pt_format_gen v t H).
  split; reflexivity.
Qed.

Theorem update_writes_calver : forall v y m t,
  v_year_y v = Some y -> v_month v = Some m -> state_of v t -> all_digits (v_bid v) = true ->
  option_map cp_repl (v2_cpat P2 s_version_ph v) = Some (cvt (Z.to_N y) (Z.to_N m) (v_bid v) t)
  /\ option_map cp_repl (v2_cpat P2 s_pep440_ph v) = Some (cpt (Z.to_N y) (Z.to_N m) (v_bid v) t).
Proof.
  intros v y m t Hy Hm H Hb. unfold v2_cpat. cbv zeta. destruct compile_P2' as [r Hr].
  rewrite norm2_version, norm2_pep440, compile_P2, Hr, (cvt_format_gen v y m t Hy Hm (proj1 H) Hb),
    (cpt_format_gen v y m t Hy Hm H).
  split; reflexivity.
Qed.

(* ------------------------------------------------------------------ (3) PEP 440 reading of the two texts *)
Local Opaque parse_pep440.

Definition lb (l : ltag) : TaggedFacts.btag :=
  match l with
  | Lalpha => Talpha | Lbeta => Tbeta | Lrc => Trc | Lpost => Tpost | Ldev => Tdev | Lpreview => Tpreview
  end.
Lemma vt_tagged a b c l n : vt a b c (Some (l, n)) = tagged true [dec a; dec b; dec c] [45] (lb l) (dec n).
Proof. destruct l; reflexivity. Qed.
Lemma vt_final a b c : vt a b c None = 118 :: dj [dec a; dec b; dec c].
Proof. unfold vt. rewrite app_nil_r. reflexivity. Qed.

(* the parsed version: release a.b.c and, for a tag, its PEP 440 letter with the number *)
Theorem parse_vt : forall a b c t, parse_pep440 (vt a b c t) = Some (ST.pv_of a b c (pstate t)).
Proof.
  intros a b c [[l n]|].
  - rewrite vt_tagged.
    rewrite (parse_tagged_sep true [dec a; dec b; dec c] [45] (lb l) (dec n) (ST.ne3 _ _ _) (ST.good3 a b c) sep_dash
               (dec_all_digits n)).
    cbn [map]. rewrite !undec_dec. destruct l; reflexivity.
  - rewrite vt_final, (parse_vdj [dec a; dec b; dec c] (ST.good3 a b c) (ST.ne3 _ _ _)).
    cbn [map]. rewrite !undec_dec. reflexivity.
Qed.
Theorem parse_pt : forall a b c t, parse_pep440 (pt a b c t) = Some (ST.pv_of a b c (pstate t)).
Proof. intros. rewrite pt_svt. apply ST.parse_svt. Qed.

(* Version.__str__ of that version: post and dev get a dot *)
Definition nsuffix (t : lstate) : list N :=
  match t with
  | None => []
  | Some (Lpost, n) => [46] ++ s_post ++ dec n
  | Some (Ldev, n) => [46] ++ s_dev ++ dec n
  | Some (l, n) => stxt l ++ dec n
  end.
Definition nf (a b c : N) (t : lstate) : list N := dotted [a; b; c] ++ nsuffix t.
Lemma nsuffix_pep t : ST.pep_suffix (pstate t) = nsuffix t.
Proof. destruct t as [[[] n]|]; reflexivity. Qed.

Theorem to_pep440_pt : forall a b c t, to_pep440 (pt a b c t) = nf a b c t.
Proof. intros. rewrite pt_svt, ST.to_pep440_svt, nsuffix_pep. reflexivity. Qed.
Theorem to_pep440_vt : forall a b c t, to_pep440 (vt a b c t) = nf a b c t.
Proof.
  intros. rewrite <- to_pep440_pt. unfold to_pep440. rewrite parse_vt, parse_pt. reflexivity.
Qed.

(* the normal form is a fixed point of to_pep440 *)
Lemma sep_dot : sep_ok [46].
Proof. unfold sep_ok. auto. Qed.
Definition cb (l : ltag) : TaggedFacts.btag :=
  match l with Lalpha => Ta | Lbeta => Tb | Lrc | Lpreview => Trc | Lpost => Tpost | Ldev => Tdev end.
Definition nsep (l : ltag) : list N := match l with Lpost | Ldev => [46] | _ => [] end.
Lemma nf_tagged a b c l n : nf a b c (Some (l, n)) = tagged false [dec a; dec b; dec c] (nsep l) (cb l) (dec n).
Proof. destruct l; reflexivity. Qed.
Lemma nsep_ok l : sep_ok (nsep l).
Proof. destruct l; first [apply sep_dot | apply ST.sep_nil]. Qed.
Theorem nf_fixed : forall a b c t, to_pep440 (nf a b c t) = nf a b c t.
Proof.
  intros a b c [[l n]|].
  - rewrite nf_tagged at 1.
    rewrite (to_pep440_tagged_sep false [dec a; dec b; dec c] (nsep l) (cb l) (dec n) (ST.ne3 _ _ _) (ST.good3 a b c)
               (nsep_ok l) (dec_all_digits n)).
    cbn [map]. rewrite !undec_dec. destruct l; reflexivity.
  - unfold nf, nsuffix. rewrite app_nil_r. unfold to_pep440. rewrite (parse_dotted [a; b; c] (ST.ne3 _ _ _)).
    unfold pver_str. cbn [pv_epoch pv_release pv_pre pv_post pv_dev pv_local N.eqb app]. rewrite !app_nil_r. reflexivity.
Qed.

(* when the text written for {pep440_version} IS the normal form, letter for letter *)
Definition dotless (t : lstate) : bool := match t with Some (Lpost, _) | Some (Ldev, _) => false | _ => true end.

Theorem pt_literal_iff : forall a b c t, pt a b c t = to_pep440 (vt a b c t) <-> dotless t = true.
Proof.
  intros a b c t. rewrite to_pep440_vt. unfold pt, nf.
  destruct t as [[[] n]|]; cbn [dotless nsuffix]; split; intros H; try reflexivity; try discriminate H;
    apply app_inv_head in H; discriminate H.
Qed.
(* for post and dev the normal form is the written text with a dot before the tag *)
Theorem pt_post_dev : forall a b c n,
  pt a b c (Some (Lpost, n)) = dotted [a; b; c] ++ s_post ++ dec n
  /\ to_pep440 (vt a b c (Some (Lpost, n))) = dotted [a; b; c] ++ [46] ++ s_post ++ dec n
  /\ pt a b c (Some (Ldev, n)) = dotted [a; b; c] ++ s_dev ++ dec n
  /\ to_pep440 (vt a b c (Some (Ldev, n))) = dotted [a; b; c] ++ [46] ++ s_dev ++ dec n.
Proof. intros. rewrite !to_pep440_vt. repeat split; reflexivity. Qed.

(* the shape of the written text: no v, the numbers without leading zeros, the short tag, its number *)
Lemma dec_no_leading_zero n : dec n = [48] \/ hd 0 (dec n) <> 48.
Proof. destruct (N.eq_dec n 0) as [->|H]; [left; reflexivity|right; apply dec_hd_nonzero; exact H]. Qed.
Theorem pt_shape : forall a b c t,
  pt a b c t = dec a ++ [46] ++ dec b ++ [46] ++ dec c ++ pytext t ++ (match t with Some (_, n) => dec n | None => [] end)
  /\ (exists d tl, pt a b c t = d :: tl /\ is_digit d = true)
  /\ (forall x, In x [a; b; c; lnum t] -> dec x = [48] \/ hd 0 (dec x) <> 48)
  /\ assoc (tagtext t) PEP440_TAG_BY_TAG = Some (pytext t).
Proof.
  intros a b c t. split; [|split; [|split]].
  - unfold pt. rewrite ST.dotted3. destruct t as [[l n]|]; cbn [pytext]; rewrite <- ?app_assoc; cbn [app];
      rewrite <- ?app_assoc; reflexivity.
  - unfold pt. destruct (dotted_head a [b; c]) as (d & tl & E & Hd). rewrite E. exists d. eexists. split; [reflexivity|exact Hd].
  - intros x _. apply dec_no_leading_zero.
  - destruct t as [[l n]|]; [apply short_table|apply final_table].
Qed.

(* the C15 statement *)
Theorem c15_same_version : forall a b c t,
  is_pep440 (vt a b c t) = true
  /\ is_pep440 (pt a b c t) = true
  /\ parse_pep440 (pt a b c t) = parse_pep440 (vt a b c t)
  /\ version_key (pt a b c t) = version_key (vt a b c t)
  /\ to_pep440 (vt a b c t) = to_pep440 (pt a b c t)
  /\ ver_lt (pt a b c t) (vt a b c t) = false /\ ver_lt (vt a b c t) (pt a b c t) = false
  /\ ver_le (pt a b c t) (vt a b c t) = true /\ ver_le (vt a b c t) (pt a b c t) = true.
Proof.
  intros a b c t.
  assert (K : version_key (pt a b c t) = version_key (vt a b c t)).
  { unfold version_key. rewrite parse_vt, parse_pt. reflexivity. }
  split; [unfold is_pep440; rewrite parse_vt; reflexivity|].
  split; [unfold is_pep440; rewrite parse_pt; reflexivity|].
  split; [rewrite parse_vt, parse_pt; reflexivity|].
  split; [exact K|].
  split; [rewrite to_pep440_vt, to_pep440_pt; reflexivity|].
  unfold ver_lt, ver_le, key_lt, key_le. rewrite K, cmp_key_refl. repeat split; reflexivity.
Qed.

(* ------------------------------------------------------------------ (4) read back *)
Local Opaque parse_version_info.

(* the tag name the record gets when it is read back from the short spelling (table TAG_BY_PEP440_TAG):
   preview cannot come back, rc does *)
Definition back_tag (t : lstate) : list N := match t with Some (Lpreview, _) => s_rc | _ => tagtext t end.
Lemma back_table t : assoc (pytext t) TAG_BY_PEP440_TAG = Some (back_tag t).
Proof. destruct t as [[[] n]|]; reflexivity. Qed.

Lemma parse_PP_eq today s : parse_version_info today s PP = parse_version_info today s ST.P.
Proof. reflexivity. Qed.

(* the text written for {pep440_version} is accepted by the derived pattern, and gives the numbers back *)
Theorem pt_read_back : forall today a b c t, exists v,
  parse_version_info today (pt a b c t) (convert_to_pep440 PV) = POk v
  /\ v = ST.svt_vinfo today (Z.of_N a) (Z.of_N b) (Z.of_N c) (pstate t)
  /\ v_major v = Z.of_N a /\ v_minor v = Z.of_N b /\ v_patch v = Z.of_N c
  /\ v_pytag v = pytext t /\ v_num v = Z.of_N (lnum t) /\ v_tag v = back_tag t
  /\ format_version v (convert_to_pep440 PV) = Some (pt a b c t).
Proof.
  intros today a b c t. rewrite convert_PV. eexists. split; [rewrite pt_svt; apply ST.svt_parse_eq|].
  split; [reflexivity|].
  split; [reflexivity|]. split; [reflexivity|]. split; [reflexivity|].
  split; [destruct t as [[[] n]|]; reflexivity|].
  split; [destruct t as [[[] n]|]; reflexivity|].
  split; [destruct t as [[[] n]|]; reflexivity|].
  rewrite pt_svt. apply ST.svt_format.
Qed.

(* ------------------------------------------------------------------ the {version} text read by PV *)
Definition vsuffix (t : lstate) : list N := match t with Some (l, n) => [45] ++ ltxt l ++ dec n | None => [] end.
Lemma vt_eq a b c t : vt a b c t = 118 :: (dotted [a; b; c] ++ vsuffix t).
Proof. reflexivity. Qed.

Lemma first_chr c f n0 t : first_match f n0 (chr_re c) (c :: t) = Some ([], t).
Proof. unfold first_match, chr_re. rewrite rems_cls, cls_single. reflexivity. Qed.

(* the TAG alternation on a tag text followed by anything: exactly one way to match *)
Lemma sev_tag l : sev R_tag (ltxt l) = Some [([], [])].
Proof. destruct l; vm_compute; reflexivity. Qed.
Lemma first_tag l rest f n0 :
  first_match f n0 (Grp n_tag R_tag) (ltxt l ++ rest) = Some ([(n_tag, ltxt l)], rest).
Proof.
  rewrite <- (take_consumed_app (ltxt l) rest) at 2. apply first_grp.
  unfold first_match. rewrite (sev_sound R_tag (ltxt l) _ (sev_tag l) f n0 rest). reflexivity.
Qed.

Definition tenvB (t : lstate) : env :=
  match t with Some (l, n) => [(n_tag, ltxt l); (n_num, dec n)] | None => [] end.

Lemma first_optB t f n0 : (length (dec (lnum t)) <= f)%nat ->
  first_match f n0 (Alt R_optB Eps) (vsuffix t) = Some (tenvB t, []).
Proof.
  intros Hf. destruct t as [[l n]|]; cbn [vsuffix tenvB lnum] in *.
  - apply first_alt_l. unfold R_optB. cbn [app].
    change [(n_tag, ltxt l); (n_num, dec n)] with (([] : env) ++ ([(n_tag, ltxt l)] ++ ([(n_num, dec n)] ++ []))).
    eapply first_cat; [apply first_chr|].
    eapply first_cat; [apply first_tag|].
    eapply first_cat; [|apply first_eps].
    rewrite <- (app_nil_r (dec n)) at 1. apply ST.first_grpD1; [reflexivity|exact Hf].
  - rewrite first_alt_r; [apply first_eps|].
    rewrite rems_nil_fuel. vm_compute. reflexivity.
Qed.

Lemma match_PV a b c t :
  re_match R_PV (vt a b c t)
  = Some ([(n_major, dec a); (n_minor, dec b); (n_patch, dec c)] ++ tenvB t, []).
Proof.
  unfold re_match. rewrite vt_eq, ST.dotted3.
  set (s := 118 :: (dec a ++ 46 :: dec b ++ 46 :: dec c) ++ vsuffix t).
  assert (Hf : (length (dec a) <= S (length s) /\ length (dec b) <= S (length s) /\ length (dec c) <= S (length s)
                /\ length (dec (lnum t)) <= S (length s))%nat).
  { unfold s. cbn [length]. rewrite !app_length. cbn [length]. rewrite !app_length. cbn [length].
    destruct t as [[l n]|]; cbn [vsuffix lnum]; rewrite ?app_length; cbn [length]; rewrite ?app_length;
      [lia|change (length (dec 0)) with 1%nat; lia]. }
  destruct Hf as (H1 & H2 & H3 & H4). revert H1 H2 H3 H4.
  generalize (S (length s)) as f. generalize (length s) as n0. intros n0 f H1 H2 H3 H4.
  unfold s. clear s. rewrite <- !app_assoc. cbn [app]. rewrite <- !app_assoc. cbn [app].
  unfold R_PV.
  change ((n_major, dec a) :: (n_minor, dec b) :: (n_patch, dec c) :: tenvB t)
    with (([] : env) ++ ([(n_major, dec a)] ++ ([] ++ ([(n_minor, dec b)] ++ ([] ++ ([(n_patch, dec c)] ++ tenvB t)))))).
  eapply first_cat; [apply first_chr|].
  eapply first_cat; [apply ST.first_grpD1; [reflexivity|exact H1]|].
  eapply first_cat; [apply first_chr|].
  eapply first_cat; [apply ST.first_grpD1; [reflexivity|exact H2]|].
  eapply first_cat; [apply first_chr|].
  eapply first_cat.
  { apply ST.first_grpD1; [|exact H3]. destruct t as [[l n]|]; reflexivity. }
  apply first_cat_eps. apply first_optB. exact H4.
Qed.

(* match.groupdict() *)
Definition fvB (a b c : list N) (tg nu : option (list N)) : fvals :=
  [(n_major, Some a); (n_minor, Some b); (n_patch, Some c); (n_tag, tg); (n_num, nu)].
Definition fvB_of (a b c : N) (t : lstate) : fvals :=
  match t with
  | Some (l, n) => fvB (dec a) (dec b) (dec c) (Some (ltxt l)) (Some (dec n))
  | None => fvB (dec a) (dec b) (dec c) None None
  end.
Lemma groupdict_PV a b c t :
  groupdict R_PV ([(n_major, dec a); (n_minor, dec b); (n_patch, dec c)] ++ tenvB t) = fvB_of a b c t.
Proof. destruct t as [[l n]|]; reflexivity. Qed.

Lemma parse_cinfo_fvB today a b c tg nu : parse_cinfo today (fvB a b c tg nu) = POk (cinfo_of_ord today).
Proof.
  unfold parse_cinfo.
  change (fv_int n_year_y (fvB a b c tg nu)) with (Some (@None Z)).
  change (fv_int n_year_g (fvB a b c tg nu)) with (Some (@None Z)).
  change (fv_int n_month (fvB a b c tg nu)) with (Some (@None Z)).
  change (fv_int n_doy (fvB a b c tg nu)) with (Some (@None Z)).
  change (fv_int n_dom (fvB a b c tg nu)) with (Some (@None Z)).
  change (fv_int n_week_w (fvB a b c tg nu)) with (Some (@None Z)).
  change (fv_int n_week_u (fvB a b c tg nu)) with (Some (@None Z)).
  change (fv_int n_week_v (fvB a b c tg nu)) with (Some (@None Z)).
  change (fv_int n_quarter (fvB a b c tg nu)) with (Some (@None Z)).
  cbn [fix2000 truthy andb orb bind V2.is_some nth].
  pose proof (ST.month_range today) as Hm.
  assert (E : (month (cal_of today) =? 0)%Z = false) by (apply Z.eqb_neq; lia).
  rewrite E. cbn [negb]. rewrite <- ST.quarter_of_month. reflexivity.
Qed.

(* the record of the version v a.b.c<-tag num>: calendar fields = TODAY, BUILD default 1000, INC0 0, INC1 1;
   the PYTAG field is looked up in PEP440_TAG_BY_TAG *)
Definition vt_vinfo (today : Z) (ma mi pa : Z) (t : lstate) : vinfo :=
  set_cal (mkv None None None None None None None None None ma mi pa [49;48;48;48] (tagtext t) (pytext t) [] []
               (Z.of_N (lnum t)) 0%Z 1%Z) (cinfo_of_ord today).

Lemma parse_vinfo_fvB today a b c t :
  parse_vinfo today (fvB_of a b c t) = POk (vt_vinfo today (Z.of_N a) (Z.of_N b) (Z.of_N c) t).
Proof.
  unfold parse_vinfo, fvB_of. destruct t as [[l n]|].
  - rewrite parse_cinfo_fvB. cbn [bind].
    set (fv := fvB (dec a) (dec b) (dec c) (Some (ltxt l)) (Some (dec n))).
    change (fv_str_or_empty n_tag fv) with (ltxt l).
    change (fv_str_or_empty n_pytag fv) with (@nil N).
    change (fv_str_or_empty n_githash fv) with (@nil N).
    change (fv_str_or_empty n_hexhash fv) with (@nil N).
    change (assoc n_bid fv) with (@None (option (list N))).
    rewrite (ST.fv_int_or_dec n_major 0%Z fv a) by reflexivity.
    rewrite (ST.fv_int_or_dec n_minor 0%Z fv b) by reflexivity.
    rewrite (ST.fv_int_or_dec n_patch 0%Z fv c) by reflexivity.
    rewrite (ST.fv_int_or_dec n_num 0%Z fv n) by reflexivity.
    destruct l; reflexivity.
  - rewrite parse_cinfo_fvB. cbn [bind].
    set (fv := fvB (dec a) (dec b) (dec c) None None).
    change (fv_str_or_empty n_tag fv) with (@nil N).
    change (fv_str_or_empty n_pytag fv) with (@nil N).
    change (fv_str_or_empty n_githash fv) with (@nil N).
    change (fv_str_or_empty n_hexhash fv) with (@nil N).
    change (assoc n_bid fv) with (@None (option (list N))).
    cbn [andb negb bind].
    rewrite (ST.fv_int_or_dec n_major 0%Z fv a) by reflexivity.
    rewrite (ST.fv_int_or_dec n_minor 0%Z fv b) by reflexivity.
    rewrite (ST.fv_int_or_dec n_patch 0%Z fv c) by reflexivity.
    reflexivity.
Qed.

Theorem vt_parse_eq : forall today a b c t,
  parse_version_info today (vt a b c t) PV = POk (vt_vinfo today (Z.of_N a) (Z.of_N b) (Z.of_N c) t).
Proof.
  intros. Local Transparent parse_version_info. unfold parse_version_info. Local Opaque parse_version_info.
  rewrite norm_PV, compile_PV, match_PV, groupdict_PV.
  apply parse_vinfo_fvB.
Qed.

Lemma vt_vinfo_state today ma mi pa t : state_of (vt_vinfo today ma mi pa t) t.
Proof. unfold state_of. repeat split; reflexivity. Qed.
Lemma vt_vinfo_nums today ma mi pa t :
  v_major (vt_vinfo today ma mi pa t) = ma /\ v_minor (vt_vinfo today ma mi pa t) = mi
  /\ v_patch (vt_vinfo today ma mi pa t) = pa.
Proof. repeat split; reflexivity. Qed.

(* text -> record -> both texts: whatever text {version} stands for, {pep440_version} stands for the same version *)
Theorem c15_roundtrip : forall today a b c t v,
  parse_version_info today (vt a b c t) PV = POk v ->
  format_version v (normalize_pattern PV s_version_ph) = Some (vt a b c t)
  /\ format_version v (normalize_pattern PV s_pep440_ph) = Some (pt a b c t)
  /\ is_pep440 (pt a b c t) = true
  /\ version_key (pt a b c t) = version_key (vt a b c t)
  /\ to_pep440 (pt a b c t) = to_pep440 (vt a b c t).
Proof.
  intros today a b c t v H. rewrite vt_parse_eq in H. injection H as <-.
  rewrite norm_version, norm_pep440.
  pose proof (vt_vinfo_state today (Z.of_N a) (Z.of_N b) (Z.of_N c) t) as S.
  destruct (vt_vinfo_nums today (Z.of_N a) (Z.of_N b) (Z.of_N c) t) as (E1 & E2 & E3).
  rewrite (vt_format_gen _ t S), (pt_format_gen _ t S), E1, E2, E3, !N2Z.id.
  destruct (c15_same_version a b c t) as (_ & I & _ & K & T & _).
  repeat split; try reflexivity; try assumption. symmetry. exact T.
Qed.

(* ================================================================== PEP 440 reading of the CalVer texts *)
Definition sb (l : ltag) : TaggedFacts.btag := ST.btag (short l).
(* {version} does not show the number *)
Definition hide (t : lstate) : lstate := match t with Some (l, _) => Some (l, 0) | None => None end.

Lemma cvt_tagged y m bid l n : cvt y m bid (Some (l, n)) = tagged true [dec y ++ pad 2 m; bid] [45] (lb l) [].
Proof. unfold cvt. rewrite CV.cv_dj. unfold tagged. rewrite app_nil_r. destruct l; reflexivity. Qed.
Lemma cpt_tagged y m bid l n :
  cpt y m bid (Some (l, n)) = tagged false [dec y ++ pad 2 m; dec (undec bid)] [] (sb l) (dec n).
Proof. unfold cpt, tagged. cbn [join app]. rewrite <- !app_assoc. destruct l; reflexivity. Qed.
Lemma cpt_final y m bid : cpt y m bid None = dj [dec y ++ pad 2 m; dec (undec bid)].
Proof. unfold cpt, dj. cbn [join app]. rewrite app_nil_r, <- !app_assoc. reflexivity. Qed.

Definition pv2 (y m : N) (bid : list N) (t : lstate) : pver :=
  match t with
  | None => mkpver 0 [y * 100 + m; undec bid] None None None None
  | Some (l, n) => tag_pver [y * 100 + m; undec bid] (lb l) n
  end.

Lemma ne2l (a b : list N) : [a; b] <> [].
Proof. intros Q; discriminate Q. Qed.

(* the missing number is read as 0 *)
Theorem parse_cvt : forall y m bid t, m <= 12 -> all_digits bid = true -> bid <> [] ->
  parse_pep440 (cvt y m bid t) = Some (pv2 y m bid (hide t)).
Proof.
  intros y m bid [[l n]|] Hm Hd Hne.
  - rewrite cvt_tagged.
    rewrite (parse_tagged_sep true [dec y ++ pad 2 m; bid] [45] (lb l) [] (ne2l _ _) (CV.good_cv y m bid (conj Hd Hne))
               sep_dash eq_refl).
    cbn [map]. rewrite CV.undec_ym by exact Hm. reflexivity.
  - unfold cvt. rewrite app_nil_r. exact (CV.parse_cv y m bid Hm Hd Hne).
Qed.
Theorem parse_cpt : forall y m bid t, m <= 12 ->
  parse_pep440 (cpt y m bid t) = Some (pv2 y m bid t).
Proof.
  intros y m bid [[l n]|] Hm.
  - rewrite cpt_tagged.
    rewrite (parse_tagged_sep false [dec y ++ pad 2 m; dec (undec bid)] [] (sb l) (dec n) (ne2l _ _)
               (CV.good_cv y m _ (ST.dstr_dec (undec bid))) ST.sep_nil (dec_all_digits n)).
    cbn [map]. rewrite CV.undec_ym by exact Hm. rewrite !undec_dec. destruct l; reflexivity.
  - rewrite cpt_final, (parse_dj _ (CV.good_cv y m _ (ST.dstr_dec (undec bid))) (ne2l _ _)).
    cbn [map]. rewrite CV.undec_ym by exact Hm. rewrite undec_dec. reflexivity.
Qed.

(* the C15 statement for the CalVer pattern: the record's NUM is 0 (it is, whenever the record was read from
   a version of this pattern: there is no NUM part) *)
Theorem c15_calver : forall y m bid t, m <= 12 -> all_digits bid = true -> bid <> [] -> lnum t = 0 ->
  is_pep440 (cvt y m bid t) = true
  /\ is_pep440 (cpt y m bid t) = true
  /\ parse_pep440 (cpt y m bid t) = parse_pep440 (cvt y m bid t)
  /\ version_key (cpt y m bid t) = version_key (cvt y m bid t)
  /\ to_pep440 (cvt y m bid t) = to_pep440 (cpt y m bid t)
  /\ ver_lt (cpt y m bid t) (cvt y m bid t) = false /\ ver_lt (cvt y m bid t) (cpt y m bid t) = false.
Proof.
  intros y m bid t Hm Hd Hne Hn.
  assert (Eh : hide t = t) by (destruct t as [[l n]|]; [cbn [lnum] in Hn; subst n|]; reflexivity).
  pose proof (parse_cvt y m bid t Hm Hd Hne) as E1. rewrite Eh in E1.
  pose proof (parse_cpt y m bid t Hm) as E2.
  assert (K : version_key (cpt y m bid t) = version_key (cvt y m bid t)).
  { unfold version_key. rewrite E1, E2. reflexivity. }
  split; [unfold is_pep440; rewrite E1; reflexivity|].
  split; [unfold is_pep440; rewrite E2; reflexivity|].
  split; [rewrite E1, E2; reflexivity|].
  split; [exact K|].
  split; [unfold to_pep440; rewrite E1, E2; reflexivity|].
  unfold ver_lt, key_lt. rewrite K, cmp_key_refl. split; reflexivity.
Qed.

(* A record of this pattern whose NUM is not 0: {version} cannot show it, {pep440_version} does;
   the two texts are then different versions (b0 against b5) *)
Theorem calver_hidden_num_diverges : forall y m bid l n, m <= 12 -> all_digits bid = true -> bid <> [] -> n <> 0 ->
  parse_pep440 (cvt y m bid (Some (l, n))) = Some (tag_pver [y * 100 + m; undec bid] (lb l) 0)
  /\ parse_pep440 (cpt y m bid (Some (l, n))) = Some (tag_pver [y * 100 + m; undec bid] (lb l) n)
  /\ version_key (cpt y m bid (Some (l, n))) <> version_key (cvt y m bid (Some (l, n))).
Proof.
  intros y m bid l n Hm Hd Hne Hn.
  pose proof (parse_cvt y m bid (Some (l, n)) Hm Hd Hne) as E1.
  pose proof (parse_cpt y m bid (Some (l, n)) Hm) as E2.
  cbn [hide pv2] in E1, E2.
  split; [exact E1|]. split; [exact E2|].
  unfold version_key. rewrite E1, E2. intros Q. apply Hn.
  destruct l; cbn [tag_pver lb] in Q; rewrite !cmpkey_eq in Q; cbn [tag_of] in Q; injection Q; intros; assumption.
Qed.

(* Version.__str__ *)
Definition nf2 (y m : N) (bid : list N) (t : lstate) : list N := dotted [y * 100 + m; undec bid] ++ nsuffix t.
Lemma pver_str_pv2 y m bid t : pver_str (pv2 y m bid t) = nf2 y m bid t.
Proof.
  unfold pver_str, nf2, dotted.
  destruct t as [[[] n]|]; cbn [pv2 tag_pver lb pv_epoch pv_release pv_pre pv_post pv_dev pv_local N.eqb nsuffix stxt short
                                  ST.ptext]; cbn [app]; rewrite ?app_nil_r; reflexivity.
Qed.
Theorem to_pep440_cpt : forall y m bid t, m <= 12 -> to_pep440 (cpt y m bid t) = nf2 y m bid t.
Proof. intros y m bid t Hm. unfold to_pep440. rewrite (parse_cpt y m bid t Hm). apply pver_str_pv2. Qed.
Theorem to_pep440_cvt : forall y m bid t, m <= 12 -> all_digits bid = true -> bid <> [] ->
  to_pep440 (cvt y m bid t) = nf2 y m bid (hide t).
Proof. intros y m bid t Hm Hd Hne. unfold to_pep440. rewrite (parse_cvt y m bid t Hm Hd Hne). apply pver_str_pv2. Qed.

(* year and two-digit month glued together are the decimal text of year * 100 + month *)
Lemma dec_ym y m : y <> 0 -> m <= 12 -> dec (y * 100 + m) = dec y ++ pad 2 m.
Proof.
  intros Hy Hm. rewrite <- (CV.undec_ym y m Hm). apply dec_canonical.
  - exact (proj1 (CV.dstr_ym y m)).
  - exact (proj2 (CV.dstr_ym y m)).
  - left. rewrite hd_app_nonempty by apply dec_nonempty. apply dec_hd_nonzero. exact Hy.
Qed.

(* the written text is the normal form exactly when the tag is not post or dev (year not 0) *)
Theorem cpt_literal_iff : forall y m bid t, y <> 0 -> m <= 12 ->
  (cpt y m bid t = to_pep440 (cpt y m bid t) <-> dotless t = true).
Proof.
  intros y m bid t Hy Hm. rewrite (to_pep440_cpt y m bid t Hm). unfold nf2.
  rewrite dotted_cons2, dotted_single, (dec_ym y m Hy Hm).
  assert (E : forall sfx, dec y ++ pad 2 m ++ [46] ++ dec (undec bid) ++ sfx
                          = ((dec y ++ pad 2 m) ++ 46 :: dec (undec bid)) ++ sfx).
  { intros sfx. rewrite <- !app_assoc. reflexivity. }
  unfold cpt. rewrite E.
  destruct t as [[[] n]|]; cbn [dotless nsuffix]; split; intros H; try reflexivity; try discriminate H;
    apply app_inv_head in H; discriminate H.
Qed.

(* BLD prints the build number without leading zeros, so a build string made of zeros only is written as 0,
   which the derived pattern does not accept: its BLD part is [1-9][0-9]*.  (bumpver's own build numbers
   start at 1000, so this needs a hand-written version.) *)
Example bld_zero_not_read_back : forall today,
  format_version (CV.cv_vinfo 2024 1 [48;48;48]) P2' = Some [50;48;50;52;48;49;46;48]
  /\ parse_version_info today [50;48;50;52;48;49;46;48] P2' = PErr.
Proof. intros today. split; vm_compute; reflexivity. Qed.

(* ================================================================== the headline statements *)
(* SemVer with a long tag: whatever the numbers and the tag state of the new version are, the texts written
   for {version} and for {pep440_version} are PEP 440 versions with the same key and the same normal form,
   and the second one is read back by the derived pattern *)
Theorem c15_semver_update : forall today v t, state_of v t ->
  exists sv sp,
    option_map cp_repl (v2_cpat PV s_version_ph v) = Some sv
    /\ option_map cp_repl (v2_cpat PV s_pep440_ph v) = Some sp
    /\ is_pep440 sv = true /\ is_pep440 sp = true
    /\ version_key sp = version_key sv
    /\ to_pep440 sv = to_pep440 sp
    /\ (dotless t = true -> sp = to_pep440 sv)
    /\ exists v', parse_version_info today sp (convert_to_pep440 PV) = POk v'
         /\ v_major v' = Z.of_N (Z.to_N (v_major v)) /\ v_minor v' = Z.of_N (Z.to_N (v_minor v))
         /\ v_patch v' = Z.of_N (Z.to_N (v_patch v)) /\ v_pytag v' = v_pytag v /\ v_num v' = v_num v.
Proof.
  intros today v t H. destruct (update_writes v t H) as [W1 W2].
  set (a := Z.to_N (v_major v)) in *. set (b := Z.to_N (v_minor v)) in *. set (c := Z.to_N (v_patch v)) in *.
  exists (vt a b c t), (pt a b c t).
  destruct (c15_same_version a b c t) as (I1 & I2 & _ & K & T & _).
  destruct (pt_read_back today a b c t) as (v' & R & _ & Ra & Rb & Rc & Rp & Rn & _).
  destruct H as (_ & Hp & Hn).
  split; [exact W1|]. split; [exact W2|]. split; [exact I1|]. split; [exact I2|]. split; [exact K|]. split; [exact T|].
  split; [intros D; apply pt_literal_iff; exact D|].
  exists v'. split; [exact R|]. rewrite Hp, Hn. repeat split; assumption.
Qed.

(* the default CalVer pattern, for a record whose NUM is 0 *)
Theorem c15_calver_update : forall v y m t,
  v_year_y v = Some y -> v_month v = Some m -> Z.to_N m <= 12 -> state_of v t -> lnum t = 0 ->
  all_digits (v_bid v) = true -> v_bid v <> [] ->
  exists sv sp,
    option_map cp_repl (v2_cpat P2 s_version_ph v) = Some sv
    /\ option_map cp_repl (v2_cpat P2 s_pep440_ph v) = Some sp
    /\ is_pep440 sv = true /\ is_pep440 sp = true
    /\ version_key sp = version_key sv
    /\ to_pep440 sv = to_pep440 sp
    /\ (Z.to_N y <> 0 -> dotless t = true -> sp = to_pep440 sv).
Proof.
  intros v y m t Hy Hm Hm12 H Hn Hd Hne. destruct (update_writes_calver v y m t Hy Hm H Hd) as [W1 W2].
  exists (cvt (Z.to_N y) (Z.to_N m) (v_bid v) t), (cpt (Z.to_N y) (Z.to_N m) (v_bid v) t).
  destruct (c15_calver (Z.to_N y) (Z.to_N m) (v_bid v) t Hm12 Hd Hne Hn) as (I1 & I2 & _ & K & T & _).
  split; [exact W1|]. split; [exact W2|]. split; [exact I1|]. split; [exact I2|]. split; [exact K|]. split; [exact T|].
  intros Hy0 D. rewrite T. apply cpt_literal_iff; assumption.
Qed.

Print Assumptions convert_PV.
Print Assumptions norm_version.
Print Assumptions norm_pep440.
Print Assumptions vt_format_gen.
Print Assumptions pt_format_gen.
Print Assumptions num_zero_is_printed.
Print Assumptions final_with_num_diverges.
Print Assumptions update_writes.
Print Assumptions parse_vt.
Print Assumptions parse_pt.
Print Assumptions to_pep440_pt.
Print Assumptions to_pep440_vt.
Print Assumptions nf_fixed.
Print Assumptions pt_literal_iff.
Print Assumptions pt_post_dev.
Print Assumptions pt_shape.
Print Assumptions c15_same_version.
Print Assumptions pt_read_back.
Print Assumptions vt_parse_eq.
Print Assumptions c15_roundtrip.
Print Assumptions c15_semver_update.
Print Assumptions convert_P2.
Print Assumptions norm2_version.
Print Assumptions norm2_pep440.
Print Assumptions cvt_format_gen.
Print Assumptions cpt_format_gen.
Print Assumptions update_writes_calver.
Print Assumptions parse_cvt.
Print Assumptions parse_cpt.
Print Assumptions c15_calver.
Print Assumptions calver_hidden_num_diverges.
Print Assumptions to_pep440_cpt.
Print Assumptions to_pep440_cvt.
Print Assumptions cpt_literal_iff.
Print Assumptions bld_zero_not_read_back.
Print Assumptions c15_calver_update.
