(* The initial version `init` writes is this CALENDAR year's: the strftime formats of
   config._initial_version / _initial_version_pep440, extracted from the source by T1, use %Y
   (not the ISO or week-based year, which differ from it around New Year). *)
From Coq Require Import List NArith Strings.String.
From BV Require Import Lib.PyStr Lib.StrLit Gen.Tables.
Import ListNotations.
Local Open Scope string_scope.

Theorem repo_initial_version_formats :
  INITIAL_VERSION_FMT = lit "%Y.1001-alpha" /\ INITIAL_VERSION_PEP440_FMT = lit "%Y.1001a0".
Proof. vm_compute. split; reflexivity. Qed.
