(* C18 (config formats): proofs over Model/Config.v. *)
From Coq Require Import List Bool NArith ZArith Arith Lia Sorted.
From BV Require Import Lib.PyStr Model.V2 Model.Cli Model.V1 Model.CliAll Model.Config Model.Project Gen.Tables.
Import ListNotations.
Local Open Scope N_scope.

(* ================================================================== C18 *)
(* ------------------------------------------------------------------ C18 *)
Theorem tag_push_require_commit : forall boolf c e, parse_config boolf c = Some e ->
  (e_tag e = true -> e_commit e = true) /\ (e_push e = true -> e_commit e = true).
Proof.
  intros boolf c e H. unfold parse_config in H.
  destruct (get_str s_commit_message c DEFAULT_COMMIT_MESSAGE); [|discriminate H].
  destruct (get_str s_tag_message c DEFAULT_TAG_MESSAGE); [|discriminate H].
  destruct (assoc s_current_version c) as [[cv|]|]; try discriminate H.
  destruct (assoc s_version_pattern c) as [[vp|]|]; try discriminate H.
  destruct (get_str s_tag_scope c s_default); [|discriminate H].
  destruct (get_str s_pre_hook c []); [|discriminate H].
  destruct (get_str s_post_hook c []); [|discriminate H].
  destruct (negb (mem_str l1 [s_default; s_global; s_branch])); [discriminate H|].
  cbv zeta in H.
  destruct (truthy_raw (boolf (assoc s_tag c) _)) eqn:Ht;
  destruct (truthy_raw (boolf (assoc s_push c) _)) eqn:Hp;
  destruct (truthy_raw (boolf (assoc s_commit c) _)) eqn:Hc;
  simpl in H; try discriminate H; injection H as <-; simpl; split; intros; congruence.
Qed.

Theorem ini_truthy_spellings : forall s, ini_bool (Some (RStr s)) None = Some (RBool (mem_str (lower_ascii s) INI_TRUTHY)).
Proof. reflexivity. Qed.

Theorem repo_truthy_table :
  INI_TRUTHY = [ [121;101;115]; [116;114;117;101]; [49]; [111;110] ] /\
  BOOL_OPTIONS = [ ([99;111;109;109;105;116], Some false); ([116;97;103], None); ([112;117;115;104], None) ].
Proof. split; reflexivity. Qed.

Record abscfg := mkabs {
  a_cv : list N; a_vp : list N; a_cm : option (list N); a_tm : option (list N); a_scope : option (list N);
  a_pre : option (list N); a_post : option (list N); a_commit : option bool; a_tag : option bool; a_push : option bool }.

Definition opt_entry {A} (k : list N) (f : A -> rawv) (o : option A) : rawcfg :=
  match o with Some x => [(k, f x)] | None => [] end.

Definition raw_of (fs : list N -> rawv) (fb : bool -> rawv) (a : abscfg) : rawcfg :=
  [(s_current_version, fs (a_cv a)); (s_version_pattern, fs (a_vp a))] ++
  opt_entry s_commit_message fs (a_cm a) ++ opt_entry s_tag_message fs (a_tm a) ++
  opt_entry s_tag_scope fs (a_scope a) ++ opt_entry s_pre_hook fs (a_pre a) ++ opt_entry s_post_hook fs (a_post a) ++
  opt_entry s_commit fb (a_commit a) ++ opt_entry s_tag fb (a_tag a) ++ opt_entry s_push fb (a_push a).

(* what the toml library delivers: typed values *)
Definition raw_toml (a : abscfg) : rawcfg := raw_of RStr RBool a.
(* what configparser delivers: every value is text; strings may carry quotes, booleans are spelled out *)
Definition raw_ini (spell : bool -> list N) (quote : list N -> list N) (a : abscfg) : rawcfg :=
  raw_of (fun s => RStr (quote s)) (fun b => RStr (spell b)) a.

Definition abs_str (k : list N) (a : abscfg) : option (list N) :=
  if eqb_str k s_current_version then Some (a_cv a) else
  if eqb_str k s_version_pattern then Some (a_vp a) else
  if eqb_str k s_commit_message then a_cm a else
  if eqb_str k s_tag_message then a_tm a else
  if eqb_str k s_tag_scope then a_scope a else
  if eqb_str k s_pre_hook then a_pre a else
  if eqb_str k s_post_hook then a_post a else None.
Definition abs_bool (k : list N) (a : abscfg) : option bool :=
  if eqb_str k s_commit then a_commit a else
  if eqb_str k s_tag then a_tag a else
  if eqb_str k s_push then a_push a else None.

Definition cfg_keys : list (list N) :=
  [s_current_version; s_version_pattern; s_commit_message; s_tag_message; s_tag_scope; s_pre_hook; s_post_hook; s_commit; s_tag; s_push].

Lemma assoc_app : forall {A} k (l1 l2 : list (list N * A)),
  assoc k (l1 ++ l2) = match assoc k l1 with Some v => Some v | None => assoc k l2 end.
Proof.
  intros A k l1 l2. induction l1 as [|[k' v] l1 IH]; simpl; [reflexivity|].
  destruct (eqb_str k k'); [reflexivity|exact IH].
Qed.

Lemma assoc_opt_entry : forall {A} k k' (f : A -> rawv) o,
  assoc k (opt_entry k' f o) = if eqb_str k k' then option_map f o else None.
Proof. intros A k k' f [x|]; simpl; destruct (eqb_str k k'); reflexivity. Qed.

Lemma assoc_raw_of : forall fs fb a k, In k cfg_keys ->
  assoc k (raw_of fs fb a) =
  match abs_str k a with Some s => Some (fs s) | None => match abs_bool k a with Some b => Some (fb b) | None => None end end.
Proof.
  intros fs fb [cv vp cm tm sc pre post co ta pu] k Hk.
  unfold raw_of. rewrite !assoc_app. rewrite !assoc_opt_entry.
  simpl in Hk.
  repeat (destruct Hk as [<-|Hk]); try contradiction; simpl;
    repeat match goal with |- context [option_map _ ?o] => is_var o; destruct o; simpl end; reflexivity.
Qed.

(* stripping quotes: wrapping a value in double quotes does not change what is read *)
Lemma lstrip_snoc_mem : forall cs c s, mem_chr c cs = true ->
  lstrip cs (s ++ [c]) = match lstrip cs s with [] => [] | l => l ++ [c] end.
Proof.
  intros cs c s Hc. induction s as [|x s IH]; simpl.
  - rewrite Hc. reflexivity.
  - destruct (mem_chr x cs); [exact IH|reflexivity].
Qed.

Lemma rstrip_snoc_mem : forall cs c s, mem_chr c cs = true -> rstrip cs (s ++ [c]) = rstrip cs s.
Proof.
  intros cs c s Hc. unfold rstrip. rewrite rev_app_distr. simpl. rewrite Hc. reflexivity.
Qed.

Theorem strip_q_dquote : forall s, strip_q ([34] ++ s ++ [34]) = strip_q s.
Proof.
  intros s. unfold strip_q, strip.
  change (lstrip [39; 34; 32] ([34] ++ s ++ [34])) with (lstrip [39; 34; 32] (s ++ [34])).
  rewrite lstrip_snoc_mem by reflexivity.
  destruct (lstrip [39; 34; 32] s) as [|x l] eqn:Hl; [reflexivity|].
  apply rstrip_snoc_mem. reflexivity.
Qed.

Local Opaque strip_q mem_str lower_ascii mem_chr.
(* step 1: the spelling of booleans does not matter (strings kept as they are) *)
Lemma formats_agree_bools : forall a spell fs,
  (forall b, mem_str (lower_ascii (spell b)) INI_TRUTHY = b) ->
  parse_config ini_bool (raw_of fs (fun b => RStr (spell b)) a) = parse_config toml_bool (raw_of fs RBool a).
Proof.
  intros a spell fs Hb. unfold parse_config, get_str.
  rewrite !assoc_raw_of by (simpl; tauto).
  destruct a as [cv vp cm tm sc pre post co ta pu].
  (destruct co, ta, pu; simpl; rewrite ?Hb; reflexivity).
Qed.

(* step 2: quoting of strings does not matter (booleans typed) *)
Lemma formats_agree_strings : forall a quote boolf,
  (forall s, strip_q (quote s) = strip_q s) ->
  parse_config boolf (raw_of (fun s => RStr (quote s)) RBool a) = parse_config boolf (raw_of RStr RBool a).
Proof.
  intros a quote boolf Hq. unfold parse_config, get_str.
  rewrite !assoc_raw_of by (simpl; tauto).
  destruct a as [cv vp cm tm sc pre post co ta pu].
  (destruct cm, tm, sc, pre, post; simpl; rewrite ?Hq; reflexivity).
Qed.
Local Transparent strip_q mem_str lower_ascii mem_chr.

Theorem formats_agree : forall a spell quote,
  (forall b, mem_str (lower_ascii (spell b)) INI_TRUTHY = b) ->
  (forall s, strip_q (quote s) = strip_q s) ->
  parse_config_ini (raw_ini spell quote a) = parse_config_toml (raw_toml a).
Proof.
  intros a spell quote Hb Hq. unfold parse_config_ini, parse_config_toml, raw_ini, raw_toml.
  rewrite (formats_agree_bools a spell _ Hb). apply formats_agree_strings. exact Hq.
Qed.

(* YES / off ; values wrapped in double quotes *)
Definition spell_yes_off (b : bool) : list N := if b then [89;69;83] else [111;102;102].
Definition quote_dq (s : list N) : list N := [34] ++ s ++ [34].

Theorem formats_agree_quoted : forall a, parse_config_ini (raw_ini spell_yes_off quote_dq a) = parse_config_toml (raw_toml a).
Proof.
  intros a. apply formats_agree.
  - intros [|]; reflexivity.
  - exact strip_q_dquote.
Qed.

(* a concrete configuration: current_version 1.2.3, version_pattern MAJOR.MINOR.PATCH, tag_scope global,
   commit and tag on, push off; the INI spelling (YES / off, values in double quotes) and the TOML
   spelling are both accepted and give the same effective configuration *)
Definition sample_cfg : abscfg :=
  mkabs [49;46;50;46;51] [77;65;74;79;82;46;77;73;78;79;82;46;80;65;84;67;72] None None (Some s_global) None None
        (Some true) (Some true) (Some false).

Example formats_agree_instance :
  parse_config_ini (raw_ini spell_yes_off quote_dq sample_cfg) = parse_config_toml (raw_toml sample_cfg) /\
  parse_config_toml (raw_toml sample_cfg) =
    Some (mkeff [49;46;50;46;51] [77;65;74;79;82;46;77;73;78;79;82;46;80;65;84;67;72] DEFAULT_COMMIT_MESSAGE DEFAULT_TAG_MESSAGE
                s_global [] [] true true false true).
Proof. vm_compute. split; reflexivity. Qed.

