(* C05, end-to-end shape of the numeric bump: _incr_numeric is the flag bump (bumped, Proofs/IncrFacts.v)
   followed by the rollover reset, and the rollover reset gives every resettable integer field that
   lies to the right of the first changed part of the pattern its initial value
   (version.V2_FIELD_INITIAL_VALUES) and leaves every other field alone. *)
From Coq Require Import List Bool NArith ZArith Arith Lia.
From BV Require Import Lib.PyStr Lib.Decimal Lib.Regex Lib.RegexParse Lib.Calendar Model.Lexid Model.V2 Gen.Tables
  Proofs.IncrFacts.
Import ListNotations.
Local Open Scope N_scope.

Local Opaque parse_pattern_fields parse_version_info format_version compile_pattern_re normalize_pattern.

(* ------------------------------------------------------------------ the resettable fields *)
Definition resettable : list (list N) := map fst V2_FIELD_INITIAL_VALUES.

(* the generated table, with the field names of Model/V2.v *)
Theorem repo_initial_values :
  V2_FIELD_INITIAL_VALUES =
  [ (n_major, [48]); (n_minor, [48]); (n_patch, [48]); (n_num, [48]); (n_inc0, [48]); (n_inc1, [49]) ].
Proof. reflexivity. Qed.

Lemma resettable_eq : resettable = [n_major; n_minor; n_patch; n_num; n_inc0; n_inc1].
Proof. reflexivity. Qed.

(* the initial value of a field as a number (0 for a field that has none) *)
Definition initz (f : list N) : Z :=
  match assoc f V2_FIELD_INITIAL_VALUES with Some i => zundec i | None => 0%Z end.

Lemma assoc_init_chain : forall f,
  assoc f V2_FIELD_INITIAL_VALUES =
  if eqb_str f n_major then Some [48] else if eqb_str f n_minor then Some [48] else
  if eqb_str f n_patch then Some [48] else if eqb_str f n_num then Some [48] else
  if eqb_str f n_inc0 then Some [48] else if eqb_str f n_inc1 then Some [49] else None.
Proof. reflexivity. Qed.

Lemma in_resettable_cases : forall f, In f resettable ->
  f = n_major \/ f = n_minor \/ f = n_patch \/ f = n_num \/ f = n_inc0 \/ f = n_inc1.
Proof.
  intros f H. rewrite resettable_eq in H. cbn [In] in H.
  destruct H as [H|[H|[H|[H|[H|[H|[]]]]]]]; symmetry in H; tauto.
Qed.

(* a field with an initial value is one of the six integer fields and its initial value is a digit string *)
Lemma assoc_init_some : forall f i, assoc f V2_FIELD_INITIAL_VALUES = Some i ->
  In f resettable /\ isdigit i = true.
Proof.
  intros f i H. rewrite assoc_init_chain in H. rewrite resettable_eq. cbn [In].
  destruct (eqb_str f n_major) eqn:E1;
    [apply eqb_str_eq in E1; injection H as H; subst i f; split; [tauto|reflexivity]|].
  destruct (eqb_str f n_minor) eqn:E2;
    [apply eqb_str_eq in E2; injection H as H; subst i f; split; [tauto|reflexivity]|].
  destruct (eqb_str f n_patch) eqn:E3;
    [apply eqb_str_eq in E3; injection H as H; subst i f; split; [tauto|reflexivity]|].
  destruct (eqb_str f n_num) eqn:E4;
    [apply eqb_str_eq in E4; injection H as H; subst i f; split; [tauto|reflexivity]|].
  destruct (eqb_str f n_inc0) eqn:E5;
    [apply eqb_str_eq in E5; injection H as H; subst i f; split; [tauto|reflexivity]|].
  destruct (eqb_str f n_inc1) eqn:E6;
    [apply eqb_str_eq in E6; injection H as H; subst i f; split; [tauto|reflexivity]|].
  discriminate H.
Qed.

Lemma has_key_init_resettable : forall f, In f resettable -> has_key f V2_FIELD_INITIAL_VALUES = true.
Proof.
  intros f H. apply in_resettable_cases in H.
  destruct H as [H|[H|[H|[H|[H|H]]]]]; subst f; reflexivity.
Qed.

Lemma has_key_init_other : forall f, ~ In f resettable -> has_key f V2_FIELD_INITIAL_VALUES = false.
Proof.
  intros f H. unfold has_key.
  destruct (assoc f V2_FIELD_INITIAL_VALUES) as [i|] eqn:E; [|reflexivity].
  exfalso. apply H. exact (proj1 (assoc_init_some f i E)).
Qed.

(* ------------------------------------------------------------------ get_field after set_int_field *)
(* for the six integer fields: reading back what was written *)
Lemma get_set_int_same : forall v f z, In f resettable ->
  get_field (set_int_field v f z) f = Some (Some (FInt z)).
Proof.
  intros v f z H. apply in_resettable_cases in H. destruct v.
  destruct H as [H|[H|[H|[H|[H|H]]]]]; subst f; reflexivity.
Qed.

(* for ARBITRARY field-name strings f, g: writing g does not change what f reads *)
Lemma get_set_int_other : forall v f g z, f <> g ->
  get_field (set_int_field v g z) f = get_field v f.
Proof.
  intros v f g z Hne.
  destruct v as [a b c d e g0 h i j ma mi pa bid tag pytag gh hh num i0 i1].
  unfold set_int_field.
  destruct (eqb_str g n_major) eqn:E1.
  { apply eqb_str_eq in E1. subst g. unfold get_field.
    destruct (eqb_str f n_major) eqn:E; [apply eqb_str_eq in E; contradiction|]. reflexivity. }
  destruct (eqb_str g n_minor) eqn:E2.
  { apply eqb_str_eq in E2. subst g. unfold get_field.
    destruct (eqb_str f n_minor) eqn:E; [apply eqb_str_eq in E; contradiction|]. reflexivity. }
  destruct (eqb_str g n_patch) eqn:E3.
  { apply eqb_str_eq in E3. subst g. unfold get_field.
    destruct (eqb_str f n_patch) eqn:E; [apply eqb_str_eq in E; contradiction|]. reflexivity. }
  destruct (eqb_str g n_num) eqn:E4.
  { apply eqb_str_eq in E4. subst g. unfold get_field.
    destruct (eqb_str f n_num) eqn:E; [apply eqb_str_eq in E; contradiction|]. reflexivity. }
  destruct (eqb_str g n_inc0) eqn:E5.
  { apply eqb_str_eq in E5. subst g. unfold get_field.
    destruct (eqb_str f n_inc0) eqn:E; [apply eqb_str_eq in E; contradiction|]. reflexivity. }
  destruct (eqb_str g n_inc1) eqn:E6.
  { apply eqb_str_eq in E6. subst g. unfold get_field.
    destruct (eqb_str f n_inc1) eqn:E; [apply eqb_str_eq in E; contradiction|]. reflexivity. }
  reflexivity.
Qed.

(* ------------------------------------------------------------------ the reset items as a key set *)
(* what a field reads after the reset: its initial value if it is resettable and lies in L, else
   what it read before *)
Definition reset_read (L : list (list N)) (c : vinfo) (f : list N) : option (option fval) :=
  if mem_str f L && has_key f V2_FIELD_INITIAL_VALUES then Some (Some (FInt (initz f))) else get_field c f.

Lemma has_key_inits : forall f L,
  has_key f (inits L) = mem_str f L && has_key f V2_FIELD_INITIAL_VALUES.
Proof.
  intros f L. induction L as [|x t IH]; [reflexivity|].
  rewrite inits_cons. unfold mem_str. cbn [existsb]. fold (mem_str f t).
  destruct (assoc x V2_FIELD_INITIAL_VALUES) as [i|] eqn:Hx; cbn [app].
  - unfold has_key at 1. cbn [assoc]. destruct (eqb_str f x) eqn:E.
    + apply eqb_str_eq in E. subst x. unfold has_key. rewrite Hx. reflexivity.
    + cbn [orb]. exact IH.
  - rewrite IH. destruct (eqb_str f x) eqn:E; [|reflexivity].
    apply eqb_str_eq in E. subst x. unfold has_key. rewrite Hx.
    rewrite !andb_false_r. reflexivity.
Qed.

(* the first step of _reset_rollover_fields: cur_kwargs[field] = int(value) for every reset item *)
Lemma fold_resets_read : forall L v f,
  get_field (fold_left (fun v '(f, value) => if isdigit value then set_int_field v f (zundec value) else v)
                       (inits L) v) f
  = reset_read L v f.
Proof.
  induction L as [|x t IH]; intros v f; [reflexivity|].
  rewrite inits_cons, fold_left_app, IH. unfold reset_read, mem_str. cbn [existsb]. fold (mem_str f t).
  destruct (assoc x V2_FIELD_INITIAL_VALUES) as [i|] eqn:Hx; cbn [fold_left].
  - destruct (assoc_init_some x i Hx) as [Hin Hd]. rewrite Hd.
    destruct (eqb_str f x) eqn:E.
    + apply eqb_str_eq in E. subst x. cbn [orb].
      rewrite (has_key_init_resettable f Hin), andb_true_r. cbn [andb].
      rewrite (get_set_int_same v f (zundec i) Hin). unfold initz. rewrite Hx.
      destruct (mem_str f t); reflexivity.
    + cbn [orb]. apply eqb_str_neq in E. rewrite (get_set_int_other v f x (zundec i) E). reflexivity.
  - destruct (eqb_str f x) eqn:E; [|reflexivity].
    apply eqb_str_eq in E. subst x. unfold has_key. rewrite Hx. rewrite !andb_false_r. reflexivity.
Qed.

(* the later steps (the explicit major / minor / patch / inc0 / inc1 resets) write the same values again *)
Lemma cond_set_keeps_read : forall L c v g z,
  (forall f, get_field v f = reset_read L c f) -> In g resettable -> z = initz g ->
  forall f, get_field (if mem_str g L && has_key g V2_FIELD_INITIAL_VALUES then set_int_field v g z else v) f
            = reset_read L c f.
Proof.
  intros L c v g z Hv Hg Hz f.
  destruct (mem_str g L && has_key g V2_FIELD_INITIAL_VALUES) eqn:Hb; [|apply Hv].
  destruct (eqb_str f g) eqn:E.
  - apply eqb_str_eq in E. subst g. rewrite (get_set_int_same v f z Hg).
    unfold reset_read. rewrite Hb, Hz. reflexivity.
  - apply eqb_str_neq in E. rewrite (get_set_int_other v f g z E). apply Hv.
Qed.

Lemma in_res_major : In n_major resettable. Proof. rewrite resettable_eq. cbn [In]. tauto. Qed.
Lemma in_res_minor : In n_minor resettable. Proof. rewrite resettable_eq. cbn [In]. tauto. Qed.
Lemma in_res_patch : In n_patch resettable. Proof. rewrite resettable_eq. cbn [In]. tauto. Qed.
Lemma in_res_num : In n_num resettable. Proof. rewrite resettable_eq. cbn [In]. tauto. Qed.
Lemma in_res_inc0 : In n_inc0 resettable. Proof. rewrite resettable_eq. cbn [In]. tauto. Qed.
Lemma in_res_inc1 : In n_inc1 resettable. Proof. rewrite resettable_eq. cbn [In]. tauto. Qed.

Lemma apply_resets_read : forall L c f, get_field (apply_resets (inits L) c) f = reset_read L c f.
Proof.
  intros L c. unfold apply_resets. cbv zeta. rewrite !has_key_inits.
  apply (cond_set_keeps_read L c _ n_inc1 1%Z); [|exact in_res_inc1|reflexivity].
  apply (cond_set_keeps_read L c _ n_inc0 0%Z); [|exact in_res_inc0|reflexivity].
  apply (cond_set_keeps_read L c _ n_patch 0%Z); [|exact in_res_patch|reflexivity].
  apply (cond_set_keeps_read L c _ n_minor 0%Z); [|exact in_res_minor|reflexivity].
  apply (cond_set_keeps_read L c _ n_major 0%Z); [|exact in_res_major|reflexivity].
  intros f. apply fold_resets_read.
Qed.

(* ------------------------------------------------------------------ the rollover reset *)
(* value of a field after the reset step: a resettable field takes its initial value if it lies to
   the right of the first changed part of the pattern and is unchanged otherwise; every other field
   (any string at all) is unchanged *)
Theorem reset_rollover_fields_spec : forall raw fields old c r,
  parse_pattern_fields raw = Some fields -> reset_rollover_fields raw old c = Some r ->
  (forall f, In f resettable ->
     get_field r f =
       if existsb (eqb_str f) (after_first_changed old c fields)
       then Some (Some (FInt (match assoc f V2_FIELD_INITIAL_VALUES with Some i => zundec i | None => 0%Z end)))
       else get_field c f)
  /\ (forall f, ~ In f resettable -> get_field r f = get_field c f).
Proof.
  intros raw fields old c r Hp Hr. rewrite reset_rollover_fields_eq, Hp in Hr.
  injection Hr as Hr. subst r. split; intros f Hf; rewrite apply_resets_read; unfold reset_read.
  - rewrite (has_key_init_resettable f Hf), andb_true_r. reflexivity.
  - rewrite (has_key_init_other f Hf), andb_false_r. reflexivity.
Qed.

(* ------------------------------------------------------------------ the numeric bump, end to end *)
Theorem incr_numeric_spec : forall raw fields old cur fl r,
  parse_pattern_fields raw = Some fields -> incr_numeric raw old cur fl = Some r ->
  exists c, bumped cur fl = Some c
    /\ (forall f, In f resettable ->
          get_field r f =
            if existsb (eqb_str f) (after_first_changed old c fields)
            then Some (Some (FInt (match assoc f V2_FIELD_INITIAL_VALUES with Some i => zundec i | None => 0%Z end)))
            else get_field c f)
    /\ (forall f, ~ In f resettable -> get_field r f = get_field c f).
Proof.
  intros raw fields old cur fl r Hp Hr. rewrite incr_numeric_bumped in Hr.
  destruct (bumped cur fl) as [c|] eqn:HB; [|discriminate Hr].
  exists c. split; [reflexivity|]. exact (reset_rollover_fields_spec raw fields old c r Hp Hr).
Qed.

(* ------------------------------------------------------------------ a computed instance *)
(* MAJOR.MINOR.PATCH with --minor --patch on 1.2.3 (inc0 = 5, inc1 = 6): minor is bumped, patch and
   the increments that do not occur in the pattern keep the values of the bump *)
Example incr_numeric_semver_instance :
  let v := mkv None None None None None None None None None 1%Z 2%Z 3%Z [49;48;48;49] s_final [] [] [] 4%Z 5%Z 6%Z in
  let fl := mkflags false true true None false false false in
  option_map (fun r => (v_major r, v_minor r, v_patch r, v_num r, v_inc0 r, v_inc1 r)) (incr_numeric semver_raw v v fl)
  = Some (1, 3, 0, 4, 6, 7)%Z.
Proof. vm_compute. reflexivity. Qed.

Print Assumptions repo_initial_values.
Print Assumptions reset_rollover_fields_spec.
Print Assumptions incr_numeric_spec.
