(* Call-order facts C09 rests on, over the call orders T1 extracts from the source (translate/t1_calls.py).
   Each states the relative order and multiplicity of exactly the steps that matter for the property;
   steps that do not matter may move without breaking it. *)
From Coq Require Import List NArith Strings.String.
From BV Require Import Lib.PyStr Lib.StrLit Gen.Tables.
Import ListNotations.
Local Open Scope string_scope.

(* in cli.update the tag scope given on the command line is merged before the current version is resolved from the tags, and the increment starts from the resolved version *)
Theorem c09_order_update :
  restrict (lits ["_parse_vcs_options"; "_update_cfg_from_vcs"; "incr_dispatch"]) ORDER_CLI_UPDATE
  = lits ["_parse_vcs_options"; "_update_cfg_from_vcs"; "incr_dispatch"].
Proof. vm_compute. reflexivity. Qed.
