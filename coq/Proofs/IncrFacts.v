(* Facts about v2version.incr (Model/V2.v): rollover resets, the calendar guard, the flag rules on the
   numeric parts, and the outcomes that can never be a new version. *)
From Coq Require Import List Bool NArith ZArith Arith Lia.
From BV Require Import Lib.PyStr Lib.Decimal Lib.Regex Lib.RegexParse Lib.Calendar Model.Lexid Model.V2 Gen.Tables.
Import ListNotations.
Local Open Scope N_scope.

Local Opaque parse_version_info format_version compile_pattern_re normalize_pattern.

(* ------------------------------------------------------------------ small string facts *)
Lemma eqb_str_refl : forall s, eqb_str s s = true.
Proof. induction s as [|x s IH]; [reflexivity|]. cbn [eqb_str]. rewrite N.eqb_refl. exact IH. Qed.

Lemma eqb_str_eq : forall a b, eqb_str a b = true -> a = b.
Proof.
  induction a as [|x a IH]; intros [|y b] H; cbn [eqb_str] in H; try reflexivity; try discriminate H.
  apply andb_prop in H. destruct H as [H1 H2]. apply N.eqb_eq in H1. rewrite H1, (IH b H2). reflexivity.
Qed.

Lemma eqb_str_neq : forall a b, eqb_str a b = false -> a <> b.
Proof. intros a b H E. rewrite E, eqb_str_refl in H. discriminate H. Qed.

(* ------------------------------------------------------------------ rollover resets *)
Definition changed (old cur : vinfo) (f : list N) : bool := negb (eqb_fval (get_field old f) (get_field cur f)).
Definition inits (fs : list (list N)) : list (list N * list N) :=
  flat_map (fun f => match assoc f V2_FIELD_INITIAL_VALUES with Some i => [(f, i)] | None => [] end) fs.
Fixpoint after_first_changed (old cur : vinfo) (fs : list (list N)) : list (list N) :=
  match fs with [] => [] | f :: t => if changed old cur f then t else after_first_changed old cur t end.

Lemma inits_cons : forall f t,
  inits (f :: t) = match assoc f V2_FIELD_INITIAL_VALUES with Some i => [(f, i)] | None => [] end ++ inits t.
Proof. reflexivity. Qed.

Lemma reset_items_true : forall fields old cur, reset_items fields old cur true = inits fields.
Proof.
  induction fields as [|f t IH]; intros old cur; [reflexivity|].
  cbn [reset_items]. rewrite inits_cons.
  destruct (assoc f V2_FIELD_INITIAL_VALUES) as [i|].
  - rewrite IH. reflexivity.
  - cbn [orb app]. apply IH.
Qed.

(* everything resettable to the right of the first changed part is reset, nothing else *)
Theorem reset_items_spec : forall fields old cur,
  reset_items fields old cur false = inits (after_first_changed old cur fields).
Proof.
  induction fields as [|f t IH]; intros old cur; [reflexivity|].
  cbn [reset_items after_first_changed orb]. fold (changed old cur f).
  destruct (assoc f V2_FIELD_INITIAL_VALUES) as [i|];
    (destruct (changed old cur f); [apply reset_items_true|apply IH]).
Qed.

Theorem reset_items_none_changed : forall fields old cur,
  (forall f, In f fields -> changed old cur f = false) -> reset_items fields old cur false = [].
Proof.
  intros fields old cur H. rewrite reset_items_spec.
  induction fields as [|f t IH]; [reflexivity|].
  cbn [after_first_changed]. rewrite (H f (or_introl eq_refl)).
  apply IH. intros g Hg. apply H. right. exact Hg.
Qed.

(* ------------------------------------------------------------------ calendar guard *)
Theorem pin_date_keeps_calendar : forall today v i x,
  nth_error (cal_list v) i = Some (Some x) -> nth_error (ver_to_cal_info today v) i = Some (Some x).
Proof.
  intros today v i x H. unfold ver_to_cal_info, cinfo_of_ord, cal_some, cal_fields.
  generalize (cal_of today); intros c. unfold cal_list in *. cbn [map combine].
  do 9 (destruct i as [|i]; [cbn [nth_error] in *; injection H as H; rewrite H; reflexivity|]).
  cbn [nth_error] in H. destruct i; discriminate H.
Qed.

Theorem pin_date_fills_missing : forall today v i, (i < 9)%nat ->
  nth_error (cal_list v) i = Some None -> nth_error (ver_to_cal_info today v) i = nth_error (cinfo_of_ord today) i.
Proof.
  intros today v i Hi H. unfold ver_to_cal_info, cinfo_of_ord, cal_some, cal_fields.
  generalize (cal_of today); intros c. unfold cal_list in *. cbn [map combine].
  do 9 (destruct i as [|i]; [cbn [nth_error] in *; injection H as H; rewrite H; reflexivity|]).
  exfalso. lia.
Qed.

Lemma zlist_lt_irrefl : forall x, zlist_lt x x = false.
Proof.
  induction x as [|a x IH]; [reflexivity|].
  cbn [zlist_lt]. rewrite Z.ltb_irrefl, Z.eqb_refl, IH. reflexivity.
Qed.

Lemma cal_pairs_diag : forall l, exists x, cal_pairs l l = (x, x).
Proof.
  induction l as [|[a|] l [x E]].
  - exists []. reflexivity.
  - exists (a :: x). cbn [cal_pairs]. rewrite E. reflexivity.
  - exists x. cbn [cal_pairs]. exact E.
Qed.

Theorem is_cal_gt_irrefl : forall l, is_cal_gt l l = false.
Proof.
  intros l. unfold is_cal_gt. destruct (cal_pairs_diag l) as [x E]. rewrite E. apply zlist_lt_irrefl.
Qed.

Lemma cal_list_set_cal : forall v c, length c = 9%nat -> cal_list (set_cal v c) = c.
Proof.
  intros v c H.
  do 9 (destruct c as [|? c]; [discriminate H|]).
  destruct c; [reflexivity|discriminate H].
Qed.

Theorem cal_never_backwards : forall old cur_c,
  let cur := if is_cal_gt (cal_list old) cur_c then old else set_cal old cur_c in
  length cur_c = 9%nat -> is_cal_gt (cal_list old) (cal_list cur) = false.
Proof.
  intros old cur_c cur Hlen. subst cur.
  destruct (is_cal_gt (cal_list old) cur_c) eqn:E.
  - apply is_cal_gt_irrefl.
  - rewrite cal_list_set_cal by exact Hlen. exact E.
Qed.

(* ------------------------------------------------------------------ record updates, as equations *)
Lemma sif_major : forall a b c d e g h i j ma mi pa bid tag pytag gh hh num i0 i1 z,
  set_int_field (mkv a b c d e g h i j ma mi pa bid tag pytag gh hh num i0 i1) n_major z =
  mkv a b c d e g h i j z mi pa bid tag pytag gh hh num i0 i1.
Proof. reflexivity. Qed.
Lemma sif_minor : forall a b c d e g h i j ma mi pa bid tag pytag gh hh num i0 i1 z,
  set_int_field (mkv a b c d e g h i j ma mi pa bid tag pytag gh hh num i0 i1) n_minor z =
  mkv a b c d e g h i j ma z pa bid tag pytag gh hh num i0 i1.
Proof. reflexivity. Qed.
Lemma sif_patch : forall a b c d e g h i j ma mi pa bid tag pytag gh hh num i0 i1 z,
  set_int_field (mkv a b c d e g h i j ma mi pa bid tag pytag gh hh num i0 i1) n_patch z =
  mkv a b c d e g h i j ma mi z bid tag pytag gh hh num i0 i1.
Proof. reflexivity. Qed.
Lemma sif_num : forall a b c d e g h i j ma mi pa bid tag pytag gh hh num i0 i1 z,
  set_int_field (mkv a b c d e g h i j ma mi pa bid tag pytag gh hh num i0 i1) n_num z =
  mkv a b c d e g h i j ma mi pa bid tag pytag gh hh z i0 i1.
Proof. reflexivity. Qed.
Lemma sif_inc0 : forall a b c d e g h i j ma mi pa bid tag pytag gh hh num i0 i1 z,
  set_int_field (mkv a b c d e g h i j ma mi pa bid tag pytag gh hh num i0 i1) n_inc0 z =
  mkv a b c d e g h i j ma mi pa bid tag pytag gh hh num z i1.
Proof. reflexivity. Qed.
Lemma sif_inc1 : forall a b c d e g h i j ma mi pa bid tag pytag gh hh num i0 i1 z,
  set_int_field (mkv a b c d e g h i j ma mi pa bid tag pytag gh hh num i0 i1) n_inc1 z =
  mkv a b c d e g h i j ma mi pa bid tag pytag gh hh num i0 z.
Proof. reflexivity. Qed.
Lemma with_tag_eq : forall a b c d e g h i j ma mi pa bid tag pytag gh hh num i0 i1 t p,
  with_tag (mkv a b c d e g h i j ma mi pa bid tag pytag gh hh num i0 i1) t p =
  mkv a b c d e g h i j ma mi pa bid t p gh hh num i0 i1.
Proof. reflexivity. Qed.
Lemma with_bid_eq : forall a b c d e g h i j ma mi pa bid tag pytag gh hh num i0 i1 b',
  with_bid (mkv a b c d e g h i j ma mi pa bid tag pytag gh hh num i0 i1) b' =
  mkv a b c d e g h i j ma mi pa b' tag pytag gh hh num i0 i1.
Proof. reflexivity. Qed.

Ltac proj := cbn [v_year_y v_year_g v_quarter v_month v_dom v_doy v_week_w v_week_u v_week_v v_major v_minor v_patch
                  v_bid v_tag v_pytag v_githash v_hexhash v_num v_inc0 v_inc1].
Ltac upd := repeat (progress (rewrite ?sif_major, ?sif_minor, ?sif_patch, ?sif_num, ?sif_inc0, ?sif_inc1,
                                      ?with_tag_eq, ?with_bid_eq; proj)).

(* ------------------------------------------------------------------ _incr_numeric = bump, then rollover reset *)
(* the record handed to _reset_rollover_fields; None = KeyError on the tag table / OverflowError from lexid *)
Definition bumped (cur : vinfo) (fl : flags) : option vinfo :=
  let c1 := if f_major fl then set_int_field cur n_major (v_major cur + 1)%Z else cur in
  let c2 := if f_minor fl then set_int_field c1 n_minor (v_minor c1 + 1)%Z else c1 in
  let c3 := if f_patch fl then set_int_field c2 n_patch (v_patch c2 + 1)%Z else c2 in
  let c4 := if f_tag_num fl then set_int_field c3 n_num (v_num c3 + 1)%Z else c3 in
  let c5o := match f_tag fl with
             | Some (tc :: tl_) =>
                 let tag := tc :: tl_ in
                 let c := if negb (eqb_str tag (v_tag c4)) then set_int_field c4 n_num 0%Z else c4 in
                 match assoc tag PEP440_TAG_BY_TAG with
                 | Some pytag => Some (with_tag c tag pytag)
                 | None => None
                 end
             | _ => Some c4
             end in
  match c5o with
  | None => None
  | Some c5 =>
      let c6 := if f_pin_increments fl then c5
                else set_int_field (set_int_field c5 n_inc0 (v_inc0 c5 + 1)%Z) n_inc1 (v_inc1 c5 + 1)%Z in
      match bump_bid (v_bid c6) with
      | None => None
      | Some b => Some (with_bid c6 b)
      end
  end.

Theorem incr_numeric_bumped : forall raw old cur fl,
  incr_numeric raw old cur fl =
  match bumped cur fl with None => None | Some c => reset_rollover_fields raw old c end.
Proof.
  intros raw old cur fl. unfold incr_numeric, bumped. cbv zeta.
  destruct (f_tag fl) as [[|x t]|].
  - destruct (bump_bid _); reflexivity.
  - destruct (assoc (x :: t) PEP440_TAG_BY_TAG); [|reflexivity]. destruct (bump_bid _); reflexivity.
  - destruct (bump_bid _); reflexivity.
Qed.

(* the flag rules on the numeric parts, before the rollover reset *)
Theorem bumped_fields : forall cur fl c, bumped cur fl = Some c ->
  v_major c = (if f_major fl then v_major cur + 1 else v_major cur)%Z
  /\ v_minor c = (if f_minor fl then v_minor cur + 1 else v_minor cur)%Z
  /\ v_patch c = (if f_patch fl then v_patch cur + 1 else v_patch cur)%Z
  /\ v_inc0 c = (if f_pin_increments fl then v_inc0 cur else v_inc0 cur + 1)%Z
  /\ v_inc1 c = (if f_pin_increments fl then v_inc1 cur else v_inc1 cur + 1)%Z
  /\ v_num c = (match f_tag fl with
                | Some (x :: t) => if eqb_str (x :: t) (v_tag cur)
                                   then (if f_tag_num fl then v_num cur + 1 else v_num cur) else 0
                | _ => if f_tag_num fl then v_num cur + 1 else v_num cur
                end)%Z
  /\ v_tag c = (match f_tag fl with Some (x :: t) => x :: t | _ => v_tag cur end)
  /\ (match f_tag fl with
      | Some (x :: t) => assoc (x :: t) PEP440_TAG_BY_TAG = Some (v_pytag c)
      | _ => v_pytag c = v_pytag cur
      end)
  /\ bump_bid (v_bid cur) = Some (v_bid c)
  /\ cal_list c = cal_list cur
  /\ v_githash c = v_githash cur /\ v_hexhash c = v_hexhash cur.
Proof.
  intros cur fl c. unfold bumped. cbv zeta.
  destruct cur as [a b c' d e g h i j ma mi pa bid tag pytag gh hh num i0 i1].
  destruct fl as [fm fi fp ft ftn fpi fpd]. cbn [f_major f_minor f_patch f_tag f_tag_num f_pin_increments f_pin_date].
  destruct fm, fi, fp, ftn, fpi; upd;
    (destruct ft as [[|x t]|];
     [ | destruct (eqb_str (x :: t) tag) eqn:HE; cbn [negb]; upd;
         (destruct (assoc (x :: t) PEP440_TAG_BY_TAG) as [py|] eqn:HA; [|intros H; discriminate H]) | ];
     upd;
     (destruct (bump_bid bid) as [b'|] eqn:HB; [|intros H; discriminate H]);
     intros H; injection H as H; subst c; unfold cal_list; proj;
     repeat split; reflexivity).
Qed.

(* ------------------------------------------------------------------ the rollover reset, as a function of the reset items *)
Definition apply_resets (rf : list (list N * list N)) (cur : vinfo) : vinfo :=
  let c1 := fold_left (fun v '(f, value) => if isdigit value then set_int_field v f (zundec value) else v) rf cur in
  let c2 := if has_key n_major rf then set_int_field c1 n_major 0%Z else c1 in
  let c3 := if has_key n_minor rf then set_int_field c2 n_minor 0%Z else c2 in
  let c4 := if has_key n_patch rf then set_int_field c3 n_patch 0%Z else c3 in
  let c5 := if has_key n_inc0 rf then set_int_field c4 n_inc0 0%Z else c4 in
  let c6 := if has_key n_inc1 rf then set_int_field c5 n_inc1 1%Z else c5 in
  c6.

Lemma reset_rollover_fields_eq : forall raw old cur,
  reset_rollover_fields raw old cur =
  match parse_pattern_fields raw with
  | None => None
  | Some fields => Some (apply_resets (inits (after_first_changed old cur fields)) cur)
  end.
Proof.
  intros raw old cur. unfold reset_rollover_fields.
  destruct (parse_pattern_fields raw) as [fields|]; [|reflexivity].
  rewrite reset_items_spec. reflexivity.
Qed.

Lemma gf_major : forall v, get_field v n_major = Some (Some (FInt (v_major v))).
Proof. reflexivity. Qed.
Lemma gf_minor : forall v, get_field v n_minor = Some (Some (FInt (v_minor v))).
Proof. reflexivity. Qed.
Lemma gf_patch : forall v, get_field v n_patch = Some (Some (FInt (v_patch v))).
Proof. reflexivity. Qed.

(* ------------------------------------------------------------------ SemVer table of the README: MAJOR.MINOR.PATCH *)
Definition semver_raw : list N := [77;65;74;79;82;46;77;73;78;79;82;46;80;65;84;67;72].

Lemma ppf_semver : parse_pattern_fields semver_raw = Some [n_major; n_minor; n_patch].
Proof. vm_compute. reflexivity. Qed.

Lemma resets_minor_patch : forall c, let r := apply_resets (inits [n_minor; n_patch]) c in
  v_major r = v_major c /\ v_minor r = 0%Z /\ v_patch r = 0%Z.
Proof. intros []. vm_compute. auto. Qed.
Lemma resets_patch : forall c, let r := apply_resets (inits [n_patch]) c in
  v_major r = v_major c /\ v_minor r = v_minor c /\ v_patch r = 0%Z.
Proof. intros []. vm_compute. auto. Qed.
Lemma resets_nil : forall c, apply_resets (inits []) c = c.
Proof. intros []. reflexivity. Qed.

Lemma zeqb_succ : forall x : Z, (x =? x + 1)%Z = false.
Proof. intros x. apply Z.eqb_neq. lia. Qed.

Theorem semver_rules :
  let raw := [77;65;74;79;82;46;77;73;78;79;82;46;80;65;84;67;72]%N in
  forall old fl c,
  f_tag fl = None -> f_tag_num fl = false -> incr_numeric raw old old fl = Some c ->
  (v_major c, v_minor c, v_patch c) =
    (if f_major fl then (v_major old + 1, 0, 0)
     else if f_minor fl then (v_major old, v_minor old + 1, 0)
     else if f_patch fl then (v_major old, v_minor old, v_patch old + 1)
     else (v_major old, v_minor old, v_patch old))%Z.
Proof.
  intros raw old fl c _ _ H. change raw with semver_raw in H. clear raw.
  rewrite incr_numeric_bumped in H.
  destruct (bumped old fl) as [c0|] eqn:HB; [|discriminate H].
  destruct (bumped_fields _ _ _ HB) as (Hma & Hmi & Hpa & _).
  rewrite reset_rollover_fields_eq, ppf_semver in H.
  assert (Hc : c = apply_resets (inits (after_first_changed old c0 [n_major; n_minor; n_patch])) c0) by congruence.
  clear H. subst c.
  cbn [after_first_changed]. unfold changed. rewrite !gf_major, !gf_minor, !gf_patch. cbn [eqb_fval].
  rewrite Hma, Hmi, Hpa.
  destruct (f_major fl).
  { rewrite zeqb_succ. cbn [negb]. destruct (resets_minor_patch c0) as (E1 & E2 & E3).
    rewrite E1, E2, E3, Hma. reflexivity. }
  rewrite Z.eqb_refl. cbn [negb].
  destruct (f_minor fl).
  { rewrite zeqb_succ. cbn [negb]. destruct (resets_patch c0) as (E1 & E2 & E3).
    rewrite E1, E2, E3, Hma, Hmi. reflexivity. }
  rewrite Z.eqb_refl. cbn [negb].
  destruct (f_patch fl).
  { rewrite zeqb_succ. cbn [negb]. rewrite resets_nil, Hma, Hmi, Hpa. reflexivity. }
  rewrite Z.eqb_refl. cbn [negb]. rewrite resets_nil, Hma, Hmi, Hpa. reflexivity.
Qed.

(* ------------------------------------------------------------------ incr: outcomes that are never a new version *)
(* --tag-num needs a non-final effective tag *)
Theorem tag_num_needs_tag : forall today old raw fl d, f_tag_num fl = true ->
  (match f_tag fl with
   | Some (x :: t) => eqb_str (x :: t) s_final = true
   | _ => forall v, parse_version_info today old raw = POk v ->
          eqb_str (v_tag (if is_cal_gt (cal_list v) (if f_pin_date fl then ver_to_cal_info today v else cinfo_of_ord d)
                          then v
                          else set_cal v (if f_pin_date fl then ver_to_cal_info today v else cinfo_of_ord d))) s_final = true
   end) ->
  forall s, incr today old raw fl d <> INew s.
Proof.
  intros today old raw fl d Htn Hc s. unfold incr.
  destruct (negb (is_valid_week_pattern raw)); [intros H; discriminate H|].
  destruct (parse_version_info today old raw) as [v| | |] eqn:HP; [|intros H; discriminate H..].
  cbv zeta. rewrite Htn. cbn [andb].
  assert (E : eqb_str (match f_tag fl with
                       | Some (c :: t) => c :: t
                       | _ => v_tag (if is_cal_gt (cal_list v) (if f_pin_date fl then ver_to_cal_info today v else cinfo_of_ord d)
                                     then v
                                     else set_cal v (if f_pin_date fl then ver_to_cal_info today v else cinfo_of_ord d))
                       end) s_final = true).
  { destruct (f_tag fl) as [[|x t]|]; [exact (Hc v eq_refl)|exact Hc|exact (Hc v eq_refl)]. }
  rewrite E. cbn [negb]. intros H; discriminate H.
Qed.

Theorem incr_changes_version : forall today old raw fl d s, incr today old raw fl d = INew s -> s <> old /\ s <> [].
Proof.
  intros today old raw fl d s. unfold incr.
  destruct (negb (is_valid_week_pattern raw)); [intros H; discriminate H|].
  destruct (parse_version_info today old raw) as [v| | |] eqn:HP; [|intros H; discriminate H..].
  cbv zeta.
  match goal with |- (if ?b then _ else _) = _ -> _ => destruct b end; [intros H; discriminate H|].
  match goal with |- context [incr_numeric ?a ?b ?c ?e] => destruct (incr_numeric a b c e) as [nv|] end;
    [|intros H; discriminate H].
  destruct (format_version nv raw) as [[|c s']|]; [intros H; discriminate H| |intros H; discriminate H].
  destruct (eqb_str (c :: s') old) eqn:E; intros H; [discriminate H|].
  assert (Hs : s = c :: s') by congruence. subst s.
  split; [apply eqb_str_neq; exact E|intros H0; discriminate H0].
Qed.

Theorem incr_rejects_bad_week_pattern : forall today old raw fl d,
  is_valid_week_pattern raw = false -> incr today old raw fl d = INone.
Proof. intros today old raw fl d H. unfold incr. rewrite H. reflexivity. Qed.
