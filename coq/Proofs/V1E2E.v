(* End-to-end theorems for the two documented LEGACY composites {semver} and {pycalver}, through the
   command model test_cmd of Model/CliAll.v (flag validation, engine dispatch has_v1_part, the legacy
   engine v1_incr of Model/V1.v, the gate is_valid_version for legacy patterns, to_pep440).

   (A) {semver}: for ALL numbers a.b.c and every combination of --major / --minor / --patch
       (--pin-increments free, with or without --date) the command prints the bumped version, its
       PEP 440 form is the same text, and it is strictly greater.  The legacy engine applies the three
       flags ONE AFTER THE OTHER (sv1_next): --major --minor on 1.2.3 gives 2.1.0, where the v2 engine
       (Proofs/SemverE2E.v semver_next) gives 2.0.0; with exactly one flag both agree and give the
       documented bump.  Without a part flag the command fails (nothing changes).

   (B) {pycalver}: versions v<year><month>.<build>[-tag], year 1000..9999 (the legacy regex wants
       exactly four digits; a four digit text below 0100 would be moved into the 2000s, see
       Proofs/V1Facts.v v1_pycalver_year0099), month 01..12, build a digit string of at least FOUR
       digits (the legacy build part is [0-9]{4,}), tag one of alpha beta rc post dev or none (final).
       For every date 0001-01-01..9999-12-31 the command prints
           v<year'><month'>.<next_id build>[-tag']
       where (year', month') is the month of the date unless the old version lies in the future of the
       date (then it is kept), tag' is the old tag, or T when --tag T is given (T any of the six values
       the command line accepts; final = no suffix).  The new version is strictly greater under PEP 440
       for every pair of tags.  --major --minor --patch --pin-increments are ignored by this pattern.
       The only failure is a build of nines only (lexid overflow).

       The build is advanced by lexid.next_id DIRECTLY: the legacy engine has no widening step, unlike
       the v2 engine (Model/Lexid.v bump_bid adds 1000 to a build below 1000 first).  So
           0042 -> 0043 (v2 engine: 1043),  0000 -> 0001,  0999 -> 11000,  1999 -> 22000,  9999 -> error;
       the two engines agree exactly when the build number is at least 1000 (next_id_is_bump_bid).

   Nothing is computed on samples except the Examples at the end, which run the model itself on the
   instances named in the text above. *)
From Coq Require Import List Bool NArith ZArith Arith Lia.
From BV Require Import Lib.PyStr Lib.Decimal Lib.Types Lib.Regex Lib.RegexParse Lib.Calendar Model.Lexid Gen.Tables
  Model.V2 Model.Pep440 Model.Cli Model.V1 Model.CliAll.
From BV Require Import Proofs.DecimalFacts Proofs.Pep440Facts Proofs.DottedFacts Proofs.LexidFacts Proofs.V1Facts.
From BV Require Proofs.SemverE2E Proofs.SemverTagE2E Proofs.CalverE2E Proofs.Pep440VersionE2E Proofs.CalverTagE2E.
Import ListNotations.
Local Open Scope N_scope.

Module SE := BV.Proofs.SemverE2E.
Module ST := BV.Proofs.SemverTagE2E.
Module CV := BV.Proofs.CalverE2E.
Module PE := BV.Proofs.Pep440VersionE2E.
Module CT := BV.Proofs.CalverTagE2E.

(* ------------------------------------------------------------------ closed facts about the two patterns *)
Lemma v1part_semver : has_v1_part P_semver = true.
Proof. vm_compute. reflexivity. Qed.
Lemma v1part_pycalver : has_v1_part P_pycalver = true.
Proof. vm_compute. reflexivity. Qed.
Lemma old_style_semver : is_new_pattern P_semver = false.
Proof. reflexivity. Qed.
Lemma old_style_pycalver : is_new_pattern P_pycalver = false.
Proof. reflexivity. Qed.
(* cli._validate_flags only looks at new style patterns *)
Lemma validate_flags_semver fl : validate_flags P_semver fl = true.
Proof. reflexivity. Qed.
Lemma validate_flags_pycalver fl : validate_flags P_pycalver fl = true.
Proof. reflexivity. Qed.
Lemma next_id_0001 : next_id [48;48;48;49] = Some [48;48;48;50].
Proof. vm_compute. reflexivity. Qed.

(* ------------------------------------------------------------------ v1version.incr, restated *)
(* the record after the build id, the part flags and --tag have been applied *)
Definition v1_step (fl : flags) (cur : v1info) (b : list N) : v1info :=
  let c0 := mkv1 (w_year cur) (w_quarter cur) (w_month cur) (w_dom cur) (w_doy cur) (w_iso_week cur) (w_us_week cur)
                 (w_major cur) (w_minor cur) (w_patch cur) b (w_tag cur) in
  let upd (v : v1info) ma mi pa := mkv1 (w_year v) (w_quarter v) (w_month v) (w_dom v) (w_doy v) (w_iso_week v) (w_us_week v) ma mi pa (w_bid v) (w_tag v) in
  let c1 := if f_major fl then upd c0 (w_major c0 + 1)%Z 0%Z 0%Z else c0 in
  let c2 := if f_minor fl then upd c1 (w_major c1) (w_minor c1 + 1)%Z 0%Z else c1 in
  let c3 := if f_patch fl then upd c2 (w_major c2) (w_minor c2) (w_patch c2 + 1)%Z else c2 in
  match f_tag fl with
  | Some (x :: t) => mkv1 (w_year c3) (w_quarter c3) (w_month c3) (w_dom c3) (w_doy c3) (w_iso_week c3) (w_us_week c3)
                          (w_major c3) (w_minor c3) (w_patch c3) (w_bid c3) (x :: t)
  | _ => c3
  end.

(* the calendar step: the date's calendar unless the old version lies in the future of it *)
Definition v1_cur (old : v1info) (fl : flags) (date : Z) : v1info :=
  let cur_c := if f_pin_date fl then v1_cal_list old else v1_cal_of date in
  if is_cal_gt (v1_cal_list old) cur_c then old else v1_set_cal old cur_c.

(* The body of v1_incr is a chain of let-bound records that refer to each other many times; the kernel
   compares such terms by expanding them, so the unfolding is done exactly ONCE, here (the proof term is
   eq_refl; exact_no_check only skips the redundant pre-check by the tactic engine, Qed checks it), and
   v1_incr is opaque from here on. *)
Lemma v1_incr_eq0 old_version raw fl date :
  v1_incr old_version raw fl date =
  match v1_parse_version_info old_version raw with
  | PErr => INone
  | PValueErr | PCrash => ICrash
  | POk old =>
    match next_id (w_bid (v1_cur old fl date)) with
    | None => ICrash
    | Some b =>
      if f_tag_num fl then ICrash else
      match v1_format_version (v1_step fl (v1_cur old fl date) b) raw with
      | None => ICrash
      | Some s => if eqb_str s old_version then INone else INew s
      end
    end
  end.
Proof. exact_no_check (eq_refl (v1_incr old_version raw fl date)). Qed.

Local Opaque v1_incr.

Lemma v1_incr_eq old_version raw fl date old :
  v1_parse_version_info old_version raw = POk old ->
  v1_incr old_version raw fl date =
  match next_id (w_bid (v1_cur old fl date)) with
  | None => ICrash
  | Some b =>
      if f_tag_num fl then ICrash else
      match v1_format_version (v1_step fl (v1_cur old fl date) b) raw with
      | None => ICrash
      | Some s => if eqb_str s old_version then INone else INew s
      end
  end.
Proof. intros H. rewrite v1_incr_eq0, H. reflexivity. Qed.

(* the calendar step touches the calendar fields only *)
Lemma set_cal_rest v c :
  w_major (v1_set_cal v c) = w_major v /\ w_minor (v1_set_cal v c) = w_minor v /\ w_patch (v1_set_cal v c) = w_patch v
  /\ w_bid (v1_set_cal v c) = w_bid v /\ w_tag (v1_set_cal v c) = w_tag v.
Proof.
  destruct c as [|a [|b [|c' [|d [|e [|g [|h [|i r]]]]]]]]; repeat split; reflexivity.
Qed.
Lemma v1_cur_rest old fl date :
  w_major (v1_cur old fl date) = w_major old /\ w_minor (v1_cur old fl date) = w_minor old
  /\ w_patch (v1_cur old fl date) = w_patch old /\ w_bid (v1_cur old fl date) = w_bid old
  /\ w_tag (v1_cur old fl date) = w_tag old.
Proof.
  unfold v1_cur. cbv zeta.
  destruct (is_cal_gt (v1_cal_list old) (if f_pin_date fl then v1_cal_list old else v1_cal_of date)).
  - repeat split; reflexivity.
  - apply set_cal_rest.
Qed.

(* what the flags do to the fields that the two patterns show.  ft is the abstract reading of --tag
   (Proofs/SemverTagE2E.v): None = not given, Some None = --tag final, Some (Some p) = --tag <name of p> *)
Lemma step_fields fl ft cur b : f_tag fl = option_map ST.ltext ft ->
  w_year (v1_step fl cur b) = w_year cur /\ w_month (v1_step fl cur b) = w_month cur /\ w_bid (v1_step fl cur b) = b
  /\ w_tag (v1_step fl cur b) = match ft with Some T => ST.ltext T | None => w_tag cur end.
Proof.
  destruct fl as [fm fi fp ftg ftn fpi fpd]. cbn [f_tag]. intros ->.
  destruct fm, fi, fp; destruct ft as [[[]|]|]; repeat split; reflexivity.
Qed.

(* ================================================================== (A) {semver} *)
(* the three flags one after the other, as v1version.incr applies them *)
Definition sv1_next (fl : flags) (a b c : N) : list N :=
  let '(a1, b1, c1) := if f_major fl then (a + 1, 0, 0) else (a, b, c) in
  let '(a2, b2, c2) := if f_minor fl then (a1, b1 + 1, 0) else (a1, b1, c1) in
  if f_patch fl then [a2; b2; c2 + 1] else [a2; b2; c2].

Definition part_flag (fl : flags) : bool := f_major fl || f_minor fl || f_patch fl.
(* exactly one of --major --minor --patch *)
Definition one_part_flag (fl : flags) : bool :=
  match f_major fl, f_minor fl, f_patch fl with
  | true, false, false | false, true, false | false, false, true => true
  | _, _, _ => false
  end.

(* with exactly one flag: the documented bump (the flagged part + 1, the parts to its right 0) *)
Lemma sv1_next_one fl a b c : one_part_flag fl = true ->
  sv1_next fl a b c = (if f_major fl then [a + 1; 0; 0] else if f_minor fl then [a; b + 1; 0] else [a; b; c + 1])
  /\ sv1_next fl a b c = SE.semver_next fl a b c.
Proof.
  unfold one_part_flag, sv1_next, SE.semver_next.
  destruct (f_major fl), (f_minor fl), (f_patch fl); intros H; try discriminate H; split; reflexivity.
Qed.
(* with several flags the legacy engine and the v2 engine differ: --major --minor *)
Example sv1_next_major_minor :
  sv1_next (mkflags true true false None false false false) 1 2 3 = [2; 1; 0]
  /\ SE.semver_next (mkflags true true false None false false false) 1 2 3 = [2; 0; 0].
Proof. split; reflexivity. Qed.

Lemma sv1_next_shape fl a b c : exists a' b' c', sv1_next fl a b c = [a'; b'; c'].
Proof. unfold sv1_next. destruct (f_major fl), (f_minor fl), (f_patch fl); do 3 eexists; reflexivity. Qed.

Lemma sv1_next_noflag fl a b c : part_flag fl = false -> sv1_next fl a b c = [a; b; c].
Proof.
  unfold part_flag, sv1_next. destruct (f_major fl), (f_minor fl), (f_patch fl); intros H; try discriminate H. reflexivity.
Qed.

Lemma sv1_next_gt fl a b c : part_flag fl = true ->
  cmp_list N.compare (sv1_next fl a b c) [a; b; c] = Gt /\ cmp_list N.compare [a; b; c] (sv1_next fl a b c) = Lt.
Proof.
  intros H. unfold part_flag in H. unfold sv1_next.
  assert (G : forall x, N.compare (x + 1) x = Gt) by (intros x; apply N.compare_gt_iff; lia).
  assert (Lx : forall x, N.compare x (x + 1) = Lt) by (intros x; apply N.compare_lt_iff; lia).
  destruct (f_major fl), (f_minor fl), (f_patch fl); try discriminate H;
    cbn [cmp_list]; rewrite ?N.compare_refl, ?G, ?Lx; split; reflexivity.
Qed.

Lemma to_N_succ n : Z.to_N (Z.of_N n + 1) = n + 1.
Proof. lia. Qed.

Lemma semver_step_render fl cur bid a b c :
  f_tag fl = None -> w_tag cur = s_final ->
  w_major cur = Z.of_N a -> w_minor cur = Z.of_N b -> w_patch cur = Z.of_N c ->
  v1_format_version (v1_step fl cur bid) P_semver = Some (dotted (sv1_next fl a b c)).
Proof.
  intros Ht Hf Ha Hb Hc. destruct fl as [fm fi fp ftg ftn fpi fpd]. cbn [f_tag] in Ht. subst ftg.
  destruct cur as [y q m d j iw uw ma mi pa bd tg]. cbn [w_tag w_major w_minor w_patch] in Hf, Ha, Hb, Hc. subst tg ma mi pa.
  destruct fm, fi, fp; (rewrite semver_render_raw; [|reflexivity]);
    cbv beta iota zeta delta [v1_step sv1_next f_major f_minor f_patch f_tag w_year w_quarter w_month w_dom w_doy
      w_iso_week w_us_week w_major w_minor w_patch w_bid w_tag];
    unfold zdec; rewrite ?to_N_succ, ?N2Z.id, app_nil_r; reflexivity.
Qed.

Lemma ne3 (a b c : N) : [a; b; c] <> [].
Proof. intros Q; discriminate Q. Qed.

Lemma dotted_text a b c : dotted [a; b; c] = dec a ++ [46] ++ dec b ++ [46] ++ dec c.
Proof. reflexivity. Qed.

Local Opaque v1_parse_version_info v1_format_version.

(* v1version.incr on {semver} *)
Theorem v1_semver_incr : forall date fl a b c, SE.only_part_flags fl ->
  v1_incr (dotted [a; b; c]) P_semver fl date =
  if part_flag fl then INew (dotted (sv1_next fl a b c)) else INone.
Proof.
  intros date fl a b c (Ht & Htn & Hpd).
  pose proof (v1_incr_eq _ _ fl date _ (v1_semver_parse_exact a b c)) as E.
  rewrite <- (dotted_text a b c) in E. rewrite E. clear E.
  set (old := mkv1 None None None None None None None (Z.of_N a) (Z.of_N b) (Z.of_N c) [48;48;48;49] s_final).
  destruct (v1_cur_rest old fl date) as (E1 & E2 & E3 & E4 & E5).
  rewrite E4. change (w_bid old) with [48;48;48;49]. rewrite next_id_0001, Htn.
  rewrite (semver_step_render fl (v1_cur old fl date) [48;48;48;50] a b c Ht E5 E1 E2 E3).
  destruct (part_flag fl) eqn:Hp.
  - destruct (eqb_str (dotted (sv1_next fl a b c)) (dotted [a; b; c])) eqn:Q; [|reflexivity].
    exfalso. apply eqb_str_true in Q. destruct (sv1_next_shape fl a b c) as (a' & b' & c' & En).
    destruct (sv1_next_gt fl a b c Hp) as [HG _]. rewrite En in Q, HG.
    apply SE.dotted_inj in Q; [|apply ne3|apply ne3]. rewrite Q in HG.
    cbn [cmp_list] in HG. rewrite !N.compare_refl in HG. discriminate HG.
  - rewrite (sv1_next_noflag fl a b c Hp), eqb_str_same. reflexivity.
Qed.

Local Opaque parse_pep440 version_key ver_le ver_lt to_pep440.

Lemma semver_gate today a b c a' b' c' : cmp_list N.compare [a'; b'; c'] [a; b; c] = Gt ->
  is_valid_version today P_semver (dotted [a; b; c]) (dotted [a'; b'; c']) = GateOk.
Proof.
  intros HG. unfold is_valid_version. rewrite old_style_semver.
  rewrite (dotted_text a' b' c'), (v1_semver_parse_exact a' b' c'), <- (dotted_text a' b' c').
  rewrite (ver_le_dotted [a'; b'; c'] [a; b; c] (ne3 _ _ _) (ne3 _ _ _) eq_refl), HG. reflexivity.
Qed.

(* the command, for every combination of the part flags with at least one of them *)
Theorem v1_semver_test_cmd : forall today fl a b c d, SE.only_part_flags fl -> part_flag fl = true ->
  let new := dotted (sv1_next fl a b c) in
  test_cmd today (dotted [a; b; c]) P_semver fl (option_map Some d) None = Exit0 new (to_pep440 new)
  /\ to_pep440 new = new
  /\ ver_lt (dotted [a; b; c]) new = true.
Proof.
  intros today fl a b c d Hfl Hp new. pose proof Hfl as (Ht & Htn & Hpd).
  destruct (sv1_next_shape fl a b c) as (a' & b' & c' & En).
  destruct (sv1_next_gt fl a b c Hp) as (HG & HL). rewrite En in HG, HL.
  assert (Hpep : to_pep440 new = new) by (unfold new; rewrite En; apply (SE.to_pep440_dotted [a'; b'; c'] (ne3 _ _ _))).
  assert (Hlt : ver_lt (dotted [a; b; c]) new = true).
  { unfold new. rewrite En, (ver_lt_dotted [a; b; c] [a'; b'; c'] (ne3 _ _ _) (ne3 _ _ _) eq_refl), HL. reflexivity. }
  split; [|split; [exact Hpep|exact Hlt]].
  unfold test_cmd. rewrite Ht. cbn [validate_release_tag negb].
  rewrite validate_flags_semver. cbn [negb]. rewrite Hpd, andb_false_r.
  unfold incr_dispatch. rewrite v1part_semver.
  assert (Hin : forall dd, v1_incr (dotted [a; b; c]) P_semver fl dd = INew new).
  { intros dd. rewrite (v1_semver_incr dd fl a b c Hfl), Hp. reflexivity. }
  assert (Hg : is_valid_version today P_semver (dotted [a; b; c]) new = GateOk).
  { unfold new. rewrite En. apply semver_gate. exact HG. }
  destruct d as [z|]; cbn [option_map]; rewrite Hin, Hg; reflexivity.
Qed.

(* exactly one flag: the documented bump *)
Theorem v1_semver_e2e : forall today fl a b c d, SE.only_part_flags fl -> one_part_flag fl = true ->
  let new := dotted (if f_major fl then [a + 1; 0; 0] else if f_minor fl then [a; b + 1; 0] else [a; b; c + 1]) in
  test_cmd today (dotted [a; b; c]) P_semver fl (option_map Some d) None = Exit0 new (to_pep440 new)
  /\ to_pep440 new = new
  /\ ver_lt (dotted [a; b; c]) new = true
  /\ new = dotted (SE.semver_next fl a b c).
Proof.
  intros today fl a b c d Hfl H1 new.
  assert (Hp : part_flag fl = true).
  { unfold one_part_flag in H1. unfold part_flag. destruct (f_major fl), (f_minor fl), (f_patch fl); try discriminate H1; reflexivity. }
  destruct (sv1_next_one fl a b c H1) as [E1 E2].
  destruct (v1_semver_test_cmd today fl a b c d Hfl Hp) as (C1 & C2 & C3).
  cbv zeta in C1, C2, C3. unfold new. rewrite <- E1.
  split; [exact C1|]. split; [exact C2|]. split; [exact C3|]. rewrite E2. reflexivity.
Qed.

(* the three flags spelled out: 1.2.3 -> 2.0.0, 1.3.0, 1.2.4 for all numbers *)
Corollary v1_semver_major : forall today a b c d pin,
  test_cmd today (dotted [a; b; c]) P_semver (mkflags true false false None false pin false) (option_map Some d) None
    = Exit0 (dotted [a + 1; 0; 0]) (dotted [a + 1; 0; 0])
  /\ ver_lt (dotted [a; b; c]) (dotted [a + 1; 0; 0]) = true.
Proof.
  intros today a b c d pin.
  destruct (v1_semver_e2e today (mkflags true false false None false pin false) a b c d
              (conj eq_refl (conj eq_refl eq_refl)) eq_refl) as (C1 & C2 & C3 & _).
  cbv zeta in C1, C2, C3. cbn [f_major f_minor] in C1, C2, C3. rewrite C2 in C1. split; assumption.
Qed.
Corollary v1_semver_minor : forall today a b c d pin,
  test_cmd today (dotted [a; b; c]) P_semver (mkflags false true false None false pin false) (option_map Some d) None
    = Exit0 (dotted [a; b + 1; 0]) (dotted [a; b + 1; 0])
  /\ ver_lt (dotted [a; b; c]) (dotted [a; b + 1; 0]) = true.
Proof.
  intros today a b c d pin.
  destruct (v1_semver_e2e today (mkflags false true false None false pin false) a b c d
              (conj eq_refl (conj eq_refl eq_refl)) eq_refl) as (C1 & C2 & C3 & _).
  cbv zeta in C1, C2, C3. cbn [f_major f_minor] in C1, C2, C3. rewrite C2 in C1. split; assumption.
Qed.
Corollary v1_semver_patch : forall today a b c d pin,
  test_cmd today (dotted [a; b; c]) P_semver (mkflags false false true None false pin false) (option_map Some d) None
    = Exit0 (dotted [a; b; c + 1]) (dotted [a; b; c + 1])
  /\ ver_lt (dotted [a; b; c]) (dotted [a; b; c + 1]) = true.
Proof.
  intros today a b c d pin.
  destruct (v1_semver_e2e today (mkflags false false true None false pin false) a b c d
              (conj eq_refl (conj eq_refl eq_refl)) eq_refl) as (C1 & C2 & C3 & _).
  cbv zeta in C1, C2, C3. cbn [f_major f_minor] in C1, C2, C3. rewrite C2 in C1. split; assumption.
Qed.

(* no part flag: nothing changes, the command fails *)
Theorem v1_semver_noflag : forall today fl a b c d, SE.only_part_flags fl -> part_flag fl = false ->
  test_cmd today (dotted [a; b; c]) P_semver fl (option_map Some d) None = ExitErr.
Proof.
  intros today fl a b c d Hfl Hp. pose proof Hfl as (Ht & Htn & Hpd).
  unfold test_cmd. rewrite Ht. cbn [validate_release_tag negb].
  rewrite validate_flags_semver. cbn [negb]. rewrite Hpd, andb_false_r.
  unfold incr_dispatch. rewrite v1part_semver.
  destruct d as [z|]; cbn [option_map]; rewrite (v1_semver_incr _ fl a b c Hfl), Hp; reflexivity.
Qed.

(* ================================================================== (B) {pycalver} *)
(* tag of a version: None = final (no suffix), Some p = one of -alpha -beta -rc -post -dev
   (ST.ltext gives the tag names; they are exactly the tags of the legacy regex and, with final,
   exactly the values --tag accepts: Proofs/SemverTagE2E.v ltext_valid, valid_is_ltext) *)
Notation vtag := (option ST.ptag) (only parsing).

(* v<year><month, two digits>.<build>[-<tag>] : the text of Proofs/CalverTagE2E.v *)
Definition pyc (y m : N) (bid : list N) (T : vtag) : list N := CT.cvt y m bid (CT.of_flag T).

Lemma pyc_text y m bid T :
  pyc y m bid T = [118] ++ dec y ++ pad 2 m ++ [46] ++ bid ++ match T with Some _ => [45] ++ ST.ltext T | None => [] end.
Proof. unfold pyc. rewrite CT.cvt_eq. destruct T as [[]|]; reflexivity. Qed.

Example pyc_samples :
  pyc 2020 1 [48;48;52;50] (Some ST.Pb) = [118;50;48;50;48;48;49;46;48;48;52;50;45;98;101;116;97]     (* v202001.0042-beta *)
  /\ pyc 2017 12 [48;48;51;51] None = [118;50;48;49;55;49;50;46;48;48;51;51].                          (* v201712.0033 *)
Proof. split; reflexivity. Qed.

(* ------------------------------------------------------------------ (B1) reading *)
Definition pyc_info (y m : Z) (bid : list N) (T : vtag) : v1info :=
  mkv1 (Some y) (Some (quarter_from_month m)) (Some m) None None None None 0 0 0 bid (ST.ltext T).

Lemma ltext_in T : In (ST.ltext T) (v1_tags ++ [s_final]).
Proof. destruct T as [[]|]; cbn [ST.ltext v1_tags app In]; tauto. Qed.

Theorem pyc_parse : forall y m bid T,
  1000 <= y <= 9999 -> 1 <= m <= 12 -> all_digits bid = true -> (4 <= length bid)%nat ->
  v1_parse_version_info (pyc y m bid T) P_pycalver = POk (pyc_info (Z.of_N y) (Z.of_N m) bid T).
Proof.
  intros y m bid T Hy Hm Hd Hl. rewrite pyc_text. destruct T as [p|].
  - exact (v1_pycalver_parse_exact y m bid (Some (ST.ltext (Some p))) Hy Hm Hd Hl (ltext_in (Some p))).
  - exact (v1_pycalver_parse_exact y m bid None Hy Hm Hd Hl I).
Qed.

(* ------------------------------------------------------------------ (B2) rendering *)
Lemma has_key_ltext T : has_key (ST.ltext T) PEP440_TAG_BY_TAG = true.
Proof. destruct T as [[]|]; reflexivity. Qed.

Theorem pyc_render : forall v y m T, w_year v = Some y -> w_month v = Some m -> w_tag v = ST.ltext T ->
  v1_format_version v P_pycalver = Some (pyc (Z.to_N y) (Z.to_N m) (w_bid v) T).
Proof.
  intros v y m T Hy Hm Ht.
  rewrite (v1_pycalver_render_Z v y m Hy Hm) by (rewrite Ht; apply has_key_ltext).
  rewrite Ht, pyc_text. unfold zdec. destruct T as [[]|]; reflexivity.
Qed.

(* ------------------------------------------------------------------ (B3) the calendar step *)
Lemma is_cal_gt_pyc y m bid T date : 1 <= m <= 12 ->
  is_cal_gt (v1_cal_list (pyc_info (Z.of_N y) (Z.of_N m) bid T)) (v1_cal_of date) = CV.old_in_future y m (cal_of date).
Proof.
  intros Hm. unfold is_cal_gt, v1_cal_list, v1_cal_of, pyc_info, CV.old_in_future.
  cbn [w_year w_quarter w_month w_dom w_doy w_iso_week w_us_week cal_pairs zlist_lt].
  rewrite CV.quarter_of_month. rewrite CV.quarter_cmp; [reflexivity|apply CV.month_range|lia].
Qed.

(* the current record: build and tag of the old version; year and month of the old version when it lies in
   the future of the date, of the date otherwise *)
Lemma pyc_cur_fields fl y m bid T date : f_pin_date fl = false -> 1 <= m <= 12 ->
  let cur := v1_cur (pyc_info (Z.of_N y) (Z.of_N m) bid T) fl date in
  w_bid cur = bid /\ w_tag cur = ST.ltext T
  /\ (if CV.old_in_future y m (cal_of date)
      then w_year cur = Some (Z.of_N y) /\ w_month cur = Some (Z.of_N m)
      else w_year cur = Some (year_y (cal_of date)) /\ w_month cur = Some (month (cal_of date))).
Proof.
  intros Hpd Hm cur.
  destruct (v1_cur_rest (pyc_info (Z.of_N y) (Z.of_N m) bid T) fl date) as (_ & _ & _ & E4 & E5).
  split; [exact E4|]. split; [exact E5|].
  unfold cur, v1_cur. rewrite Hpd. cbv zeta. rewrite (is_cal_gt_pyc y m bid T date Hm).
  destruct (CV.old_in_future y m (cal_of date)); split; reflexivity.
Qed.

(* ------------------------------------------------------------------ (B4) lexid.next_id, as the legacy engine uses it *)
(* the closed form (Model/Lexid.v): a string of nines only overflows; otherwise the number + 1, padded to the
   old width, unless its first character changed (a carry into the first digit), then (number + 1) * 11 *)
Lemma next_id_closed s :
  next_id s = if all_nines s then None
              else let m := undec s + 1 in
                   if hd_eqb s (pad (length s) m) then Some (pad (length s) m) else Some (dec (m * 11)).
Proof. unfold next_id. rewrite count_nines_full. reflexivity. Qed.

(* the v2 engine widens a build below 1000 first (Model/Lexid.v bump_bid); the legacy engine does not.
   They agree exactly from 1000 on *)
Lemma next_id_is_bump_bid bid : 1000 <= undec bid -> bump_bid bid = next_id bid.
Proof. intros H. unfold bump_bid. destruct (N.ltb_spec (undec bid) 1000); [lia|reflexivity]. Qed.
Lemma bump_bid_small bid : undec bid < 1000 -> bump_bid bid = next_id (dec (undec bid + 1000)).
Proof. intros H. unfold bump_bid. destruct (N.ltb_spec (undec bid) 1000); [reflexivity|lia]. Qed.

Example next_id_samples :
  next_id [48;48;52;50] = Some [48;48;52;51]                 (* 0042 -> 0043 *)
  /\ bump_bid [48;48;52;50] = Some [49;48;52;51]             (* the v2 engine: 0042 -> 1043 *)
  /\ next_id [48;48;48;48] = Some [48;48;48;49]              (* 0000 -> 0001 *)
  /\ next_id [48;57;57;57] = Some [49;49;48;48;48]           (* 0999 -> 11000 *)
  /\ next_id [49;57;57;57] = Some [50;50;48;48;48]           (* 1999 -> 22000 *)
  /\ next_id [56;57;57;57] = Some [57;57;48;48;48]           (* 8999 -> 99000 *)
  /\ next_id [57;57;57;57] = None                            (* 9999 -> OverflowError *)
  /\ next_id [48;48;48;52;50] = Some [48;48;48;52;51].       (* 00042 -> 00043 *)
Proof. vm_compute. repeat split; reflexivity. Qed.

(* what the proofs below need: the build number grows, the string stays a digit string of at least the old length *)
Lemma next_id_facts bid b' : all_digits bid = true -> (4 <= length bid)%nat -> next_id bid = Some b' ->
  undec bid < undec b' /\ all_digits b' = true /\ (4 <= length b')%nat /\ (length bid <= length b')%nat /\ b' <> [] /\ bid <> [].
Proof.
  intros Hd Hl Hb. destruct (next_id_spec bid b' Hd Hb) as (H1 & H2 & _ & H4 & H5).
  repeat split; try assumption; try lia. intros ->. cbn [length] in Hl. lia.
Qed.

Local Opaque next_id bump_bid.

(* ------------------------------------------------------------------ (B5) v1version.incr *)
(* --tag as in Proofs/CalverTagE2E.v: None = not given, Some T = --tag <name of T>; --tag-num and --pin-date off;
   --major --minor --patch --pin-increments are FREE: this pattern shows none of these parts and
   cli._validate_flags only looks at new style patterns *)
Definition pyc_flags (fl : flags) (ft : option (option ST.ptag)) : Prop :=
  f_tag fl = option_map ST.ltext ft /\ f_tag_num fl = false /\ f_pin_date fl = false.
(* the tag is carried over unless --tag is given *)
Definition next_tag (ft : option (option ST.ptag)) (T : vtag) : vtag := match ft with Some T' => T' | None => T end.

(* the calendar part moves to the month of the date unless the old version lies in the future *)
Definition pyc_next (y m : N) (b' : list N) (T' : vtag) (date : Z) : list N :=
  let c := cal_of date in
  if CV.old_in_future y m c then pyc y m b' T' else pyc (Z.to_N (year_y c)) (Z.to_N (month c)) b' T'.

Lemma pyc_next_cvt y m b' T' date : pyc_next y m b' T' date = CT.cvt_next y m b' (CT.of_flag T') date.
Proof. reflexivity. Qed.

Lemma pyc_next_shape y m b' T' date : 1000 <= y <= 9999 -> 1 <= m <= 12 -> (0 <= date <= MAX_ORD)%Z ->
  exists y' m', pyc_next y m b' T' date = pyc y' m' b' T' /\ 1000 <= y' <= 9999 /\ 1 <= m' <= 12
                /\ y * 100 + m <= y' * 100 + m'
                /\ (y' = y /\ m' = m \/ y' = Z.to_N (year_y (cal_of date)) /\ m' = Z.to_N (month (cal_of date))).
Proof. intros Hy Hm Hdate. rewrite pyc_next_cvt. exact (CT.cvt_next_shape y m b' (CT.of_flag T') date Hy Hm Hdate). Qed.

(* two such texts with different build numbers differ *)
Lemma pyc_differs y m bid T y' m' b' T' :
  m <= 12 -> all_digits bid = true -> bid <> [] -> m' <= 12 -> all_digits b' = true -> b' <> [] -> undec bid < undec b' ->
  eqb_str (pyc y' m' b' T') (pyc y m bid T) = false.
Proof.
  intros Hm Hd Hne Hm' Hd' Hne' Hlt.
  destruct (eqb_str (pyc y' m' b' T') (pyc y m bid T)) eqn:Q; [|reflexivity].
  exfalso. apply eqb_str_true in Q. unfold pyc in Q. apply CT.cvt_inj_bid in Q; try assumption. lia.
Qed.

Theorem pyc_incr : forall date fl ft y m bid b' T,
  1000 <= y <= 9999 -> 1 <= m <= 12 -> all_digits bid = true -> (4 <= length bid)%nat ->
  pyc_flags fl ft -> next_id bid = Some b' ->
  v1_incr (pyc y m bid T) P_pycalver fl date = INew (pyc_next y m b' (next_tag ft T) date).
Proof.
  intros date fl ft y m bid b' T Hy Hm Hd Hl (Hft & Htn & Hpd) Hb.
  destruct (next_id_facts bid b' Hd Hl Hb) as (Hlt & Hd' & Hl' & _ & Hne' & Hne).
  rewrite (v1_incr_eq _ _ fl date _ (pyc_parse y m bid T Hy Hm Hd Hl)).
  destruct (pyc_cur_fields fl y m bid T date Hpd Hm) as (Eb & Et & Ec).
  set (cur := v1_cur (pyc_info (Z.of_N y) (Z.of_N m) bid T) fl date) in *.
  rewrite Eb, Hb, Htn.
  destruct (step_fields fl ft cur b' Hft) as (S1 & S2 & S3 & S4).
  assert (S5 : w_tag (v1_step fl cur b') = ST.ltext (next_tag ft T)).
  { rewrite S4. destruct ft as [T'|]; [reflexivity|exact Et]. }
  pose proof (CV.month_range date) as HM.
  unfold pyc_next. cbv zeta. destruct (CV.old_in_future y m (cal_of date)); destruct Ec as [Ey Em].
  - rewrite (pyc_render (v1_step fl cur b') (Z.of_N y) (Z.of_N m) (next_tag ft T)
               ltac:(rewrite S1; exact Ey) ltac:(rewrite S2; exact Em) S5).
    rewrite S3, !N2Z.id. rewrite pyc_differs by (assumption || lia). reflexivity.
  - rewrite (pyc_render (v1_step fl cur b') (year_y (cal_of date)) (month (cal_of date)) (next_tag ft T)
               ltac:(rewrite S1; exact Ey) ltac:(rewrite S2; exact Em) S5).
    rewrite S3. rewrite pyc_differs by (assumption || lia). reflexivity.
Qed.

(* a build of nines only: lexid raises OverflowError, incr crashes *)
Theorem pyc_incr_overflow : forall date fl ft y m bid T,
  1000 <= y <= 9999 -> 1 <= m <= 12 -> all_digits bid = true -> (4 <= length bid)%nat ->
  pyc_flags fl ft -> next_id bid = None ->
  v1_incr (pyc y m bid T) P_pycalver fl date = ICrash.
Proof.
  intros date fl ft y m bid T Hy Hm Hd Hl (Hft & Htn & Hpd) Hb.
  rewrite (v1_incr_eq _ _ fl date _ (pyc_parse y m bid T Hy Hm Hd Hl)).
  destruct (pyc_cur_fields fl y m bid T date Hpd Hm) as (Eb & _).
  rewrite Eb, Hb. reflexivity.
Qed.

(* ------------------------------------------------------------------ (B6) the new version is greater, whatever the tags *)
Theorem pyc_result_greater : forall date y m bid b' T T',
  1 <= m <= 12 -> all_digits bid = true -> bid <> [] -> all_digits b' = true -> b' <> [] -> undec bid < undec b' ->
  ver_lt (pyc y m bid T) (pyc_next y m b' T' date) = true.
Proof.
  intros date y m bid b' T T' Hm Hd Hne Hd' Hne' Hlt.
  assert (L2 : N.compare (undec bid) (undec b') = Lt) by (apply N.compare_lt_iff; exact Hlt).
  unfold pyc_next, pyc. cbv zeta.
  destruct (CV.old_in_future y m (cal_of date)) eqn:E.
  - apply CT.ver_lt_cvt_release; try assumption; try lia.
    cbn [cmp_list]. rewrite N.compare_refl, L2. reflexivity.
  - pose proof (CV.month_range date) as HM.
    destruct (CV.not_future_ge y m (cal_of date) E HM ltac:(lia)) as [_ G2].
    apply CT.ver_lt_cvt_release; try assumption; try lia.
    cbn [cmp_list].
    destruct (N.compare_spec (y * 100 + m) (Z.to_N (year_y (cal_of date)) * 100 + Z.to_N (month (cal_of date))))
      as [_|_|G]; [rewrite L2; reflexivity|reflexivity|exfalso; lia].
Qed.

(* the PEP 440 form: no v, year and month glued, the build number without leading zeros, the short tag with number 0 *)
Definition pep_suffix (T : vtag) : list N :=
  match T with
  | None => []
  | Some ST.Pa => [97;48] | Some ST.Pb => [98;48] | Some ST.Prc => [114;99;48]
  | Some ST.Ppost => [46;112;111;115;116;48] | Some ST.Pdev => [46;100;101;118;48]
  end.
Theorem to_pep440_pyc : forall y m bid T, m <= 12 -> all_digits bid = true -> bid <> [] ->
  to_pep440 (pyc y m bid T) = dotted [y * 100 + m; undec bid] ++ pep_suffix T.
Proof.
  intros y m bid T Hm Hd Hne. unfold pyc. rewrite (CT.to_pep440_cvt y m bid _ Hm Hd Hne), CT.pep_text_eq.
  destruct T as [[]|]; reflexivity.
Qed.

(* ------------------------------------------------------------------ (B7) the command *)
Lemma pyc_gate today date y m bid b' T T' :
  1000 <= y <= 9999 -> 1 <= m <= 12 -> all_digits bid = true -> (4 <= length bid)%nat ->
  (0 <= date <= MAX_ORD)%Z -> next_id bid = Some b' ->
  is_valid_version today P_pycalver (pyc y m bid T) (pyc_next y m b' T' date) = GateOk.
Proof.
  intros Hy Hm Hd Hl Hdate Hb.
  destruct (next_id_facts bid b' Hd Hl Hb) as (Hlt & Hd' & Hl' & _ & Hne' & Hne).
  pose proof (pyc_result_greater date y m bid b' T T' Hm Hd Hne Hd' Hne' Hlt) as Hv.
  unfold is_valid_version. rewrite old_style_pycalver.
  rewrite ver_lt_iff_not_le in Hv. apply negb_true_iff in Hv. rewrite Hv.
  destruct (pyc_next_shape y m b' T' date Hy Hm Hdate) as (y' & m' & En & Hy' & Hm' & _).
  rewrite En, (pyc_parse y' m' b' T' Hy' Hm' Hd' Hl'). reflexivity.
Qed.

Theorem v1_pycalver_test_cmd : forall today date fl ft y m bid b' T,
  1000 <= y <= 9999 -> 1 <= m <= 12 -> all_digits bid = true -> (4 <= length bid)%nat ->
  (0 <= date <= MAX_ORD)%Z -> pyc_flags fl ft -> next_id bid = Some b' ->
  let new := pyc_next y m b' (next_tag ft T) date in
  test_cmd today (pyc y m bid T) P_pycalver fl (Some (Some date)) None = Exit0 new (to_pep440 new)
  /\ ver_lt (pyc y m bid T) new = true.
Proof.
  intros today date fl ft y m bid b' T Hy Hm Hd Hl Hdate Hfl Hb new.
  destruct (next_id_facts bid b' Hd Hl Hb) as (Hlt & Hd' & Hl' & _ & Hne' & Hne).
  split; [|exact (pyc_result_greater date y m bid b' T (next_tag ft T) Hm Hd Hne Hd' Hne' Hlt)].
  pose proof Hfl as (Hft & Htn & Hpd).
  unfold test_cmd. rewrite Hft, ST.validate_tag_ok. cbn [negb].
  rewrite validate_flags_pycalver. cbn [negb]. rewrite Hpd. cbn [andb].
  unfold incr_dispatch. rewrite v1part_pycalver.
  rewrite (pyc_incr date fl ft y m bid b' T Hy Hm Hd Hl Hfl Hb).
  rewrite (pyc_gate today date y m bid b' T (next_tag ft T) Hy Hm Hd Hl Hdate Hb). reflexivity.
Qed.

(* without --date the date is TODAY *)
Corollary v1_pycalver_test_cmd_today : forall today fl ft y m bid b' T,
  1000 <= y <= 9999 -> 1 <= m <= 12 -> all_digits bid = true -> (4 <= length bid)%nat ->
  (0 <= today <= MAX_ORD)%Z -> pyc_flags fl ft -> next_id bid = Some b' ->
  let new := pyc_next y m b' (next_tag ft T) today in
  test_cmd today (pyc y m bid T) P_pycalver fl None None = Exit0 new (to_pep440 new).
Proof.
  intros today fl ft y m bid b' T Hy Hm Hd Hl Hdate Hfl Hb new.
  pose proof Hfl as (Hft & Htn & Hpd).
  unfold test_cmd. rewrite Hft, ST.validate_tag_ok. cbn [negb].
  rewrite validate_flags_pycalver. cbn [negb andb].
  unfold incr_dispatch. rewrite v1part_pycalver.
  rewrite (pyc_incr today fl ft y m bid b' T Hy Hm Hd Hl Hfl Hb).
  rewrite (pyc_gate today today y m bid b' T (next_tag ft T) Hy Hm Hd Hl Hdate Hb). reflexivity.
Qed.

(* the only failure inside this family: the build cannot be advanced *)
Theorem v1_pycalver_overflow : forall today date fl ft y m bid T,
  1000 <= y <= 9999 -> 1 <= m <= 12 -> all_digits bid = true -> (4 <= length bid)%nat ->
  pyc_flags fl ft -> all_nines bid = true ->
  test_cmd today (pyc y m bid T) P_pycalver fl (Some (Some date)) None = ExitErr.
Proof.
  intros today date fl ft y m bid T Hy Hm Hd Hl Hfl H9.
  pose proof Hfl as (Hft & Htn & Hpd).
  assert (Hb : next_id bid = None) by (apply next_id_none_iff; assumption).
  unfold test_cmd. rewrite Hft, ST.validate_tag_ok. cbn [negb].
  rewrite validate_flags_pycalver. cbn [negb]. rewrite Hpd. cbn [andb].
  unfold incr_dispatch. rewrite v1part_pycalver.
  rewrite (pyc_incr_overflow date fl ft y m bid T Hy Hm Hd Hl Hfl Hb). reflexivity.
Qed.

(* --pin-date (only possible without --date: cli._validate_date refuses the pair): the calendar part is kept,
   whatever TODAY is; the build is advanced all the same *)
Lemma pyc_cur_pin fl y m bid T date : f_pin_date fl = true ->
  v1_cur (pyc_info y m bid T) fl date = pyc_info y m bid T.
Proof.
  intros Hpd. unfold v1_cur. rewrite Hpd. cbv zeta.
  destruct (is_cal_gt (v1_cal_list (pyc_info y m bid T)) (v1_cal_list (pyc_info y m bid T))); reflexivity.
Qed.

Theorem v1_pycalver_pin_date : forall today fl ft y m bid b' T,
  1000 <= y <= 9999 -> 1 <= m <= 12 -> all_digits bid = true -> (4 <= length bid)%nat ->
  f_tag fl = option_map ST.ltext ft -> f_tag_num fl = false -> f_pin_date fl = true -> next_id bid = Some b' ->
  let new := pyc y m b' (next_tag ft T) in
  test_cmd today (pyc y m bid T) P_pycalver fl None None = Exit0 new (to_pep440 new)
  /\ ver_lt (pyc y m bid T) new = true
  /\ forall d, test_cmd today (pyc y m bid T) P_pycalver fl (Some d) None = ExitErr.
Proof.
  intros today fl ft y m bid b' T Hy Hm Hd Hl Hft Htn Hpd Hb new.
  destruct (next_id_facts bid b' Hd Hl Hb) as (Hlt & Hd' & Hl' & _ & Hne' & Hne).
  assert (Hv : ver_lt (pyc y m bid T) new = true).
  { unfold new, pyc. apply CT.ver_lt_cvt_release; try assumption; try lia.
    cbn [cmp_list]. rewrite N.compare_refl. apply N.compare_lt_iff in Hlt. rewrite Hlt. reflexivity. }
  assert (Hin : v1_incr (pyc y m bid T) P_pycalver fl today = INew new).
  { rewrite (v1_incr_eq _ _ fl today _ (pyc_parse y m bid T Hy Hm Hd Hl)).
    rewrite (pyc_cur_pin fl _ _ bid T today Hpd).
    change (w_bid (pyc_info (Z.of_N y) (Z.of_N m) bid T)) with bid. rewrite Hb, Htn.
    destruct (step_fields fl ft (pyc_info (Z.of_N y) (Z.of_N m) bid T) b' Hft) as (S1 & S2 & S3 & S4).
    assert (S5 : w_tag (v1_step fl (pyc_info (Z.of_N y) (Z.of_N m) bid T) b') = ST.ltext (next_tag ft T)).
    { rewrite S4. destruct ft as [T'|]; reflexivity. }
    rewrite (pyc_render _ (Z.of_N y) (Z.of_N m) (next_tag ft T) S1 S2 S5).
    rewrite S3, !N2Z.id. rewrite pyc_differs by (assumption || lia). reflexivity. }
  assert (Hg : is_valid_version today P_pycalver (pyc y m bid T) new = GateOk).
  { unfold is_valid_version. rewrite old_style_pycalver.
    pose proof Hv as Hv'. rewrite ver_lt_iff_not_le in Hv'. apply negb_true_iff in Hv'. rewrite Hv'.
    unfold new. rewrite (pyc_parse y m b' (next_tag ft T) Hy Hm Hd' Hl'). reflexivity. }
  split; [|split; [exact Hv|]].
  - unfold test_cmd. rewrite Hft, ST.validate_tag_ok. cbn [negb].
    rewrite validate_flags_pycalver. cbn [negb andb].
    unfold incr_dispatch. rewrite v1part_pycalver, Hin, Hg. reflexivity.
  - intros d. unfold test_cmd. rewrite Hft, ST.validate_tag_ok. cbn [negb].
    rewrite validate_flags_pycalver. cbn [negb]. rewrite Hpd. reflexivity.
Qed.

(* every value cli._validate_release_tag lets through is one of the six names *)
Theorem pyc_flags_complete : forall fl, f_tag_num fl = false -> f_pin_date fl = false ->
  validate_release_tag (f_tag fl) = true -> exists ft, pyc_flags fl ft.
Proof.
  intros fl H1 H2 H3. destruct (ST.valid_tag_abstract fl H3) as [ft Hft]. exists ft. repeat split; assumption.
Qed.

(* ------------------------------------------------------------------ the whole statement in one piece *)
Theorem v1_pycalver_e2e : forall today date fl ft y m bid T,
  1000 <= y <= 9999 -> 1 <= m <= 12 -> all_digits bid = true -> (4 <= length bid)%nat ->
  (0 <= date <= MAX_ORD)%Z -> pyc_flags fl ft ->
  let T' := next_tag ft T in
  (* success or failure is decided by the build alone *)
  test_cmd today (pyc y m bid T) P_pycalver fl (Some (Some date)) None =
    match next_id bid with
    | Some b' => Exit0 (pyc_next y m b' T' date) (to_pep440 (pyc_next y m b' T' date))
    | None => ExitErr
    end
  /\ (next_id bid = None <-> all_nines bid = true)
  /\ forall b', next_id bid = Some b' ->
       let new := pyc_next y m b' T' date in
       v1_parse_version_info (pyc y m bid T) P_pycalver = POk (pyc_info (Z.of_N y) (Z.of_N m) bid T)
       /\ v1_format_version (pyc_info (Z.of_N y) (Z.of_N m) bid T) P_pycalver = Some (pyc y m bid T)
       /\ v1_incr (pyc y m bid T) P_pycalver fl date = INew new
       /\ ver_lt (pyc y m bid T) new = true
       /\ undec bid < undec b' /\ all_digits b' = true /\ (length bid <= length b')%nat
       /\ exists y' m', new = pyc y' m' b' T' /\ 1000 <= y' <= 9999 /\ 1 <= m' <= 12 /\ y * 100 + m <= y' * 100 + m'
            /\ (y' = y /\ m' = m \/ y' = Z.to_N (year_y (cal_of date)) /\ m' = Z.to_N (month (cal_of date)))
            /\ to_pep440 new = dotted [y' * 100 + m'; undec b'] ++ pep_suffix T'.
Proof.
  intros today date fl ft y m bid T Hy Hm Hd Hl Hdate Hfl T'.
  split; [|split].
  - destruct (next_id bid) as [b'|] eqn:Hb.
    + exact (proj1 (v1_pycalver_test_cmd today date fl ft y m bid b' T Hy Hm Hd Hl Hdate Hfl Hb)).
    + apply (v1_pycalver_overflow today date fl ft y m bid T Hy Hm Hd Hl Hfl).
      apply next_id_none_iff; assumption.
  - apply next_id_none_iff. exact Hd.
  - intros b' Hb new.
    destruct (next_id_facts bid b' Hd Hl Hb) as (Hlt & Hd' & Hl' & Hll & Hne' & Hne).
    split; [exact (pyc_parse y m bid T Hy Hm Hd Hl)|].
    split.
    { rewrite (pyc_render (pyc_info (Z.of_N y) (Z.of_N m) bid T) (Z.of_N y) (Z.of_N m) T eq_refl eq_refl eq_refl).
      cbn [pyc_info w_bid]. rewrite !N2Z.id. reflexivity. }
    split; [exact (pyc_incr date fl ft y m bid b' T Hy Hm Hd Hl Hfl Hb)|].
    split; [exact (pyc_result_greater date y m bid b' T T' Hm Hd Hne Hd' Hne' Hlt)|].
    split; [exact Hlt|]. split; [exact Hd'|]. split; [exact Hll|].
    destruct (pyc_next_shape y m b' T' date Hy Hm Hdate) as (y' & m' & En & Hy' & Hm' & Hge & Hcase).
    exists y', m'. split; [exact En|]. split; [exact Hy'|]. split; [exact Hm'|]. split; [exact Hge|]. split; [exact Hcase|].
    unfold new. rewrite En. apply to_pep440_pyc; (assumption || lia).
Qed.

(* the families of the task, spelled out *)
(* no flag at all: the tag is carried over *)
Corollary v1_pycalver_noflag : forall today date y m bid b' T,
  1000 <= y <= 9999 -> 1 <= m <= 12 -> all_digits bid = true -> (4 <= length bid)%nat ->
  (0 <= date <= MAX_ORD)%Z -> next_id bid = Some b' ->
  let new := pyc_next y m b' T date in
  test_cmd today (pyc y m bid T) P_pycalver (mkflags false false false None false false false) (Some (Some date)) None
    = Exit0 new (to_pep440 new)
  /\ ver_lt (pyc y m bid T) new = true.
Proof.
  intros today date y m bid b' T Hy Hm Hd Hl Hdate Hb.
  exact (v1_pycalver_test_cmd today date (mkflags false false false None false false false) None y m bid b' T
           Hy Hm Hd Hl Hdate (conj eq_refl (conj eq_refl eq_refl)) Hb).
Qed.
(* --tag T for each of the six values: the new tag is T whatever the old one was *)
Corollary v1_pycalver_tag : forall today date Tf y m bid b' T,
  1000 <= y <= 9999 -> 1 <= m <= 12 -> all_digits bid = true -> (4 <= length bid)%nat ->
  (0 <= date <= MAX_ORD)%Z -> next_id bid = Some b' ->
  let new := pyc_next y m b' Tf date in
  test_cmd today (pyc y m bid T) P_pycalver (mkflags false false false (Some (ST.ltext Tf)) false false false)
    (Some (Some date)) None = Exit0 new (to_pep440 new)
  /\ ver_lt (pyc y m bid T) new = true.
Proof.
  intros today date Tf y m bid b' T Hy Hm Hd Hl Hdate Hb.
  exact (v1_pycalver_test_cmd today date (mkflags false false false (Some (ST.ltext Tf)) false false false) (Some Tf)
           y m bid b' T Hy Hm Hd Hl Hdate (conj eq_refl (conj eq_refl eq_refl)) Hb).
Qed.

(* ------------------------------------------------------------------ the model itself on the instances of the text *)
Definition noflags : flags := mkflags false false false None false false false.
Definition res_is (r : cli_res) (new pep : list N) : bool := eqb_cli_res r (Exit0 new pep).
(* today = 738000 (2021-07-30), date = 737500 (2020-03-17) *)
Example v1_model_samples :
  (* v202001.0042-beta -> v202003.0043-beta, 202003.43b0 *)
  res_is (test_cmd 738000 (pyc 2020 1 [48;48;52;50] (Some ST.Pb)) P_pycalver noflags (Some (Some 737500%Z)) None)
         (pyc 2020 3 [48;48;52;51] (Some ST.Pb)) [50;48;50;48;48;51;46;52;51;98;48] = true
  (* v202001.0999 -> v202003.11000 *)
  /\ res_is (test_cmd 738000 (pyc 2020 1 [48;57;57;57] None) P_pycalver noflags (Some (Some 737500%Z)) None)
            (pyc 2020 3 [49;49;48;48;48] None) [50;48;50;48;48;51;46;49;49;48;48;48] = true
  (* v202001.9999 -> error *)
  /\ test_cmd 738000 (pyc 2020 1 [57;57;57;57] None) P_pycalver noflags (Some (Some 737500%Z)) None = ExitErr
  (* a build of three digits is not a version of this pattern *)
  /\ test_cmd 738000 (pyc 2020 1 [48;52;50] None) P_pycalver noflags (Some (Some 737500%Z)) None = ExitErr
  (* the old version lies in the future of the date: v202101.1001-post -> v202101.1002-post, 202101.1002.post0 *)
  /\ res_is (test_cmd 738000 (pyc 2021 1 [49;48;48;49] (Some ST.Ppost)) P_pycalver noflags (Some (Some 737500%Z)) None)
            (pyc 2021 1 [49;48;48;50] (Some ST.Ppost)) [50;48;50;49;48;49;46;49;48;48;50;46;112;111;115;116;48] = true
  (* same year, later month: v202012.1001-dev -> v202012.1002-dev *)
  /\ res_is (test_cmd 738000 (pyc 2020 12 [49;48;48;49] (Some ST.Pdev)) P_pycalver noflags (Some (Some 737500%Z)) None)
            (pyc 2020 12 [49;48;48;50] (Some ST.Pdev)) [50;48;50;48;49;50;46;49;48;48;50;46;100;101;118;48] = true
  (* --tag final on a beta, --tag alpha on a final *)
  /\ res_is (test_cmd 738000 (pyc 2020 1 [49;48;48;49] (Some ST.Pb)) P_pycalver
               (mkflags false false false (Some s_final) false false false) (Some (Some 737500%Z)) None)
            (pyc 2020 3 [49;48;48;50] None) [50;48;50;48;48;51;46;49;48;48;50] = true
  /\ res_is (test_cmd 738000 (pyc 2020 1 [49;48;48;49] None) P_pycalver
               (mkflags false false false (Some (ST.ltext (Some ST.Pa))) false false false) (Some (Some 737500%Z)) None)
            (pyc 2020 3 [49;48;48;50] (Some ST.Pa)) [50;48;50;48;48;51;46;49;48;48;50;97;48] = true
  (* {semver}: 1.2.3 --major --minor -> 2.1.0 ; no flag -> error *)
  /\ res_is (test_cmd 738000 (dotted [1; 2; 3]) P_semver (mkflags true true false None false false false) None None)
            (dotted [2; 1; 0]) (dotted [2; 1; 0]) = true
  /\ test_cmd 738000 (dotted [1; 2; 3]) P_semver noflags None None = ExitErr.
Proof. vm_compute. repeat split; reflexivity. Qed.

Print Assumptions v1_incr_eq0.
Print Assumptions v1_semver_incr.
Print Assumptions v1_semver_test_cmd.
Print Assumptions v1_semver_e2e.
Print Assumptions v1_semver_major.
Print Assumptions v1_semver_minor.
Print Assumptions v1_semver_patch.
Print Assumptions v1_semver_noflag.
Print Assumptions pyc_parse.
Print Assumptions pyc_render.
Print Assumptions pyc_incr.
Print Assumptions pyc_incr_overflow.
Print Assumptions pyc_result_greater.
Print Assumptions to_pep440_pyc.
Print Assumptions v1_pycalver_test_cmd.
Print Assumptions v1_pycalver_test_cmd_today.
Print Assumptions v1_pycalver_overflow.
Print Assumptions v1_pycalver_pin_date.
Print Assumptions pyc_flags_complete.
Print Assumptions v1_pycalver_e2e.
Print Assumptions v1_pycalver_noflag.
Print Assumptions v1_pycalver_tag.
Print Assumptions v1_model_samples.
