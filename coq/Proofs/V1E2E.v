(* End-to-end theorems for the two documented LEGACY composites {semver} and {pycalver}, through the
   command model test_cmd of Model/CliAll.v (flag validation, engine dispatch has_v1_part, the legacy
   engine v1_incr of Model/V1.v, the gate is_valid_version for legacy patterns, to_pep440).

   (A) {semver}: for ALL numbers a.b.c and every combination of --major / --minor / --patch
       (--pin-increments free, with or without --date) the command prints the bumped version, its
       PEP 440 form is the same text, and it is strictly greater.  The legacy engine applies the three
       flags ONE AFTER THE OTHER (sv1_next): --major --minor on 1.2.3 gives 2.1.0, where the v2 engine
       (Proofs/SemverE2E.v semver_next) gives 2.0.0; with exactly one flag both agree and give the
       documented bump.  Without a part flag the command fails (nothing changes).

   (B) {pycalver}: versions v<year><month>.<build>[-tag], year 1000..9999 (the legacy regex wants
       exactly four digits; a four digit text below 0100 would be moved into the 2000s, see
       Proofs/V1Facts.v v1_pycalver_year0099), month 01..12, build a digit string of at least FOUR
       digits (the legacy build part is [0-9]{4,}), tag one of alpha beta rc post dev or none (final).
       For every date 0001-01-01..9999-12-31 the command prints
           v<year'><month'>.<next_id build>[-tag']
       where (year', month') is the month of the date unless the old version lies in the future of the
       date (then it is kept), tag' is the old tag, or T when --tag T is given (T any of the six values
       the command line accepts; final = no suffix).  The new version is strictly greater under PEP 440
       for every pair of tags.  --major --minor --patch --pin-increments are ignored by this pattern.
       The only failure is a build of nines only (lexid overflow).

       The build is advanced by lexid.next_id DIRECTLY: the legacy engine has no widening step, unlike
       the v2 engine (Model/Lexid.v bump_bid adds 1000 to a build below 1000 first).  So
           0042 -> 0043 (v2 engine: 1043),  0000 -> 0001,  0999 -> 11000,  1999 -> 22000,  9999 -> error;
       the two engines agree exactly when the build number is at least 1000 (next_id_is_bump_bid).

   Nothing is computed on samples except the Examples at the end, which run the model itself on the
   instances named in the text above. *)
From Coq Require Import List Bool NArith ZArith Arith Lia.
From BV Require Import Lib.PyStr Lib.Decimal Lib.Types Lib.Regex Lib.RegexParse Lib.Calendar Model.Lexid Gen.Tables
  Model.V2 Model.Pep440 Model.Cli Model.V1 Model.CliAll.
From BV Require Import Proofs.DecimalFacts Proofs.Pep440Facts Proofs.DottedFacts Proofs.LexidFacts Proofs.V1Facts.
From BV Require Proofs.SemverE2E Proofs.SemverTagE2E Proofs.CalverE2E Proofs.Pep440VersionE2E Proofs.CalverTagE2E.
Import ListNotations.
Local Open Scope N_scope.

Module SE := BV.Proofs.SemverE2E.
Module ST := BV.Proofs.SemverTagE2E.
Module CV := BV.Proofs.CalverE2E.
Module PE := BV.Proofs.Pep440VersionE2E.
Module CT := BV.Proofs.CalverTagE2E.

(* ------------------------------------------------------------------ closed facts about the two patterns *)
Lemma v1part_semver : has_v1_part P_semver = true.
Proof. vm_compute. reflexivity. Qed.
Lemma v1part_pycalver : has_v1_part P_pycalver = true.
Proof. vm_compute. reflexivity. Qed.
Lemma old_style_semver : is_new_pattern P_semver = false.
Proof. reflexivity. Qed.
Lemma old_style_pycalver : is_new_pattern P_pycalver = false.
Proof. reflexivity. Qed.
(* cli._validate_flags only looks at new style patterns *)
Lemma validate_flags_semver fl : validate_flags P_semver fl = true.
Proof. reflexivity. Qed.
Lemma validate_flags_pycalver fl : validate_flags P_pycalver fl = true.
Proof. reflexivity. Qed.
Lemma next_id_0001 : next_id [48;48;48;49] = Some [48;48;48;50].
Proof. vm_compute. reflexivity. Qed.

(* ------------------------------------------------------------------ v1version.incr, restated *)
(* the record after the build id, the part flags and --tag have been applied *)
Definition v1_step (fl : flags) (cur : v1info) (b : list N) : v1info :=
  let c0 := mkv1 (w_year cur) (w_quarter cur) (w_month cur) (w_dom cur) (w_doy cur) (w_iso_week cur) (w_us_week cur)
                 (w_major cur) (w_minor cur) (w_patch cur) b (w_tag cur) in
  let upd (v : v1info) ma mi pa := mkv1 (w_year v) (w_quarter v) (w_month v) (w_dom v) (w_doy v) (w_iso_week v) (w_us_week v) ma mi pa (w_bid v) (w_tag v) in
  let c1 := if f_major fl then upd c0 (w_major c0 + 1)%Z 0%Z 0%Z else c0 in
  let c2 := if f_minor fl then upd c1 (w_major c1) (w_minor c1 + 1)%Z 0%Z else c1 in
  let c3 := if f_patch fl then upd c2 (w_major c2) (w_minor c2) (w_patch c2 + 1)%Z else c2 in
  match f_tag fl with
  | Some (x :: t) => mkv1 (w_year c3) (w_quarter c3) (w_month c3) (w_dom c3) (w_doy c3) (w_iso_week c3) (w_us_week c3)
                          (w_major c3) (w_minor c3) (w_patch c3) (w_bid c3) (x :: t)
  | _ => c3
  end.

(* the calendar step: the date's calendar unless the old version lies in the future of it *)
Definition v1_cur (old : v1info) (fl : flags) (date : Z) : v1info :=
  let cur_c := if f_pin_date fl then v1_cal_list old else v1_cal_of date in
  if is_cal_gt (v1_cal_list old) cur_c then old else v1_set_cal old cur_c.

Lemma v1_incr_eq old_version raw fl date old :
  v1_parse_version_info old_version raw = POk old ->
  v1_incr old_version raw fl date =
  match next_id (w_bid (v1_cur old fl date)) with
  | None => ICrash
  | Some b =>
      if f_tag_num fl then ICrash else
      match v1_format_version (v1_step fl (v1_cur old fl date) b) raw with
      | None => ICrash
      | Some s => if eqb_str s old_version then INone else INew s
      end
  end.
Proof. intros H. unfold v1_incr. rewrite H. reflexivity. Qed.

(* the calendar step touches the calendar fields only *)
Lemma set_cal_rest v c :
  w_major (v1_set_cal v c) = w_major v /\ w_minor (v1_set_cal v c) = w_minor v /\ w_patch (v1_set_cal v c) = w_patch v
  /\ w_bid (v1_set_cal v c) = w_bid v /\ w_tag (v1_set_cal v c) = w_tag v.
Proof.
  destruct c as [|a [|b [|c' [|d [|e [|g [|h [|i r]]]]]]]]; repeat split; reflexivity.
Qed.
Lemma v1_cur_rest old fl date :
  w_major (v1_cur old fl date) = w_major old /\ w_minor (v1_cur old fl date) = w_minor old
  /\ w_patch (v1_cur old fl date) = w_patch old /\ w_bid (v1_cur old fl date) = w_bid old
  /\ w_tag (v1_cur old fl date) = w_tag old.
Proof.
  unfold v1_cur. cbv zeta.
  destruct (is_cal_gt (v1_cal_list old) (if f_pin_date fl then v1_cal_list old else v1_cal_of date)).
  - repeat split; reflexivity.
  - apply set_cal_rest.
Qed.

(* what the flags do to the fields that the two patterns show.  ft is the abstract reading of --tag
   (Proofs/SemverTagE2E.v): None = not given, Some None = --tag final, Some (Some p) = --tag <name of p> *)
Lemma step_fields fl ft cur b : f_tag fl = option_map ST.ltext ft ->
  w_year (v1_step fl cur b) = w_year cur /\ w_month (v1_step fl cur b) = w_month cur /\ w_bid (v1_step fl cur b) = b
  /\ w_tag (v1_step fl cur b) = match ft with Some T => ST.ltext T | None => w_tag cur end.
Proof.
  destruct fl as [fm fi fp ftg ftn fpi fpd]. cbn [f_tag]. intros ->. unfold v1_step.
  cbn [f_major f_minor f_patch f_tag].
  destruct fm, fi, fp; destruct ft as [[[]|]|]; cbn [option_map ST.ltext s_final]; repeat split; reflexivity.
Qed.

(* ================================================================== (A) {semver} *)
(* the three flags one after the other, as v1version.incr applies them *)
Definition sv1_next (fl : flags) (a b c : N) : list N :=
  let '(a1, b1, c1) := if f_major fl then (a + 1, 0, 0) else (a, b, c) in
  let '(a2, b2, c2) := if f_minor fl then (a1, b1 + 1, 0) else (a1, b1, c1) in
  if f_patch fl then [a2; b2; c2 + 1] else [a2; b2; c2].

Definition part_flag (fl : flags) : bool := f_major fl || f_minor fl || f_patch fl.
(* exactly one of --major --minor --patch *)
Definition one_part_flag (fl : flags) : bool :=
  match f_major fl, f_minor fl, f_patch fl with
  | true, false, false | false, true, false | false, false, true => true
  | _, _, _ => false
  end.

(* with exactly one flag: the documented bump (the flagged part + 1, the parts to its right 0) *)
Lemma sv1_next_one fl a b c : one_part_flag fl = true ->
  sv1_next fl a b c = (if f_major fl then [a + 1; 0; 0] else if f_minor fl then [a; b + 1; 0] else [a; b; c + 1])
  /\ sv1_next fl a b c = SE.semver_next fl a b c.
Proof.
  unfold one_part_flag, sv1_next, SE.semver_next.
  destruct (f_major fl), (f_minor fl), (f_patch fl); intros H; try discriminate H; split; reflexivity.
Qed.
(* with several flags the legacy engine and the v2 engine differ: --major --minor *)
Example sv1_next_major_minor :
  sv1_next (mkflags true true false None false false false) 1 2 3 = [2; 1; 0]
  /\ SE.semver_next (mkflags true true false None false false false) 1 2 3 = [2; 0; 0].
Proof. split; reflexivity. Qed.

Lemma sv1_next_shape fl a b c : exists a' b' c', sv1_next fl a b c = [a'; b'; c'].
Proof. unfold sv1_next. destruct (f_major fl), (f_minor fl), (f_patch fl); do 3 eexists; reflexivity. Qed.

Lemma sv1_next_noflag fl a b c : part_flag fl = false -> sv1_next fl a b c = [a; b; c].
Proof.
  unfold part_flag, sv1_next. destruct (f_major fl), (f_minor fl), (f_patch fl); intros H; try discriminate H. reflexivity.
Qed.

Lemma sv1_next_gt fl a b c : part_flag fl = true ->
  cmp_list N.compare (sv1_next fl a b c) [a; b; c] = Gt /\ cmp_list N.compare [a; b; c] (sv1_next fl a b c) = Lt.
Proof.
  intros H. unfold part_flag in H. unfold sv1_next.
  assert (G : forall x, N.compare (x + 1) x = Gt) by (intros x; apply N.compare_gt_iff; lia).
  assert (Lx : forall x, N.compare x (x + 1) = Lt) by (intros x; apply N.compare_lt_iff; lia).
  destruct (f_major fl), (f_minor fl), (f_patch fl); try discriminate H;
    cbn [cmp_list]; rewrite ?N.compare_refl, ?G, ?Lx; split; reflexivity.
Qed.

Lemma to_N_succ n : Z.to_N (Z.of_N n + 1) = n + 1.
Proof. lia. Qed.

Lemma semver_step_render fl cur bid a b c :
  f_tag fl = None -> w_tag cur = s_final ->
  w_major cur = Z.of_N a -> w_minor cur = Z.of_N b -> w_patch cur = Z.of_N c ->
  v1_format_version (v1_step fl cur bid) P_semver = Some (dotted (sv1_next fl a b c)).
Proof.
  intros Ht Hf Ha Hb Hc. destruct fl as [fm fi fp ftg ftn fpi fpd]. cbn [f_tag] in Ht. subst ftg.
  unfold v1_step, sv1_next. cbn [f_major f_minor f_patch f_tag].
  destruct fm, fi, fp;
    (rewrite semver_render_raw; [|cbn [w_tag]; rewrite Hf; reflexivity]);
    cbn [w_major w_minor w_patch w_bid w_tag]; rewrite ?Ha, ?Hb, ?Hc; unfold zdec;
    rewrite ?to_N_succ, ?N2Z.id; cbn [Z.to_N]; rewrite app_nil_r; reflexivity.
Qed.

Lemma ne3 (a b c : N) : [a; b; c] <> [].
Proof. intros Q; discriminate Q. Qed.

Lemma dotted_text a b c : dotted [a; b; c] = dec a ++ [46] ++ dec b ++ [46] ++ dec c.
Proof. reflexivity. Qed.

Local Opaque v1_parse_version_info v1_format_version.

(* v1version.incr on {semver} *)
Theorem v1_semver_incr : forall date fl a b c, SE.only_part_flags fl ->
  v1_incr (dotted [a; b; c]) P_semver fl date =
  if part_flag fl then INew (dotted (sv1_next fl a b c)) else INone.
Proof.
  intros date fl a b c (Ht & Htn & Hpd).
  rewrite (v1_incr_eq _ _ fl date _ (v1_semver_parse_exact a b c)).
  set (old := mkv1 None None None None None None None (Z.of_N a) (Z.of_N b) (Z.of_N c) [48;48;48;49] s_final).
  destruct (v1_cur_rest old fl date) as (E1 & E2 & E3 & E4 & E5).
  rewrite E4. change (w_bid old) with [48;48;48;49]. rewrite next_id_0001, Htn.
  rewrite (semver_step_render fl (v1_cur old fl date) [48;48;48;50] a b c Ht E5 E1 E2 E3).
  destruct (part_flag fl) eqn:Hp.
  - destruct (eqb_str (dotted (sv1_next fl a b c)) (dotted [a; b; c])) eqn:Q; [|reflexivity].
    exfalso. apply eqb_str_true in Q. destruct (sv1_next_shape fl a b c) as (a' & b' & c' & En).
    destruct (sv1_next_gt fl a b c Hp) as [HG _]. rewrite En in Q, HG.
    apply SE.dotted_inj in Q; [|apply ne3|apply ne3]. rewrite Q in HG.
    cbn [cmp_list] in HG. rewrite !N.compare_refl in HG. discriminate HG.
  - rewrite (sv1_next_noflag fl a b c Hp), eqb_str_same. reflexivity.
Qed.

Local Opaque parse_pep440 version_key ver_le ver_lt to_pep440.

Lemma semver_gate today a b c a' b' c' : cmp_list N.compare [a'; b'; c'] [a; b; c] = Gt ->
  is_valid_version today P_semver (dotted [a; b; c]) (dotted [a'; b'; c']) = GateOk.
Proof.
  intros HG. unfold is_valid_version. rewrite old_style_semver.
  rewrite (dotted_text a' b' c'), (v1_semver_parse_exact a' b' c'), <- (dotted_text a' b' c').
  rewrite (ver_le_dotted [a'; b'; c'] [a; b; c] (ne3 _ _ _) (ne3 _ _ _) eq_refl), HG. reflexivity.
Qed.

Local Opaque v1_incr.

(* the command, for every combination of the part flags with at least one of them *)
Theorem v1_semver_test_cmd : forall today fl a b c d, SE.only_part_flags fl -> part_flag fl = true ->
  let new := dotted (sv1_next fl a b c) in
  test_cmd today (dotted [a; b; c]) P_semver fl (option_map Some d) None = Exit0 new (to_pep440 new)
  /\ to_pep440 new = new
  /\ ver_lt (dotted [a; b; c]) new = true.
Proof.
  intros today fl a b c d Hfl Hp new. pose proof Hfl as (Ht & Htn & Hpd).
  destruct (sv1_next_shape fl a b c) as (a' & b' & c' & En).
  destruct (sv1_next_gt fl a b c Hp) as (HG & HL). rewrite En in HG, HL.
  assert (Hpep : to_pep440 new = new) by (unfold new; rewrite En; apply (SE.to_pep440_dotted [a'; b'; c'] (ne3 _ _ _))).
  assert (Hlt : ver_lt (dotted [a; b; c]) new = true).
  { unfold new. rewrite En, (ver_lt_dotted [a; b; c] [a'; b'; c'] (ne3 _ _ _) (ne3 _ _ _) eq_refl), HL. reflexivity. }
  split; [|split; [exact Hpep|exact Hlt]].
  unfold test_cmd. rewrite Ht. cbn [validate_release_tag negb].
  rewrite validate_flags_semver. cbn [negb]. rewrite Hpd, andb_false_r.
  unfold incr_dispatch. rewrite v1part_semver.
  assert (Hin : forall dd, v1_incr (dotted [a; b; c]) P_semver fl dd = INew new).
  { intros dd. rewrite (v1_semver_incr dd fl a b c Hfl), Hp. reflexivity. }
  assert (Hg : is_valid_version today P_semver (dotted [a; b; c]) new = GateOk).
  { unfold new. rewrite En. apply semver_gate. exact HG. }
  destruct d as [z|]; cbn [option_map]; rewrite Hin, Hg; reflexivity.
Qed.

(* exactly one flag: the documented bump *)
Theorem v1_semver_e2e : forall today fl a b c d, SE.only_part_flags fl -> one_part_flag fl = true ->
  let new := dotted (if f_major fl then [a + 1; 0; 0] else if f_minor fl then [a; b + 1; 0] else [a; b; c + 1]) in
  test_cmd today (dotted [a; b; c]) P_semver fl (option_map Some d) None = Exit0 new (to_pep440 new)
  /\ to_pep440 new = new
  /\ ver_lt (dotted [a; b; c]) new = true
  /\ new = dotted (SE.semver_next fl a b c).
Proof.
  intros today fl a b c d Hfl H1 new.
  assert (Hp : part_flag fl = true).
  { unfold one_part_flag in H1. unfold part_flag. destruct (f_major fl), (f_minor fl), (f_patch fl); try discriminate H1; reflexivity. }
  destruct (sv1_next_one fl a b c H1) as [E1 E2].
  destruct (v1_semver_test_cmd today fl a b c d Hfl Hp) as (C1 & C2 & C3).
  cbv zeta in C1, C2, C3. unfold new. rewrite <- E1.
  split; [exact C1|]. split; [exact C2|]. split; [exact C3|]. rewrite E2. reflexivity.
Qed.

(* the three flags spelled out: 1.2.3 -> 2.0.0, 1.3.0, 1.2.4 for all numbers *)
Corollary v1_semver_major : forall today a b c d pin,
  test_cmd today (dotted [a; b; c]) P_semver (mkflags true false false None false pin false) (option_map Some d) None
    = Exit0 (dotted [a + 1; 0; 0]) (dotted [a + 1; 0; 0])
  /\ ver_lt (dotted [a; b; c]) (dotted [a + 1; 0; 0]) = true.
Proof.
  intros today a b c d pin.
  destruct (v1_semver_e2e today (mkflags true false false None false pin false) a b c d
              (conj eq_refl (conj eq_refl eq_refl)) eq_refl) as (C1 & C2 & C3 & _).
  cbv zeta in C1, C2, C3. cbn [f_major f_minor] in C1, C2, C3. rewrite C2 in C1. split; assumption.
Qed.
Corollary v1_semver_minor : forall today a b c d pin,
  test_cmd today (dotted [a; b; c]) P_semver (mkflags false true false None false pin false) (option_map Some d) None
    = Exit0 (dotted [a; b + 1; 0]) (dotted [a; b + 1; 0])
  /\ ver_lt (dotted [a; b; c]) (dotted [a; b + 1; 0]) = true.
Proof.
  intros today a b c d pin.
  destruct (v1_semver_e2e today (mkflags false true false None false pin false) a b c d
              (conj eq_refl (conj eq_refl eq_refl)) eq_refl) as (C1 & C2 & C3 & _).
  cbv zeta in C1, C2, C3. cbn [f_major f_minor] in C1, C2, C3. rewrite C2 in C1. split; assumption.
Qed.
Corollary v1_semver_patch : forall today a b c d pin,
  test_cmd today (dotted [a; b; c]) P_semver (mkflags false false true None false pin false) (option_map Some d) None
    = Exit0 (dotted [a; b; c + 1]) (dotted [a; b; c + 1])
  /\ ver_lt (dotted [a; b; c]) (dotted [a; b; c + 1]) = true.
Proof.
  intros today a b c d pin.
  destruct (v1_semver_e2e today (mkflags false false true None false pin false) a b c d
              (conj eq_refl (conj eq_refl eq_refl)) eq_refl) as (C1 & C2 & C3 & _).
  cbv zeta in C1, C2, C3. cbn [f_major f_minor] in C1, C2, C3. rewrite C2 in C1. split; assumption.
Qed.

(* no part flag: nothing changes, the command fails *)
Theorem v1_semver_noflag : forall today fl a b c d, SE.only_part_flags fl -> part_flag fl = false ->
  test_cmd today (dotted [a; b; c]) P_semver fl (option_map Some d) None = ExitErr.
Proof.
  intros today fl a b c d Hfl Hp. pose proof Hfl as (Ht & Htn & Hpd).
  unfold test_cmd. rewrite Ht. cbn [validate_release_tag negb].
  rewrite validate_flags_semver. cbn [negb]. rewrite Hpd, andb_false_r.
  unfold incr_dispatch. rewrite v1part_semver.
  destruct d as [z|]; cbn [option_map]; rewrite (v1_semver_incr _ fl a b c Hfl), Hp; reflexivity.
Qed.
