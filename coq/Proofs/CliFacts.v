(* Facts about cli.test / cli._is_valid_version (Model/Cli.v): what a zero exit status guarantees,
   and which inputs are always refused. *)
From Coq Require Import List Bool NArith ZArith Arith.
From BV Require Import Lib.PyStr Lib.Decimal Lib.Regex Lib.RegexParse Lib.Calendar Model.V2 Model.Pep440 Model.Cli
  Gen.Tables Proofs.Pep440Facts.
Import ListNotations.
Local Open Scope N_scope.

Local Opaque parse_version_info version_key to_pep440 format_version incr compile_pattern_re normalize_pattern
  re_match parse_vinfo groupdict.

(* ------------------------------------------------------------------ the gate: cli._is_valid_version *)
Lemma gate_ok_inv : forall today raw old new, is_valid_version_v2 today raw old new = GateOk ->
  (exists v, parse_version_info today new raw = POk v) /\ ver_le new old = false.
Proof.
  intros today raw old new. unfold is_valid_version_v2.
  destruct (ver_le new old) eqn:HL;
    (destruct (parse_version_info today new raw) as [v| | |] eqn:HP; intros H; [|discriminate H..]).
  - discriminate H.
  - split; [exists v; reflexivity|reflexivity].
Qed.

Theorem gate_ok_spec : forall today raw old new, is_valid_version_v2 today raw old new = GateOk ->
  (exists v, parse_version_info today new raw = POk v) /\ ver_lt old new = true /\ version_key old <> version_key new.
Proof.
  intros today raw old new H. destruct (gate_ok_inv _ _ _ _ H) as [HP HL].
  split; [exact HP|]. split.
  - rewrite ver_lt_iff_not_le, HL. reflexivity.
  - intros E. unfold ver_le in HL. rewrite E, key_le_refl in HL. discriminate HL.
Qed.

(* "the new version matches the pattern in full" *)
Theorem parse_ok_full_match : forall today s raw v, parse_version_info today s raw = POk v ->
  exists r e, compile_pattern_re (normalize_pattern raw raw) = Some r /\ re_match r s = Some (e, []).
Proof.
  Local Transparent parse_version_info.
  intros today s raw v. unfold parse_version_info.
  Local Opaque parse_version_info.
  destruct (compile_pattern_re (normalize_pattern raw raw)) as [r|] eqn:HC; [|intros H; discriminate H].
  destruct (re_match r s) as [[e rest]|] eqn:HM; [|intros H; discriminate H].
  destruct rest as [|c rest]; [|intros H; discriminate H].
  intros _. exists r, e. split; [reflexivity|exact HM].
Qed.

Theorem gate_rejects_equal_key : forall today raw old new,
  version_key new = version_key old -> is_valid_version_v2 today raw old new <> GateOk.
Proof.
  intros today raw old new E H. destruct (gate_ok_spec _ _ _ _ H) as (_ & _ & HK).
  apply HK. symmetry. exact E.
Qed.

Theorem gate_rejects_lower : forall today raw old new,
  ver_lt new old = true -> is_valid_version_v2 today raw old new <> GateOk.
Proof.
  intros today raw old new HL H. destruct (gate_ok_inv _ _ _ _ H) as [_ HLe].
  rewrite ver_lt_iff_not_le in HL. apply negb_true_iff in HL.
  destruct (ver_le_total new old) as [T|T]; [rewrite T in HLe; discriminate HLe|rewrite T in HL; discriminate HL].
Qed.

(* ------------------------------------------------------------------ cli.test *)
Lemma exit0_inj : forall a b c d, Exit0 a b = Exit0 c d -> a = c /\ b = d.
Proof. intros a b c d H. injection H. auto. Qed.

Theorem test_exit0_sound : forall today old raw fl date setv new pep,
  test_cmd_v2 today old raw fl date setv = Exit0 new pep ->
  is_valid_version_v2 today raw old new = GateOk
  /\ (exists v, parse_version_info today new raw = POk v)
  /\ ver_lt old new = true
  /\ pep = to_pep440 new
  /\ validate_release_tag (f_tag fl) = true
  /\ validate_flags raw fl = true
  /\ (match setv with Some s => new = s | None => exists d, incr today old raw fl d = INew new end).
Proof.
  intros today old raw fl date setv new pep. unfold test_cmd_v2.
  destruct (validate_release_tag (f_tag fl)) eqn:HT; cbn [negb]; [|intros H; discriminate H].
  destruct (validate_flags raw fl) eqn:HF; cbn [negb]; [|intros H; discriminate H].
  match goal with |- (if ?c then _ else _) = _ -> _ => destruct c eqn:HD end; [intros H; discriminate H|].
  assert (Hmain : forall d,
    match match setv with Some s => INew s | None => incr today old raw fl d end with
    | INew s => match is_valid_version_v2 today raw old s with GateOk => Exit0 s (to_pep440 s) | _ => ExitErr end
    | _ => ExitErr
    end = Exit0 new pep ->
    is_valid_version_v2 today raw old new = GateOk
    /\ (exists v, parse_version_info today new raw = POk v)
    /\ ver_lt old new = true /\ pep = to_pep440 new /\ true = true /\ true = true
    /\ (match setv with Some s => new = s | None => exists d, incr today old raw fl d = INew new end)).
  { intros d.
    destruct (match setv with Some s => INew s | None => incr today old raw fl d end) as [s| |] eqn:HN;
      try (intros H; discriminate H).
    destruct (is_valid_version_v2 today raw old s) eqn:HG; intros H; [|discriminate H..].
    apply exit0_inj in H. destruct H as [Hs Hp]. subst s. subst pep.
    destruct (gate_ok_spec _ _ _ _ HG) as (HP & HL & _).
    repeat (split; [first [exact HG | exact HP | exact HL | reflexivity]|]).
    destruct setv as [s|].
    - injection HN as HN. symmetry. exact HN.
    - exists d. exact HN. }
  destruct date as [[n|]|].
  - apply Hmain.
  - intros H; discriminate H.
  - apply Hmain.
Qed.

Theorem test_set_version_same_rejected : forall today old raw fl date,
  test_cmd_v2 today old raw fl date (Some old) = ExitErr.
Proof.
  intros today old raw fl date. unfold test_cmd_v2.
  assert (HG : is_valid_version_v2 today raw old old <> GateOk)
    by (apply gate_rejects_equal_key; reflexivity).
  destruct (negb (validate_release_tag (f_tag fl))); [reflexivity|].
  destruct (negb (validate_flags raw fl)); [reflexivity|].
  match goal with |- (if ?c then _ else _) = _ => destruct c end; [reflexivity|].
  destruct (is_valid_version_v2 today raw old old); [exfalso; apply HG; reflexivity| |];
    destruct date as [[n|]|]; reflexivity.
Qed.

Theorem test_pin_date_and_date_rejected : forall today old raw fl d setv,
  f_pin_date fl = true -> test_cmd_v2 today old raw fl (Some d) setv = ExitErr.
Proof.
  intros today old raw fl d setv HP. unfold test_cmd_v2. rewrite HP.
  destruct (negb (validate_release_tag (f_tag fl))); [reflexivity|].
  destruct (negb (validate_flags raw fl)); reflexivity.
Qed.

Theorem test_invalid_tag_rejected : forall today old raw fl date setv t,
  f_tag fl = Some t -> existsb (eqb_str t) VALID_RELEASE_TAG_VALUES = false ->
  test_cmd_v2 today old raw fl date setv = ExitErr.
Proof.
  intros today old raw fl date setv t HT HE. unfold test_cmd_v2.
  unfold validate_release_tag at 1. rewrite HT, HE. reflexivity.
Qed.
