(* C12 (values reach the VCS verbatim): the command templates extracted from the source, for every value. *)
From Coq Require Import List Bool NArith ZArith Arith Lia Permutation.
From BV Require Import Lib.PyStr Lib.Decimal Lib.Regex Lib.RegexParse Model.V2 Model.Pep440 Model.V1 Model.Vcs Gen.Tables Proofs.Pep440Facts.
Import ListNotations.
Local Open Scope N_scope.

(* ================================================================== C12 *)


(* one step of format_go on a character that is neither brace *)
Lemma format_go_other : forall f kw c t, c <> 123 -> c <> 125 ->
  format_go (S f) kw (c :: t) = match format_go f kw t with Some r => Some (c :: r) | None => None end.
Proof.
  intros f kw c t H1 H2. cbn [format_go].
  destruct c as [|p]; [reflexivity|].
  do 8 (destruct p as [p|p|]; try reflexivity; try (exfalso; apply H1; reflexivity); try (exfalso; apply H2; reflexivity)).
Qed.

(* an opening brace not followed by another opening brace starts a replacement field *)
Lemma format_go_field : forall f kw t, (match t with d :: _ => d <> 123 | [] => True end) ->
  format_go (S f) kw (123 :: t) =
  let '(spec, rest) := span_while (fun c => negb (c =? 125) && negb (c =? 123)) t in
  match rest with
  | 125 :: t' => match fmt_field kw spec, format_go f kw t' with Some a, Some r => Some (a ++ r) | _, _ => None end
  | _ => None
  end.
Proof.
  intros f kw t H. cbn [format_go]. destruct t as [|d t]; [reflexivity|].
  destruct d as [|p]; [reflexivity|].
  do 8 (destruct p as [p|p|]; try reflexivity; try (exfalso; apply H; reflexivity)).
Qed.

Lemma span_while_all : forall p s rest, (forall c, In c s -> p c = true) ->
  (match rest with d :: _ => p d = false | [] => True end) -> span_while p (s ++ rest) = (s, rest).
Proof.
  induction s as [|c s IH]; intros rest Hs Hr.
  - destruct rest as [|d r]; [reflexivity|]. cbn [app span_while]. rewrite Hr. reflexivity.
  - cbn [app span_while]. rewrite (Hs c (or_introl eq_refl)). rewrite IH; auto. intros; apply Hs; right; assumption.
Qed.

Lemma str_format_single_field : forall name v kw,
  (forall c, In c name -> c <> 123 /\ c <> 125 /\ c <> 58) ->
  assoc name kw = Some (VStr v) -> str_format ([123] ++ name ++ [125]) kw = Some v.
Proof.
  intros name v kw Hn Ha. unfold str_format. cbn [app length].
  rewrite format_go_field.
  2:{ destruct name as [|d r]; cbn [app]; [discriminate|]. apply (Hn d (or_introl eq_refl)). }
  rewrite (span_while_all _ name [125]).
  2:{ intros c Hc. destruct (Hn c Hc) as (A & B & _). apply N.eqb_neq in A, B. rewrite A, B. reflexivity. }
  2:{ reflexivity. }
  unfold fmt_field. replace name with (name ++ []) at 1 by apply app_nil_r.
  rewrite (span_while_all _ name []).
  2:{ intros c Hc. destruct (Hn c Hc) as (_ & _ & C). apply N.eqb_neq in C. rewrite C. reflexivity. }
  2:{ exact I. }
  rewrite Ha. cbn [format_go]. rewrite app_nil_r. reflexivity.
Qed.

Lemma format_go_no_braces : forall s kw f, (forall c, In c s -> c <> 123 /\ c <> 125) ->
  (length s < f)%nat -> format_go f kw s = Some s.
Proof.
  induction s as [|c s IH]; intros kw f Hs Hf.
  - destruct f; [inversion Hf|]. reflexivity.
  - destruct f; [inversion Hf|]. destruct (Hs c (or_introl eq_refl)) as [A B].
    rewrite format_go_other by assumption. rewrite IH; [reflexivity| |cbn [length] in Hf; lia].
    intros; apply Hs; right; assumption.
Qed.

Lemma str_format_no_braces : forall s kw, (forall c, In c s -> c <> 123 /\ c <> 125) -> str_format s kw = Some s.
Proof. intros. unfold str_format. apply format_go_no_braces; auto. Qed.

(* boolean side conditions, so that concrete templates are discharged by computation *)
Definition no_brace_b (s : list N) : bool := forallb (fun c => negb (c =? 123) && negb (c =? 125)) s.
Definition name_ok_b (s : list N) : bool := forallb (fun c => negb (c =? 123) && negb (c =? 125) && negb (c =? 58)) s.

Lemma no_brace_b_spec : forall s, no_brace_b s = true -> forall c, In c s -> c <> 123 /\ c <> 125.
Proof.
  intros s H c Hc. unfold no_brace_b in H. rewrite forallb_forall in H. specialize (H c Hc).
  apply andb_true_iff in H. destruct H as [A B]. apply negb_true_iff in A, B. apply N.eqb_neq in A, B. auto.
Qed.
Lemma name_ok_b_spec : forall s, name_ok_b s = true -> forall c, In c s -> c <> 123 /\ c <> 125 /\ c <> 58.
Proof.
  intros s H c Hc. unfold name_ok_b in H. rewrite forallb_forall in H. specialize (H c Hc).
  apply andb_true_iff in H. destruct H as [H C]. apply andb_true_iff in H. destruct H as [A B].
  apply negb_true_iff in A, B, C. apply N.eqb_neq in A, B, C. auto.
Qed.

Lemma fmt_literal : forall s kw, no_brace_b s = true -> str_format s kw = Some s.
Proof. intros. apply str_format_no_braces, no_brace_b_spec; assumption. Qed.
Lemma fmt_field1 : forall name v kw, name_ok_b name = true -> assoc name kw = Some (VStr v) ->
  str_format (123 :: name ++ [125]) kw = Some v.
Proof. intros. apply (str_format_single_field name v kw); [apply name_ok_b_spec|]; assumption. Qed.

Theorem repo_splits_before_format : VCS_SPLIT_BEFORE_FORMAT = true.
Proof. reflexivity. Qed.

Lemma vcs_cmd_eq : forall name cmd kw tmpl parts,
  assoc cmd (vcs_table name) = Some tmpl -> shlex_split tmpl = Some parts ->
  vcs_cmd name cmd kw = map_opt (fun p => str_format p (fmt_kw kw)) parts.
Proof.
  intros name cmd kw tmpl parts H1 H2. unfold vcs_cmd. rewrite H1. unfold vcs_argv.
  rewrite repo_splits_before_format, H2. reflexivity.
Qed.

Ltac vcs_start :=
  match goal with
  | |- vcs_cmd ?n ?c ?kw = _ =>
      let tm := eval vm_compute in (assoc c (vcs_table n)) in
      match tm with
      | Some ?tmpl =>
          let ps := eval vm_compute in (shlex_split tmpl) in
          match ps with
          | Some ?parts =>
              rewrite (vcs_cmd_eq n c kw tmpl parts) by (vm_compute; reflexivity);
              cbn [map_opt fmt_kw map]
          end
      end
  end.
Ltac fmt_lit := rewrite fmt_literal by (vm_compute; reflexivity).

(* names of the replacement fields *)
Definition fld_message : list N := [109;101;115;115;97;103;101].
Definition fld_path : list N := [112;97;116;104].
Definition fld_tag : list N := [116;97;103].

(* git commit --message '{message}' *)
Theorem git_commit_argv : forall m,
  vcs_cmd [103;105;116] [99;111;109;109;105;116] [([109;101;115;115;97;103;101], m)]
  = Some [[103;105;116]; [99;111;109;109;105;116]; [45;45;109;101;115;115;97;103;101]; m].
Proof.
  intros m. vcs_start. do 3 fmt_lit.
  rewrite (fmt_field1 fld_message m) by (vm_compute; reflexivity). reflexivity.
Qed.

(* git add --update '{path}' *)
Theorem git_add_argv : forall p,
  vcs_cmd [103;105;116] [97;100;100;95;112;97;116;104] [([112;97;116;104], p)]
  = Some [[103;105;116]; [97;100;100]; [45;45;117;112;100;97;116;101]; p].
Proof.
  intros p. vcs_start. do 3 fmt_lit.
  rewrite (fmt_field1 fld_path p) by (vm_compute; reflexivity). reflexivity.
Qed.

(* git tag --annotate {tag} --message '{message}' *)
Theorem git_tag_argv : forall t m,
  vcs_cmd [103;105;116] [116;97;103] [([116;97;103], t); ([109;101;115;115;97;103;101], m)]
  = Some [[103;105;116]; [116;97;103]; [45;45;97;110;110;111;116;97;116;101]; t; [45;45;109;101;115;115;97;103;101]; m].
Proof.
  intros t m. vcs_start. do 3 fmt_lit.
  rewrite (fmt_field1 fld_tag t) by (vm_compute; reflexivity). fmt_lit.
  rewrite (fmt_field1 fld_message m) by (vm_compute; reflexivity). reflexivity.
Qed.

(* git tag {tag} *)
Theorem git_tag_light_argv : forall t,
  vcs_cmd [103;105;116] [116;97;103;95;108;105;103;104;116] [([116;97;103], t)]
  = Some [[103;105;116]; [116;97;103]; t].
Proof.
  intros t. vcs_start. do 2 fmt_lit.
  rewrite (fmt_field1 fld_tag t) by (vm_compute; reflexivity). reflexivity.
Qed.

(* hg commit --logfile '{path}' *)
Theorem hg_commit_argv : forall p,
  vcs_cmd [104;103] [99;111;109;109;105;116] [([112;97;116;104], p)]
  = Some [[104;103]; [99;111;109;109;105;116]; [45;45;108;111;103;102;105;108;101]; p].
Proof.
  intros p. vcs_start. do 3 fmt_lit.
  rewrite (fmt_field1 fld_path p) by (vm_compute; reflexivity). reflexivity.
Qed.

(* hg tag {tag} --message '{message}' *)
Theorem hg_tag_argv : forall t m,
  vcs_cmd [104;103] [116;97;103] [([116;97;103], t); ([109;101;115;115;97;103;101], m)]
  = Some [[104;103]; [116;97;103]; t; [45;45;109;101;115;115;97;103;101]; m].
Proof.
  intros t m. vcs_start. do 2 fmt_lit.
  rewrite (fmt_field1 fld_tag t) by (vm_compute; reflexivity). fmt_lit.
  rewrite (fmt_field1 fld_message m) by (vm_compute; reflexivity). reflexivity.
Qed.

(* hg add '{path}' *)
Theorem hg_add_argv : forall p,
  vcs_cmd [104;103] [97;100;100;95;112;97;116;104] [([112;97;116;104], p)]
  = Some [[104;103]; [97;100;100]; p].
Proof.
  intros p. vcs_start. do 2 fmt_lit.
  rewrite (fmt_field1 fld_path p) by (vm_compute; reflexivity). reflexivity.
Qed.

(* the behaviour before the fix: format first, split afterwards.  m = a 'b' c *)
Theorem format_then_split_alters : exists m,
  (match str_format [103;105;116;32;99;111;109;109;105;116;32;45;45;109;101;115;115;97;103;101;32;39;123;109;101;115;115;97;103;101;125;39]
                    [([109;101;115;115;97;103;101], VStr m)] with
   | Some s => shlex_split s
   | None => None
   end) <> Some [[103;105;116]; [99;111;109;109;105;116]; [45;45;109;101;115;115;97;103;101]; m].
Proof. exists [97;32;39;98;39;32;99]. vm_compute. intros H; discriminate H. Qed.


