(* Call-order facts C10 rests on, over the call orders T1 extracts from the source (translate/t1_calls.py).
   Each states the relative order and multiplicity of exactly the steps that matter for the property;
   steps that do not matter may move without breaking it. *)
From Coq Require Import List NArith Strings.String.
From BV Require Import Lib.PyStr Lib.StrLit Gen.Tables.
Import ListNotations.
Local Open Scope string_scope.

(* in cli.update the options are merged first and the dry return comes before the update proper *)
Theorem c10_order_update :
  restrict (lits ["_parse_vcs_options"; "<if dry: return>"; "_try_update"]) ORDER_CLI_UPDATE
  = lits ["_parse_vcs_options"; "<if dry: return>"; "_try_update"].
Proof. vm_compute. reflexivity. Qed.

(* in cli._update: dirty check, rewrite, then the VCS steps *)
Theorem c10_order__update :
  restrict (lits ["vcs.get_vcs_api"; "vcs.assert_not_dirty"; "v2rewrite.rewrite_files"; "v1rewrite.rewrite_files"; "vcs.commit"]) ORDER_CLI__UPDATE
  = lits ["vcs.get_vcs_api"; "vcs.assert_not_dirty"; "v2rewrite.rewrite_files"; "v1rewrite.rewrite_files"; "vcs.commit"].
Proof. vm_compute. reflexivity. Qed.

(* in vcs.commit: pre hook, add, commit, post hook, tag, push of the tag, push *)
Theorem c10_order_vcs_commit :
  restrict (lits ["hooks.run"; "vcs_api.add"; "vcs_api.commit"; "vcs_api.tag"; "vcs_api.push_tag"; "vcs_api.push"]) ORDER_VCS_COMMIT
  = lits ["hooks.run"; "vcs_api.add"; "vcs_api.commit"; "hooks.run"; "vcs_api.tag"; "vcs_api.push_tag"; "vcs_api.push"].
Proof. vm_compute. reflexivity. Qed.
