(* All-pairs order along a BUILD bump chain (Model/Lexid.v): any two values of the chain,
   however far apart, are ordered numerically, and lexically once the chain has left a
   short start value.  Lifts the consecutive-pair theorem bump_chain_spec by transitivity. *)
From Coq Require Import List Bool ZArith NArith Arith Lia ZifyBool ZifyN.
From BV Require Import Lib.PyStr Lib.Decimal Model.Lexid Proofs.DecimalFacts Proofs.LexidFacts.
Import ListNotations.
Local Open Scope N_scope.

Lemma lt_str_trans : forall a b c : list N,
  lt_str a b = true -> lt_str b c = true -> lt_str a c = true.
Proof.
  induction a as [|x a IH]; intros b c Hab Hbc.
  - destruct b as [|y b]; [discriminate Hab|].
    destruct c as [|z c]; [discriminate Hbc|]. reflexivity.
  - destruct b as [|y b]; [discriminate Hab|].
    destruct c as [|z c]; [discriminate Hbc|].
    cbn [lt_str] in *.
    destruct (N.ltb_spec x y) as [Hxy|Hxy]; cbn [orb] in Hab.
    + destruct (N.ltb_spec y z) as [Hyz|Hyz]; cbn [orb] in Hbc.
      * destruct (N.ltb_spec x z) as [Hxz|Hxz]; [reflexivity|lia].
      * apply andb_prop in Hbc. destruct Hbc as [He _]. apply N.eqb_eq in He. subst z.
        destruct (N.ltb_spec x y) as [_|Hc]; [reflexivity|lia].
    + apply andb_prop in Hab. destruct Hab as [He Hab]. apply N.eqb_eq in He. subst y.
      destruct (N.ltb_spec x z) as [Hxz|Hxz]; cbn [orb] in *; [reflexivity|].
      apply andb_prop in Hbc. destruct Hbc as [He Hbc].
      rewrite He. cbn [andb]. exact (IH b c Hab Hbc).
Qed.

Lemma lt_str_irrefl : forall a : list N, lt_str a a = false.
Proof.
  induction a as [|x a IH]; [reflexivity|].
  cbn [lt_str]. rewrite N.ltb_irrefl, N.eqb_refl, IH. reflexivity.
Qed.

Theorem bump_chain_all_pairs n b l :
  all_digits b = true -> b <> [] -> bump_chain n b = Some l ->
  forall d i x y, nth_error (b :: l) i = Some x -> nth_error (b :: l) (i + S d)%nat = Some y ->
    (undec x < undec y)%N /\ ((1 <= i)%nat \/ (4 <= length b)%nat -> lt_str x y = true).
Proof.
  intros Hd Hne Hc.
  destruct (bump_chain_spec n b l Hd Hne Hc) as [_ Hpairs].
  induction d as [|d IHd]; intros i x y Hx Hy.
  - replace (i + 1)%nat with (S i) in Hy by lia. cbn [nth_error] in Hy.
    exact (Hpairs i x y Hx Hy).
  - replace (i + S (S d))%nat with (S (i + S d)) in Hy by lia.
    destruct (nth_error (b :: l) (i + S d)) as [m|] eqn:Hm.
    + destruct (IHd i x m Hx Hm) as [Hn1 Hs1].
      assert (Hy' : nth_error l (i + S d) = Some y) by exact Hy.
      destruct (Hpairs (i + S d)%nat m y Hm Hy') as [Hn2 Hs2].
      split; [lia|]. intros Hcond.
      apply lt_str_trans with m; [apply Hs1; exact Hcond|].
      apply Hs2. left. lia.
    + exfalso. apply nth_error_None in Hm.
      assert (Hsome : nth_error (b :: l) (S (i + S d)) <> None) by (rewrite Hy; discriminate).
      apply nth_error_Some in Hsome. lia.
Qed.

(* no value ever repeats along a chain *)
Corollary bump_chain_no_repeat n b l :
  all_digits b = true -> b <> [] -> bump_chain n b = Some l ->
  forall i j x, (i < j)%nat -> nth_error (b :: l) i = Some x -> nth_error (b :: l) j = Some x -> False.
Proof.
  intros Hd Hne Hc i j x Hij Hx Hy.
  replace j with (i + S (j - i - 1))%nat in Hy by lia.
  destruct (bump_chain_all_pairs n b l Hd Hne Hc _ i x x Hx Hy) as [Hlt _]. lia.
Qed.
