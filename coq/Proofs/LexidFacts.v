(* Facts about lexid.next_id and the BUILD bump (Model/Lexid.v). *)
From Coq Require Import List Bool ZArith NArith Arith Lia ZifyBool ZifyN.
From BV Require Import Lib.PyStr Lib.Decimal Model.Lexid Proofs.DecimalFacts.
Import ListNotations.
Local Open Scope N_scope.
Ltac Zify.zify_post_hook ::= Z.div_mod_to_equations.

Definition all_nines (s : list N) : bool := forallb (N.eqb 57) s.

(* ------------------------------------------------------------------ *)
(* counting nines                                                      *)

Lemma count_nines_cons c s :
  count_go [57] O (c :: s) =
  if 57 =? c then S (count_go [57] O s) else count_go [57] O s.
Proof.
  cbn [count_go prefixb length Nat.sub]. rewrite andb_true_r. reflexivity.
Qed.

Lemma count_nines_le s : (count_go [57%N] O s <= length s)%nat.
Proof.
  induction s as [|c s IH]; [cbn; lia|].
  rewrite count_nines_cons. cbn [length]. destruct (57 =? c); lia.
Qed.

Lemma count_nines_full s :
  Nat.eqb (scount [57] s) (length s) = all_nines s.
Proof.
  unfold scount. induction s as [|c s IH]; [reflexivity|].
  rewrite count_nines_cons. cbn [length all_nines forallb].
  pose proof (count_nines_le s) as Hle.
  destruct (57 =? c) eqn:E; cbn [andb].
  - cbn [Nat.eqb]. exact IH.
  - apply Nat.eqb_neq. lia.
Qed.

Theorem next_id_none_iff s :
  all_digits s = true -> (next_id s = None <-> all_nines s = true).
Proof.
  intros _. unfold next_id. rewrite count_nines_full.
  destruct (all_nines s); [tauto|].
  destruct (hd_eqb _ _); split; discriminate.
Qed.

(* ------------------------------------------------------------------ *)
(* the successor                                                       *)

Lemma not_nines_room s :
  all_digits s = true -> all_nines s = false ->
  undec s + 1 < 10 ^ N.of_nat (length s).
Proof.
  induction s as [|c s IH]; intros Hd Hn; [discriminate|].
  apply all_digits_cons in Hd. destruct Hd as [Hc Hd].
  cbn [all_nines forallb] in Hn. rewrite undec_cons.
  cbn [length]. rewrite Nat2N.inj_succ, N.pow_succ_r'.
  pose proof (undec_lt_pow s Hd) as Hlt.
  destruct (57 =? c) eqn:E; cbn [andb] in Hn.
  - specialize (IH Hd Hn). revert IH Hlt.
    generalize (10 ^ N.of_nat (length s)) (undec s). intros P u IH Hlt. nia.
  - revert Hlt. generalize (10 ^ N.of_nat (length s)) (undec s). intros P u Hlt. nia.
Qed.

(* the carry case: heads differ, so s = d 9...9 and s+1 = (d+1) 0...0 *)
Lemma carry_case d r e r' :
  all_digits (d :: r) = true -> all_digits (e :: r') = true ->
  length r = length r' ->
  undec (e :: r') = undec (d :: r) + 1 -> d <> e ->
  e = d + 1 /\ undec (e :: r') = (e - 48) * 10 ^ N.of_nat (length r).
Proof.
  intros Hs Ht Hl Hu Hne.
  apply all_digits_cons in Hs. destruct Hs as [Hd Hr].
  apply all_digits_cons in Ht. destruct Ht as [He Hr'].
  pose proof (undec_lt_pow r Hr) as Hur. pose proof (undec_lt_pow r' Hr') as Hur'.
  rewrite !undec_cons in *. rewrite <- Hl in *.
  revert Hu Hur Hur'.
  generalize (10 ^ N.of_nat (length r)) (undec r) (undec r'). intros P u u' Hu Hur Hur'.
  destruct (N.lt_trichotomy d e) as [H|[H|H]]; [|congruence|].
  - assert ((d - 48 + 1) * P <= (e - 48) * P) by (apply N.mul_le_mono_r; lia).
    assert (Hed : e = d + 1).
    { destruct (N.eq_dec e (d + 1)) as [|Hn]; [assumption|exfalso].
      assert ((d - 48 + 2) * P <= (e - 48) * P) by (apply N.mul_le_mono_r; lia).
      lia. }
    split; [exact Hed|]. subst e.
    replace (d + 1 - 48) with (d - 48 + 1) in * by lia. lia.
  - exfalso.
    assert ((e - 48 + 1) * P <= (d - 48) * P) by (apply N.mul_le_mono_r; lia).
    lia.
Qed.

Lemma dec_carry e L :
  49 <= e <= 57 ->
  dec ((e - 48) * 10 ^ N.of_nat L * 11) = e :: e :: repeat 48 L.
Proof.
  intro He.
  rewrite <- (dec_canonical (e :: e :: repeat 48 L)).
  - f_equal. rewrite !undec_cons. cbn [length]. rewrite repeat_length.
    rewrite undec_repeat0, Nat2N.inj_succ, N.pow_succ_r'.
    generalize (10 ^ N.of_nat L). intro P. lia.
  - apply all_digits_cons. split; [lia|]. apply all_digits_cons. split; [lia|].
    apply all_digits_repeat0.
  - discriminate.
  - left. cbn [hd]. lia.
Qed.

(* strong form used for next_id_spec and bump_bid_spec *)
Lemma next_id_strong s t :
  all_digits s = true -> next_id s = Some t ->
  (undec s < undec t)%N /\ (length s <= length t)%nat /\ lt_str s t = true
  /\ all_digits t = true /\ t <> []
  /\ (hd 0 s <> 48 -> hd 0 t <> 48).
Proof.
  intros Hd Hnext. unfold next_id in Hnext. rewrite count_nines_full in Hnext.
  destruct (all_nines s) eqn:Hn9; [discriminate|].
  pose proof (not_nines_room s Hd Hn9) as Hroom.
  assert (Hlen : (0 < length s)%nat) by (destruct s; [discriminate|cbn [length]; lia]).
  pose proof (pad_length (length s) (undec s + 1) Hroom Hlen) as Hpl.
  pose proof (pad_all_digits (length s) (undec s + 1)) as Hpd.
  pose proof (undec_pad (length s) (undec s + 1)) as Hpu.
  remember (pad (length s) (undec s + 1)) as ms eqn:Hms.
  destruct (hd_eqb s ms) eqn:Hh; injection Hnext as <-.
  - (* no carry into the first character *)
    repeat split.
    + lia.
    + lia.
    + rewrite lt_str_digits by (auto; lia). lia.
    + exact Hpd.
    + intro Hx. rewrite Hx in Hpl. cbn [length] in Hpl. lia.
    + destruct s as [|x s]; [discriminate|]. destruct ms as [|y ms]; [discriminate|].
      cbn [hd_eqb] in Hh. cbn [hd]. lia.
  - (* carry *)
    destruct s as [|d r]; [cbn [length] in Hlen; lia|].
    destruct ms as [|e r']; [discriminate|].
    cbn [hd_eqb] in Hh. cbn [length] in Hpl.
    assert (Hl : length r = length r') by lia.
    destruct (carry_case d r e r' Hd Hpd Hl Hpu ltac:(lia)) as [He Hval].
    assert (Hdd : 48 <= d <= 57) by (apply all_digits_cons in Hd; tauto).
    assert (Hed : 48 <= e <= 57) by (apply all_digits_cons in Hpd; tauto).
    rewrite <- Hpu, Hval. rewrite dec_carry by lia.
    repeat split.
    + rewrite Hpu in Hval. rewrite !undec_cons. cbn [length]. rewrite repeat_length.
      rewrite undec_repeat0, Nat2N.inj_succ, N.pow_succ_r'.
      rewrite undec_cons in Hval. revert Hval.
      generalize (10 ^ N.of_nat (length r)) (undec r). intros P u Hval. nia.
    + cbn [length]. rewrite repeat_length. lia.
    + cbn [lt_str]. replace (d <? e) with true by lia. reflexivity.
    + apply all_digits_cons. split; [lia|]. apply all_digits_cons. split; [lia|].
      apply all_digits_repeat0.
    + discriminate.
    + cbn [hd]. lia.
Qed.

Theorem next_id_spec s t : all_digits s = true -> next_id s = Some t ->
  (undec s < undec t)%N /\ (length s <= length t)%nat /\ lt_str s t = true /\ all_digits t = true /\ t <> [].
Proof.
  intros Hd Hn. pose proof (next_id_strong s t Hd Hn). tauto.
Qed.

(* ------------------------------------------------------------------ *)
(* the BUILD bump                                                      *)

Definition widen (b : list N) : list N :=
  if undec b <? 1000 then dec (undec b + 1000) else b.

Lemma bump_bid_widen b : bump_bid b = next_id (widen b).
Proof. reflexivity. Qed.

Lemma dec_1000_length : length (dec 1000) = 4%nat.
Proof. vm_compute. reflexivity. Qed.

Lemma short_lt_1000 b :
  all_digits b = true -> (length b <= 3)%nat -> undec b < 1000.
Proof.
  intros Hd Hl. pose proof (undec_lt_pow b Hd) as H.
  assert (10 ^ N.of_nat (length b) <= 10 ^ 3) by (apply N.pow_le_mono_r; lia).
  change (10 ^ 3) with 1000 in *. lia.
Qed.

Lemma small_long_hd0 b :
  all_digits b = true -> (4 <= length b)%nat -> undec b < 1000 -> hd 0 b = 48.
Proof.
  intros Hd Hl Hu. destruct b as [|c r]; [cbn [length] in Hl; lia|].
  cbn [hd]. cbn [length] in Hl.
  assert (Hc : 48 <= c <= 57) by (apply all_digits_cons in Hd; tauto).
  destruct (N.eq_dec c 48) as [|Hne]; [assumption|exfalso].
  pose proof (undec_ge_pow c r ltac:(lia)) as Hge.
  assert (10 ^ 3 <= 10 ^ N.of_nat (length r)) by (apply N.pow_le_mono_r; lia).
  change (10 ^ 3) with 1000 in *. lia.
Qed.

Lemma widen_facts b :
  all_digits b = true -> b <> [] ->
  all_digits (widen b) = true /\ undec b <= undec (widen b) /\
  1000 <= undec (widen b) /\ (4 <= length (widen b))%nat /\
  (undec b < 1000 -> hd 0 (widen b) <> 48) /\
  (1000 <= undec b -> widen b = b).
Proof.
  intros Hd Hne. unfold widen. destruct (undec b <? 1000) eqn:E.
  - rewrite undec_dec. repeat split; try lia.
    + apply dec_all_digits.
    + rewrite <- dec_1000_length. apply dec_length_le. lia.
    + intros _. apply dec_hd_nonzero. lia.
  - repeat split; try lia; try assumption.
    destruct (le_lt_dec 4 (length b)) as [|Hs]; [assumption|exfalso].
    pose proof (short_lt_1000 b Hd ltac:(lia)). lia.
Qed.

Lemma lt_str_hd0 b t :
  hd 0 b = 48 -> b <> [] -> all_digits t = true -> t <> [] -> hd 0 t <> 48 ->
  lt_str b t = true.
Proof.
  intros Hb Hbn Ht Htn Hh.
  destruct b as [|x b]; [congruence|]. destruct t as [|y t]; [congruence|].
  cbn [hd] in *. apply all_digits_cons in Ht. destruct Ht as [Hy _].
  cbn [lt_str]. replace (x <? y) with true by lia. reflexivity.
Qed.

Theorem bump_bid_spec b t : all_digits b = true -> b <> [] -> bump_bid b = Some t ->
  (undec b < undec t)%N /\ all_digits t = true /\ (4 <= length t)%nat /\ (1000 <= undec t)%N
  /\ ((4 <= length b)%nat -> lt_str b t = true)
  /\ ((1000 <= undec b)%N -> (length b <= length t)%nat).
Proof.
  intros Hd Hne Hb. rewrite bump_bid_widen in Hb.
  destruct (widen_facts b Hd Hne) as (Hwd & Hwu & Hw1000 & Hwl & Hwh & Hwb).
  destruct (next_id_strong _ _ Hwd Hb) as (Hlt & Hlen & Hstr & Htd & Htn & Hth).
  repeat split; try lia; try assumption.
  - intro H4. destruct (N.lt_ge_cases (undec b) 1000) as [Hs|Hs].
    + apply lt_str_hd0; try assumption.
      * apply small_long_hd0; assumption.
      * apply Hth. apply Hwh. exact Hs.
    + rewrite (Hwb Hs) in Hstr. exact Hstr.
  - intro Hs. rewrite (Hwb Hs) in Hlen. exact Hlen.
Qed.

Theorem bump_bid_none_iff b : all_digits b = true -> b <> [] ->
  (bump_bid b = None <-> all_nines (if (undec b <? 1000)%N then dec (undec b + 1000) else b) = true).
Proof.
  intros Hd Hne. rewrite bump_bid_widen.
  destruct (widen_facts b Hd Hne) as (Hwd & _).
  apply next_id_none_iff. exact Hwd.
Qed.

(* every consecutive pair of a bump chain: numeric increase always;
   string increase from the first generated value on *)
Theorem bump_chain_spec n b l : all_digits b = true -> b <> [] -> bump_chain n b = Some l ->
  length l = n /\
  (forall i x y, nth_error (b :: l) i = Some x -> nth_error l i = Some y ->
      (undec x < undec y)%N /\ ((1 <= i)%nat \/ (4 <= length b)%nat -> lt_str x y = true)).
Proof.
  revert b l. induction n as [|n IH]; intros b l Hd Hne Hc.
  - cbn [bump_chain] in Hc. injection Hc as <-. split; [reflexivity|].
    intros i x y _ Hy. destruct i; discriminate.
  - cbn [bump_chain] in Hc.
    destruct (bump_bid b) as [b1|] eqn:Hb; [|discriminate].
    destruct (bump_chain n b1) as [l'|] eqn:Hc'; [|discriminate].
    injection Hc as <-.
    destruct (bump_bid_spec b b1 Hd Hne Hb) as (Hlt & Hd1 & Hl1 & _ & Hstr & _).
    assert (Hne1 : b1 <> []) by (intros ->; cbn [length] in Hl1; lia).
    destruct (IH b1 l' Hd1 Hne1 Hc') as [IHlen IHpairs].
    split; [cbn [length]; lia|].
    intros i x y Hx Hy. destruct i as [|j].
    + cbn [nth_error] in Hx, Hy. injection Hx as <-. injection Hy as <-.
      split; [exact Hlt|]. intros [H|H]; [lia|]. apply Hstr. exact H.
    + cbn [nth_error] in Hx, Hy.
      destruct (IHpairs j x y Hx Hy) as [Hn Hs].
      split; [exact Hn|]. intros _. apply Hs. right. exact Hl1.
Qed.
