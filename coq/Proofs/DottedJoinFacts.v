(* PEP 440 reading of v? + dot-joined digit strings (components may carry leading zeros), for ALL such strings:
   the regex engine on the extracted VERSION_PATTERN parses them to the tuple of their numbers.
   (Moved out of CalverE2E.v so that the PEP 440 theorems do not depend on the pattern-table facts.) *)
From Coq Require Import List Bool NArith ZArith Arith Lia.
From BV Require Import Lib.PyStr Lib.Decimal Lib.Types Lib.Regex Lib.RegexParse Lib.Calendar Model.Pep440.
From BV Require Import Proofs.RegexFacts Proofs.DecimalFacts Proofs.Pep440Facts Proofs.DottedFacts.
Import ListNotations.
Local Open Scope N_scope.

Definition D1 : re := Cat (plus_re digit_re) Eps.

Lemma digits_bounds ds x : all_digits ds = true -> In x ds -> 48 <= x <= 57.
Proof.
  intros A H. unfold all_digits in A. rewrite forallb_forall in A. apply is_digit_bounds. exact (A x H).
Qed.

(* ------------------------------------------------------------------ PEP 440: v + dotted digit strings *)
(* DottedFacts treats dot-joined decimal numbers (dotted ns).  A BUILD string may carry leading zeros, so here the
   components are arbitrary non-empty digit strings; the regex accepts them ([0-9]+) and int() drops
   the zeros.  An optional leading v is taken by the first alternative of v? . *)
Definition dstr (d : list N) : Prop := all_digits d = true /\ d <> [].
Definition dj (ds : list (list N)) : list N := join [46] ds.

Lemma dj_cons2 d e r : dj (d :: e :: r) = d ++ 46 :: dj (e :: r).
Proof. reflexivity. Qed.
Lemma dj_single d : dj [d] = d.
Proof. reflexivity. Qed.
Lemma dstr_cons d : dstr d -> exists c t, d = c :: t /\ is_digit c = true /\ all_digits t = true.
Proof.
  intros [Ha Hne]. destruct d as [|c t]; [congruence|]. exists c, t. split; [reflexivity|].
  unfold all_digits in Ha. cbn [forallb] in Ha. apply andb_true_iff in Ha. exact Ha.
Qed.
Lemma dj_head d ds : dstr d -> exists c t, dj (d :: ds) = c :: t /\ is_digit c = true.
Proof.
  intros Hd. destruct (dstr_cons d Hd) as (c & t & E & Hc & _). subst d.
  destruct ds as [|e r].
  - exists c, t. rewrite dj_single. auto.
  - exists c, (t ++ 46 :: dj (e :: r)). rewrite dj_cons2. auto.
Qed.
Lemma dj_chars : forall ds, Forall dstr ds -> forallb dd_chr (dj ds) = true.
Proof.
  assert (Hd : forall d, dstr d -> forallb dd_chr d = true).
  { intros d [H _]. unfold all_digits in H. rewrite forallb_forall in *. intros c Hc. unfold dd_chr.
    rewrite (H c Hc). reflexivity. }
  induction ds as [|d ds IH]; intros Hg; [reflexivity|].
  pose proof (Forall_inv Hg) as Hdd. pose proof (Forall_inv_tail Hg) as Hg'.
  destruct ds as [|e r]; [rewrite dj_single; apply Hd; exact Hdd|].
  rewrite dj_cons2, forallb_app. rewrite (Hd d Hdd). cbn [forallb andb]. rewrite (IH Hg'). reflexivity.
Qed.
Lemma dj_no_bang ds : Forall dstr ds -> ~ In 33 (dj ds).
Proof.
  intros Hg H. pose proof (dj_chars ds Hg) as Hc. rewrite forallb_forall in Hc.
  specialize (Hc 33 H). vm_compute in Hc. discriminate Hc.
Qed.

Lemma first_star_dotnum_s : forall ds f n0, Forall dstr ds -> (length (dj ds) <= f)%nat ->
  first_match f n0 (Star R_dotnum) (match ds with [] => [] | _ => 46 :: dj ds end) = Some ([], []).
Proof.
  induction ds as [|m r IH]; intros f n0 Hg Hf.
  - apply first_star_stop. unfold R_dotnum. rewrite rems_cat, rems_cls. reflexivity.
  - pose proof (Forall_inv Hg) as Hm. pose proof (Forall_inv_tail Hg) as Hg'.
    destruct (dstr_cons m Hm) as (c & t & Em & _ & _).
    destruct f as [|f]; [exfalso|].
    { destruct (dj_head m r Hm) as (c' & t' & E & _). rewrite E in Hf. cbn [length] in Hf. lia. }
    set (rest := match r with [] => [] | _ => 46 :: dj r end).
    assert (E : dj (m :: r) = m ++ rest).
    { destruct r as [|m' r']; [unfold rest; rewrite app_nil_r; reflexivity|]. apply dj_cons2. }
    assert (Hrest : nodigit_head rest = true) by (destruct r; reflexivity).
    assert (Hlen : (length (dj r) <= f)%nat).
    { rewrite E, app_length in Hf. rewrite Em in Hf. unfold rest in Hf. destruct r; [change (dj []) with (@nil N)|]; cbn [length] in *; lia. }
    eapply first_star_step0.
    + unfold R_dotnum. eapply first_cat0.
      * unfold first_match. rewrite rems_cls, cls_single. reflexivity.
      * apply first_cat_eps. rewrite E. apply first_plus_digits.
        -- exact (proj1 Hm).
        -- exact (proj2 Hm).
        -- exact Hrest.
        -- rewrite E, app_length in Hf. lia.
    + rewrite E. cbn [length]. rewrite app_length. lia.
    + exact (IH f n0 Hg' Hlen).
Qed.

Lemma first_release_body_s d ds f n0 : Forall dstr (d :: ds) -> (length (dj (d :: ds)) <= f)%nat ->
  first_match f n0 R_release_body (dj (d :: ds)) = Some ([], []).
Proof.
  intros Hg Hf. pose proof (Forall_inv Hg) as Hd. pose proof (Forall_inv_tail Hg) as Hg'.
  set (rest := match ds with [] => [] | _ => 46 :: dj ds end).
  assert (E : dj (d :: ds) = d ++ rest).
  { destruct ds as [|m' r']; [unfold rest; rewrite app_nil_r; reflexivity|]. apply dj_cons2. }
  assert (Hrest : nodigit_head rest = true) by (destruct ds; reflexivity).
  unfold R_release_body. eapply first_cat0.
  - rewrite E. apply first_plus_digits.
    + exact (proj1 Hd).
    + exact (proj2 Hd).
    + exact Hrest.
    + rewrite E, app_length in Hf. lia.
  - apply first_cat_eps.
    assert (Hlen : (length (dj ds) <= f)%nat).
    { rewrite E, app_length in Hf. unfold rest in Hf. destruct ds; [change (dj []) with (@nil N)|]; cbn [length] in *; lia. }
    exact (first_star_dotnum_s ds f n0 Hg' Hlen).
Qed.

Lemma first_inner_s d ds f n0 : Forall dstr (d :: ds) -> (length (dj (d :: ds)) <= f)%nat ->
  first_match f n0 R_inner (dj (d :: ds)) = Some ([(n_release, dj (d :: ds))], []).
Proof.
  intros Hg Hf. unfold R_inner.
  change [(n_release, dj (d :: ds))] with (([] : env) ++ ([(n_release, dj (d :: ds))] ++ [])).
  eapply first_cat.
  - rewrite first_alt_r; [apply first_eps|].
    unfold R_epoch_alt. apply rems_cat_absent. apply dj_no_bang. exact Hg.
  - eapply first_cat.
    + rewrite <- (take_consumed_nil (dj (d :: ds))) at 2.
      apply first_grp. apply first_release_body_s; assumption.
    + apply first_tail1_nil.
Qed.

(* with the leading v *)
Theorem search_vdj d ds : Forall dstr (d :: ds) ->
  re_search vre (118 :: dj (d :: ds)) = Some (0%nat, [(n_release, dj (d :: ds))], []).
Proof.
  intros Hg. unfold re_search. apply search_go_first.
  set (s := dj (d :: ds)).
  change vre with (Cat Bol (Cat (Star space_re) (Cat R_optv (Cat R_inner R_tail2)))).
  change [(n_release, s)] with (([] : env) ++ ([] ++ ([] ++ ([(n_release, s)] ++ [])))).
  eapply first_cat.
  - unfold first_match. rewrite rems_bol, Nat.eqb_refl. reflexivity.
  - eapply first_cat.
    + apply first_star_stop. unfold space_re. rewrite rems_cls. reflexivity.
    + eapply first_cat.
      * unfold R_optv. apply first_alt_l. unfold first_match. rewrite rems_cls. reflexivity.
      * eapply first_cat.
        -- apply first_inner_s; [exact Hg|]. unfold s. cbn [length]. lia.
        -- apply first_tail2_nil.
Qed.
(* and without it *)
Theorem search_dj d ds : Forall dstr (d :: ds) ->
  re_search vre (dj (d :: ds)) = Some (0%nat, [(n_release, dj (d :: ds))], []).
Proof.
  intros Hg. unfold re_search. apply search_go_first.
  set (s := dj (d :: ds)).
  destruct (dj_head d ds (Forall_inv Hg)) as (c & t & E & Hc). fold s in E.
  change vre with (Cat Bol (Cat (Star space_re) (Cat R_optv (Cat R_inner R_tail2)))).
  change [(n_release, s)] with (([] : env) ++ ([] ++ ([] ++ ([(n_release, s)] ++ [])))).
  eapply first_cat.
  - unfold first_match. rewrite rems_bol, Nat.eqb_refl. reflexivity.
  - eapply first_cat.
    + apply first_star_stop. unfold space_re. rewrite rems_cls, E, digit_not_space by exact Hc. reflexivity.
    + eapply first_cat.
      * unfold R_optv. rewrite first_alt_r; [apply first_eps|].
        rewrite rems_cls, E, digit_not_v by exact Hc. reflexivity.
      * eapply first_cat.
        -- apply first_inner_s; [exact Hg|]. unfold s. lia.
        -- apply first_tail2_nil.
Qed.

Lemma ssplit_dj : forall ds, Forall dstr ds -> ds <> [] -> ssplit [46] (dj ds) = ds.
Proof.
  unfold ssplit. induction ds as [|d ds IH]; intros Hg Hne; [congruence|].
  pose proof (Forall_inv Hg) as Hd. pose proof (Forall_inv_tail Hg) as Hg'.
  destruct ds as [|m r].
  - rewrite dj_single. rewrite <- (app_nil_r d) at 1.
    rewrite split_go_digits by exact (proj1 Hd). cbn [split_go]. rewrite app_nil_r. reflexivity.
  - rewrite dj_cons2, split_go_digits by exact (proj1 Hd).
    cbn [split_go prefixb]. rewrite N.eqb_refl. cbn [andb length Nat.sub].
    rewrite IH by (try exact Hg'; discriminate). rewrite app_nil_r. reflexivity.
Qed.

Lemma parse_of_env s off (ds : list (list N)) :
  re_search vre s = Some (off, [(n_release, dj ds)], []) -> Forall dstr ds -> ds <> [] ->
  parse_pep440 s = Some (mkpver 0 (map undec ds) None None None None).
Proof.
  intros Hs Hg Hne. rewrite (parse_of_search _ _ _ _ Hs).
  change (g n_epoch [(n_release, dj ds)]) with (@None (list N)).
  change (g n_release [(n_release, dj ds)]) with (Some (dj ds)).
  change (g n_pre_l [(n_release, dj ds)]) with (@None (list N)).
  change (g n_pre_n [(n_release, dj ds)]) with (@None (list N)).
  change (g n_post_l [(n_release, dj ds)]) with (@None (list N)).
  change (g n_post_n1 [(n_release, dj ds)]) with (@None (list N)).
  change (g n_post_n2 [(n_release, dj ds)]) with (@None (list N)).
  change (g n_dev_l [(n_release, dj ds)]) with (@None (list N)).
  change (g n_dev_n [(n_release, dj ds)]) with (@None (list N)).
  change (g n_local [(n_release, dj ds)]) with (@None (list N)).
  cbn [nonempty parse_letter_version parse_local].
  rewrite ssplit_dj by assumption. reflexivity.
Qed.

(* parse_dotted generalised: non-empty digit strings (leading zeros allowed), optional leading v *)
Theorem parse_vdj : forall ds, Forall dstr ds -> ds <> [] ->
  parse_pep440 (118 :: dj ds) = Some (mkpver 0 (map undec ds) None None None None).
Proof.
  intros [|d ds] Hg Hne; [congruence|]. exact (parse_of_env _ _ _ (search_vdj d ds Hg) Hg Hne).
Qed.
Theorem parse_dj : forall ds, Forall dstr ds -> ds <> [] ->
  parse_pep440 (dj ds) = Some (mkpver 0 (map undec ds) None None None None).
Proof.
  intros [|d ds] Hg Hne; [congruence|]. exact (parse_of_env _ _ _ (search_dj d ds Hg) Hg Hne).
Qed.
