(* A dotted sequence of decimal numbers is parsed by the PEP 440 model as exactly that release
   tuple, for all numbers: symbolic reasoning about the backtracking matcher on the concrete
   regex tree obtained from VERSION_PATTERN.  Consequences: the comparison key of a dotted
   string, the order of two dotted strings of equal length, and C14 at the level of rendered
   strings (coherent calendar keys render to dotted strings that never decrease). *)
From Coq Require Import List Bool NArith ZArith Arith Lia.
From BV Require Import Lib.PyStr Lib.Decimal Lib.Regex Lib.Calendar Model.CalKeys Model.Pep440.
From BV Require Import Proofs.RegexFacts Proofs.DecimalFacts Proofs.Pep440Facts Proofs.CalendarFacts.
Import ListNotations.
Local Open Scope N_scope.

Definition dotted (ns : list N) : list N := join [46] (map dec ns).

(* ------------------------------------------------------------------ the shape of the regex *)
Definition VRE := Eval vm_compute in version_re.
Definition vre : re := match VRE with Some r => r | None => Eps end.
Definition cat_l (r : re) : re := match r with Cat a _ => a | _ => Eps end.
Definition cat_r (r : re) : re := match r with Cat _ b => b | _ => Eps end.
Definition alt_l (r : re) : re := match r with Alt a _ => a | _ => Eps end.

(* Bol ; \s* ; v? ; main ; local? \s* $ *)
Definition R_body : re := Eval vm_compute in cat_r (cat_r (cat_r vre)).
Definition R_main : re := Eval vm_compute in cat_l R_body.
(* everything after the main part: optional local version, \s*, $ *)
Definition R_tail2 : re := Eval vm_compute in cat_r R_body.
(* the epoch capture group (without the exclamation mark) *)
Definition R_epoch_grp : re := Eval vm_compute in cat_l (alt_l (cat_l R_main)).
(* optional pre / post / dev groups *)
Definition R_tail1 : re := Eval vm_compute in cat_r (cat_r R_main).

Definition R_dotnum : re := Cat (Cls false [(46, 46)]) (Cat (plus_re digit_re) Eps).
Definition R_release_body : re := Cat (plus_re digit_re) (Cat (Star R_dotnum) Eps).
Definition R_epoch_alt : re := Cat R_epoch_grp (Cat (Cls false [(33, 33)]) Eps).
Definition R_optv : re := Alt (Cls false [(118, 118); (86, 86)]) Eps.
Definition R_inner : re :=
  Cat (Alt R_epoch_alt Eps) (Cat (Grp n_release R_release_body) R_tail1).

Lemma version_re_shape :
  version_re = Some (Cat Bol (Cat (Star space_re) (Cat R_optv (Cat R_inner R_tail2)))).
Proof. vm_compute. reflexivity. Qed.

(* ------------------------------------------------------------------ generic matcher facts *)
(* every remainder is a suffix of the subject *)
Lemma rems_suffix : forall r f n0 s e s', In (e, s') (rems f n0 r s) -> exists p, s = p ++ s'.
Proof.
  induction r as [|neg p|a IHa b IHb|a IHa b IHb|a IHa|n a IHa| |]; intros f n0 s e s' Hin.
  - rewrite rems_eps in Hin. destruct Hin as [[= _ <-]|[]]. exists []; reflexivity.
  - rewrite rems_cls in Hin. destruct s as [|c t]; [destruct Hin|].
    destruct (cls_accepts neg p c); [|destruct Hin]. destruct Hin as [[= _ <-]|[]]. exists [c]; reflexivity.
  - rewrite rems_cat in Hin. apply in_flat_map in Hin as [[e1 s1] [H1 H2]].
    apply in_map_iff in H2 as [[e2 s2] [[= _ ->] H2]].
    apply IHa in H1 as [p1 ->]. apply IHb in H2 as [p2 ->]. exists (p1 ++ p2). rewrite app_assoc. reflexivity.
  - rewrite rems_alt in Hin. apply in_app_or in Hin as [H|H]; [eapply IHa|eapply IHb]; exact H.
  - revert s e s' Hin. induction f as [|f IHf]; intros s e s' Hin.
    + rewrite rems_star0 in Hin. destruct Hin as [[= _ <-]|[]]. exists []; reflexivity.
    + rewrite rems_starS in Hin. apply in_app_or in Hin as [H|H].
      * apply in_flat_map in H as [[e1 s1] [H1 H2]].
        destruct (Nat.ltb (length s1) (length s)); [|destruct H2].
        apply in_map_iff in H2 as [[e2 s2] [[= _ ->] H2]].
        apply IHa in H1 as [p1 ->]. apply IHf in H2 as [p2 ->]. exists (p1 ++ p2). rewrite app_assoc. reflexivity.
      * destruct H as [[= _ <-]|[]]. exists []; reflexivity.
  - rewrite rems_grp in Hin. apply in_map_iff in Hin as [[e1 s1] [[= _ ->] H]]. eapply IHa; exact H.
  - rewrite rems_bol in Hin. destruct (Nat.eqb (length s) n0); [|destruct Hin].
    destruct Hin as [[= _ <-]|[]]. exists []; reflexivity.
  - rewrite rems_eol in Hin. destruct s as [|c t]; [destruct Hin as [[= _ <-]|[]]; exists []; reflexivity|].
    destruct c as [|p]; [destruct Hin|].
    do 4 (destruct p as [p|p|]; try destruct Hin).
    destruct t; [|destruct Hin]. destruct Hin as [[= _ <-]|[]]. exists []; reflexivity.
Qed.

Lemma flat_map_nil_in {A B} (f : A -> list B) l : (forall x, In x l -> f x = []) -> flat_map f l = [].
Proof. induction l; simpl; intros H; [reflexivity|]. rewrite H by auto. rewrite IHl; auto. Qed.

(* a required character that does not occur in the subject: A c ... never matches *)
Lemma rems_cat_absent f n0 a c b s :
  ~ In c s -> rems f n0 (Cat a (Cat (Cls false [(c, c)]) b)) s = [].
Proof.
  intros Hc. rewrite rems_cat. apply flat_map_nil_in. intros [e1 s1] Hin.
  apply rems_suffix in Hin as [p ->].
  rewrite rems_cat_nil; [reflexivity|]. rewrite rems_cls.
  destruct s1 as [|d t]; [reflexivity|].
  rewrite cls_single_ne; [reflexivity|]. intros ->. apply Hc. apply in_or_app. right. left. reflexivity.
Qed.

(* the preferred match of a greedy star *)
Lemma first_star_step f n0 a s e1 s1 e2 s2 :
  first_match (S f) n0 a s = Some (e1, s1) -> (length s1 < length s)%nat ->
  first_match f n0 (Star a) s1 = Some (e2, s2) ->
  first_match (S f) n0 (Star a) s = Some (e1 ++ e2, s2).
Proof.
  unfold first_match. intros H1 Hlt H2. rewrite rems_starS.
  destruct (rems (S f) n0 a s) as [|[e1' s1'] l]; simpl in H1; [discriminate|]. injection H1 as -> ->.
  cbn [flat_map]. apply Nat.ltb_lt in Hlt. rewrite Hlt.
  destruct (rems f n0 (Star a) s1) as [|[e2' s2'] l']; simpl in H2; [discriminate|]. injection H2 as -> ->.
  reflexivity.
Qed.
Lemma first_star_step0 f n0 a s s1 s2 :
  first_match (S f) n0 a s = Some ([], s1) -> (length s1 < length s)%nat ->
  first_match f n0 (Star a) s1 = Some ([], s2) ->
  first_match (S f) n0 (Star a) s = Some ([], s2).
Proof. intros H1 Hlt H2. exact (first_star_step f n0 a s [] s1 [] s2 H1 Hlt H2). Qed.
Lemma first_star_stop f n0 a s :
  rems f n0 a s = [] -> first_match f n0 (Star a) s = Some ([], s).
Proof.
  unfold first_match. intros H. destruct f as [|f]; [rewrite rems_star0; reflexivity|].
  rewrite rems_starS, H. reflexivity.
Qed.

Lemma search_go_first f n0 r off s e s' :
  first_match f n0 r s = Some (e, s') -> search_go f n0 r off s = Some (off, e, s').
Proof. intros H. destruct s; simpl; rewrite H; reflexivity. Qed.

(* on the empty subject neither the fuel nor (without ^) the subject length matters *)
Lemma rems_nil_fuel r f n0 : rems f n0 r [] = rems 0 n0 r [].
Proof. apply rems_fuel; simpl; lia. Qed.

(* ------------------------------------------------------------------ characters of a dotted string *)
Definition dd_chr (c : N) : bool := is_digit c || (c =? 46).
Lemma dotted_cons2 n m r : dotted (n :: m :: r) = dec n ++ 46 :: dotted (m :: r).
Proof. reflexivity. Qed.
Lemma dotted_single n : dotted [n] = dec n.
Proof. reflexivity. Qed.

Lemma dotted_chars : forall ns, forallb dd_chr (dotted ns) = true.
Proof.
  assert (Hd : forall n, forallb dd_chr (dec n) = true).
  { intros n. pose proof (dec_all_digits n) as H. unfold all_digits in H.
    rewrite forallb_forall in *. intros c Hc. unfold dd_chr. rewrite (H c Hc). reflexivity. }
  induction ns as [|n ns IH]; [reflexivity|].
  destruct ns as [|m r]; [apply Hd|].
  rewrite dotted_cons2, forallb_app. rewrite Hd. cbn [forallb andb]. rewrite IH. reflexivity.
Qed.
Lemma dotted_no_bang ns : ~ In 33 (dotted ns).
Proof.
  intros H. pose proof (dotted_chars ns) as Hc. rewrite forallb_forall in Hc.
  specialize (Hc 33 H). vm_compute in Hc. discriminate Hc.
Qed.

Lemma dec_cons n : exists d t, dec n = d :: t /\ is_digit d = true /\ all_digits t = true.
Proof.
  pose proof (dec_all_digits n) as H. pose proof (dec_nonempty n) as Hne.
  destruct (dec n) as [|d t]; [congruence|]. exists d, t. split; [reflexivity|].
  unfold all_digits in H. simpl in H. apply andb_true_iff in H. exact H.
Qed.
Lemma dotted_head n ns : exists d t, dotted (n :: ns) = d :: t /\ is_digit d = true.
Proof.
  destruct (dec_cons n) as (d & t & E & Hd & _).
  destruct ns as [|m r].
  - exists d, t. rewrite dotted_single. auto.
  - exists d, (t ++ 46 :: dotted (m :: r)). rewrite dotted_cons2, E. auto.
Qed.

Lemma digit_not_space d : is_digit d = true -> cls_accepts false [(9, 13); (28, 32)] d = false.
Proof.
  unfold is_digit, cls_accepts, inr. cbn [existsb xorb]. intros H.
  apply andb_true_iff in H as [H1 H2]. apply N.leb_le in H1, H2.
  destruct (N.leb_spec 9 d), (N.leb_spec d 13), (N.leb_spec 28 d), (N.leb_spec d 32); simpl; auto; lia.
Qed.
Lemma digit_not_v d : is_digit d = true -> cls_accepts false [(118, 118); (86, 86)] d = false.
Proof.
  unfold is_digit, cls_accepts, inr. cbn [existsb xorb]. intros H.
  apply andb_true_iff in H as [H1 H2]. apply N.leb_le in H1, H2.
  destruct (N.leb_spec 118 d), (N.leb_spec d 118), (N.leb_spec 86 d), (N.leb_spec d 86); simpl; auto; lia.
Qed.
Lemma digit_not_dot d : is_digit d = true -> cls_accepts false [(46, 46)] d = false.
Proof.
  unfold is_digit. intros H. apply andb_true_iff in H as [H1 H2]. apply N.leb_le in H1, H2.
  apply cls_single_ne. lia.
Qed.

(* ------------------------------------------------------------------ the release group on a dotted string *)
(* (?:\.[0-9]+)* consumes every remaining .number *)
Lemma first_star_dotnum : forall ns f n0, (length (dotted ns) <= f)%nat ->
  first_match f n0 (Star R_dotnum) (match ns with [] => [] | _ => 46 :: dotted ns end) = Some ([], []).
Proof.
  induction ns as [|m r IH]; intros f n0 Hf.
  - apply first_star_stop. unfold R_dotnum. rewrite rems_cat, rems_cls. reflexivity.
  - destruct f as [|f]; [exfalso|].
    { destruct (dotted_head m r) as (d & t & E & _). rewrite E in Hf. simpl in Hf. lia. }
    set (rest := match r with [] => [] | _ => 46 :: dotted r end).
    assert (E : dotted (m :: r) = dec m ++ rest).
    { destruct r as [|m' r']; [unfold rest; rewrite app_nil_r; reflexivity|]. apply dotted_cons2. }
    assert (Hrest : nodigit_head rest = true) by (destruct r; reflexivity).
    assert (Hlen : (length (dotted r) <= f)%nat).
    { rewrite E, app_length in Hf. destruct (dec_cons m) as (d & t & Ed & _). rewrite Ed in Hf.
      unfold rest in Hf. destruct r; simpl in *; lia. }
    eapply first_star_step0.
    + unfold R_dotnum. eapply first_cat0.
      * unfold first_match. rewrite rems_cls, cls_single. reflexivity.
      * apply first_cat_eps. rewrite E. apply first_plus_digits.
        -- apply dec_all_digits.
        -- apply dec_nonempty.
        -- exact Hrest.
        -- rewrite E, app_length in Hf. lia.
    + rewrite E. cbn [length]. rewrite app_length. lia.
    + exact (IH f n0 Hlen).
Qed.

Lemma first_release_body n ns f n0 : (length (dotted (n :: ns)) <= f)%nat ->
  first_match f n0 R_release_body (dotted (n :: ns)) = Some ([], []).
Proof.
  intros Hf.
  set (rest := match ns with [] => [] | _ => 46 :: dotted ns end).
  assert (E : dotted (n :: ns) = dec n ++ rest).
  { destruct ns as [|m' r']; [unfold rest; rewrite app_nil_r; reflexivity|]. apply dotted_cons2. }
  assert (Hrest : nodigit_head rest = true) by (destruct ns; reflexivity).
  unfold R_release_body. eapply first_cat0.
  - rewrite E. apply first_plus_digits.
    + apply dec_all_digits.
    + apply dec_nonempty.
    + exact Hrest.
    + rewrite E, app_length in Hf. lia.
  - apply first_cat_eps.
    assert (Hlen : (length (dotted ns) <= f)%nat).
    { rewrite E, app_length in Hf. unfold rest in Hf. destruct ns; simpl in *; lia. }
    exact (first_star_dotnum ns f n0 Hlen).
Qed.

(* the optional pre / post / dev groups, and the optional local part, \s* and $, on the empty rest *)
Lemma first_tail1_nil f n0 : first_match f n0 R_tail1 [] = Some ([], []).
Proof. unfold first_match. rewrite rems_nil_fuel. vm_compute. reflexivity. Qed.
Lemma first_tail2_nil f n0 : first_match f n0 R_tail2 [] = Some ([], []).
Proof. unfold first_match. rewrite rems_nil_fuel. vm_compute. reflexivity. Qed.

Lemma take_consumed_nil (s : list N) : take_consumed s [] = s.
Proof. unfold take_consumed. simpl. rewrite Nat.sub_0_r. apply firstn_all. Qed.

Lemma first_inner n ns f n0 : (length (dotted (n :: ns)) <= f)%nat ->
  first_match f n0 R_inner (dotted (n :: ns)) = Some ([(n_release, dotted (n :: ns))], []).
Proof.
  intros Hf. unfold R_inner.
  change [(n_release, dotted (n :: ns))] with (([] : env) ++ ([(n_release, dotted (n :: ns))] ++ [])).
  eapply first_cat.
  - rewrite first_alt_r; [apply first_eps|].
    unfold R_epoch_alt. apply rems_cat_absent. apply dotted_no_bang.
  - eapply first_cat.
    + rewrite <- (take_consumed_nil (dotted (n :: ns))) at 2.
      apply first_grp. apply first_release_body. exact Hf.
    + apply first_tail1_nil.
Qed.

Theorem search_dotted n ns :
  re_search vre (dotted (n :: ns)) = Some (0%nat, [(n_release, dotted (n :: ns))], []).
Proof.
  unfold re_search. apply search_go_first.
  set (s := dotted (n :: ns)).
  destruct (dotted_head n ns) as (d & t & E & Hd). fold s in E.
  change vre with (Cat Bol (Cat (Star space_re) (Cat R_optv (Cat R_inner R_tail2)))).
  change [(n_release, s)] with (([] : env) ++ ([] ++ ([] ++ ([(n_release, s)] ++ [])))).
  eapply first_cat.
  - unfold first_match. rewrite rems_bol, Nat.eqb_refl. reflexivity.
  - eapply first_cat.
    + apply first_star_stop. unfold space_re. rewrite rems_cls, E, digit_not_space by exact Hd. reflexivity.
    + eapply first_cat.
      * unfold R_optv. rewrite first_alt_r; [apply first_eps|].
        rewrite rems_cls, E, digit_not_v by exact Hd. reflexivity.
      * eapply first_cat.
        -- apply first_inner. unfold s. lia.
        -- apply first_tail2_nil.
Qed.

(* ------------------------------------------------------------------ from the captures to the parsed version *)
Lemma version_re_vre : version_re = Some vre.
Proof. vm_compute. reflexivity. Qed.

Lemma parse_of_search s off e rest :
  re_search vre s = Some (off, e, rest) ->
  parse_pep440 s =
  Some (mkpver (if nonempty (g n_epoch e) then undec (match g n_epoch e with Some d => d | None => [] end) else 0)
               (map undec (ssplit [46] (match g n_release e with Some d => d | None => [] end)))
               (parse_letter_version (g n_pre_l e) (g n_pre_n e))
               (parse_letter_version (g n_post_l e) (if nonempty (g n_post_n1 e) then g n_post_n1 e else g n_post_n2 e))
               (parse_letter_version (g n_dev_l e) (g n_dev_n e))
               (parse_local (g n_local e))).
Proof. intros H. unfold parse_pep440. rewrite version_re_vre, H. reflexivity. Qed.

(* splitting at the dots gives back the decimal pieces *)
Lemma split_go_nonempty : forall s k, split_go [46] k s <> [].
Proof.
  induction s as [|c t IH]; intros k; cbn [split_go prefixb]; [discriminate|].
  destruct k; [|apply IH].
  destruct (46 =? c); cbn [andb]; [discriminate|].
  destruct (split_go [46] 0 t); discriminate.
Qed.
Lemma split_go_digits : forall ds rest, all_digits ds = true ->
  split_go [46] 0 (ds ++ rest) =
  match split_go [46] 0 rest with h :: r => (ds ++ h) :: r | [] => [ds] end.
Proof.
  induction ds as [|d ds IH]; intros rest H.
  - simpl. destruct (split_go [46] 0 rest) eqn:E; [|reflexivity].
    exfalso. exact (split_go_nonempty rest 0%nat E).
  - unfold all_digits in H. simpl in H. apply andb_true_iff in H as [Hd Hds].
    assert (Hne : (46 =? d) = false).
    { unfold is_digit in Hd. apply andb_true_iff in Hd as [H1 H2]. apply N.leb_le in H1, H2.
      apply N.eqb_neq. lia. }
    cbn [app split_go prefixb]. rewrite Hne. cbn [andb].
    rewrite (IH rest Hds). destruct (split_go [46] 0 rest); reflexivity.
Qed.
Lemma ssplit_dotted : forall ns, ns <> [] -> ssplit [46] (dotted ns) = map dec ns.
Proof.
  unfold ssplit. induction ns as [|n ns IH]; intros Hne; [congruence|].
  destruct ns as [|m r].
  - rewrite dotted_single. rewrite <- (app_nil_r (dec n)) at 1.
    rewrite split_go_digits by apply dec_all_digits. simpl. rewrite app_nil_r. reflexivity.
  - rewrite dotted_cons2, split_go_digits by apply dec_all_digits.
    cbn [split_go prefixb]. rewrite N.eqb_refl. cbn [andb length Nat.sub].
    rewrite IH by discriminate. rewrite app_nil_r. reflexivity.
Qed.

Lemma map_undec_dec ns : map undec (map dec ns) = ns.
Proof. induction ns as [|n ns IH]; simpl; [reflexivity|]. rewrite undec_dec, IH. reflexivity. Qed.

Theorem parse_dotted : forall ns, ns <> [] ->
  parse_pep440 (dotted ns) = Some (mkpver 0 ns None None None None).
Proof.
  intros [|n ns] Hne; [congruence|].
  rewrite (parse_of_search _ _ _ _ (search_dotted n ns)).
  change (g n_epoch [(n_release, dotted (n :: ns))]) with (@None (list N)).
  change (g n_release [(n_release, dotted (n :: ns))]) with (Some (dotted (n :: ns))).
  change (g n_pre_l [(n_release, dotted (n :: ns))]) with (@None (list N)).
  change (g n_pre_n [(n_release, dotted (n :: ns))]) with (@None (list N)).
  change (g n_post_l [(n_release, dotted (n :: ns))]) with (@None (list N)).
  change (g n_post_n1 [(n_release, dotted (n :: ns))]) with (@None (list N)).
  change (g n_post_n2 [(n_release, dotted (n :: ns))]) with (@None (list N)).
  change (g n_dev_l [(n_release, dotted (n :: ns))]) with (@None (list N)).
  change (g n_dev_n [(n_release, dotted (n :: ns))]) with (@None (list N)).
  change (g n_local [(n_release, dotted (n :: ns))]) with (@None (list N)).
  cbn [nonempty parse_letter_version parse_local].
  rewrite ssplit_dotted by discriminate. rewrite map_undec_dec. reflexivity.
Qed.

Corollary version_key_dotted : forall ns, ns <> [] ->
  version_key (dotted ns) = KVer 0 (drop_trailing_zeros ns) PPosInf PNegInf PPosInf None.
Proof. intros ns H. unfold version_key. rewrite (parse_dotted ns H). reflexivity. Qed.

Corollary is_pep440_dotted : forall ns, ns <> [] -> is_pep440 (dotted ns) = true.
Proof. intros ns H. unfold is_pep440. rewrite (parse_dotted ns H). reflexivity. Qed.

(* ------------------------------------------------------------------ order of dotted strings *)
Lemma cmp_list_nil_r (a : list N) : cmp_list N.compare a [] = match a with [] => Eq | _ => Gt end.
Proof. destruct a; reflexivity. Qed.

(* for tuples of equal length, stripping trailing zeros does not change the comparison *)
Lemma cmp_strip : forall a b, length a = length b ->
  cmp_list N.compare (drop_trailing_zeros a) (drop_trailing_zeros b) = cmp_list N.compare a b.
Proof.
  induction a as [|x a IH]; intros [|y b] Hlen; try discriminate Hlen; [reflexivity|].
  injection Hlen as Hlen. specialize (IH b Hlen).
  rewrite !drop_trailing_zeros_cons. cbn [cmp_list].
  destruct (N.compare_spec x y) as [->|Hlt|Hgt].
  - rewrite <- IH.
    destruct (drop_trailing_zeros a) as [|p l]; destruct (drop_trailing_zeros b) as [|q l'];
      destruct (y =? 0); cbn [cmp_list]; rewrite ?N.compare_refl; reflexivity.
  - assert (Hy : (y =? 0) = false) by (apply N.eqb_neq; lia).
    apply N.compare_lt_iff in Hlt. rewrite Hy.
    destruct (drop_trailing_zeros a); destruct (drop_trailing_zeros b); destruct (x =? 0);
      cbn [cmp_list]; rewrite ?Hlt; reflexivity.
  - assert (Hx : (x =? 0) = false) by (apply N.eqb_neq; lia).
    apply N.compare_gt_iff in Hgt. rewrite Hx.
    destruct (drop_trailing_zeros a); destruct (drop_trailing_zeros b); destruct (y =? 0);
      cbn [cmp_list]; rewrite ?Hgt; reflexivity.
Qed.

Lemma ver_le_dotted_gen : forall a b, a <> [] -> b <> [] ->
  ver_le (dotted a) (dotted b) =
  match cmp_list N.compare (drop_trailing_zeros a) (drop_trailing_zeros b) with Gt => false | _ => true end.
Proof.
  intros a b Ha Hb. unfold ver_le. rewrite (version_key_dotted a Ha), (version_key_dotted b Hb).
  unfold key_le. cbn [cmp_key]. unfold lexc. cbn [N.compare cmp_ppd cmp_local].
  destruct (cmp_list N.compare (drop_trailing_zeros a) (drop_trailing_zeros b)); reflexivity.
Qed.

Theorem ver_le_dotted : forall a b, a <> [] -> b <> [] -> length a = length b ->
  ver_le (dotted a) (dotted b) = match cmp_list N.compare a b with Gt => false | _ => true end.
Proof. intros a b Ha Hb Hlen. rewrite (ver_le_dotted_gen a b Ha Hb), (cmp_strip a b Hlen). reflexivity. Qed.

Theorem ver_lt_dotted : forall a b, a <> [] -> b <> [] -> length a = length b ->
  ver_lt (dotted a) (dotted b) = match cmp_list N.compare a b with Lt => true | _ => false end.
Proof.
  intros a b Ha Hb Hlen. rewrite ver_lt_iff_not_le, (ver_le_dotted b a Hb Ha (eq_sym Hlen)).
  rewrite (o_anti (ord_list N.compare ord_N) a b).
  destruct (cmp_list N.compare a b); reflexivity.
Qed.

(* ------------------------------------------------------------------ C14 on rendered strings *)
Definition zkey (k : list cfield) (n : Z) : list N := map Z.to_N (CalKeys.key k (cal_of n)).

Lemma year_y_pos n : (0 <= n)%Z -> (1 <= year_y (cal_of n))%Z.
Proof.
  intros Hn. pose proof (year_y_mono 0 n ltac:(lia)) as Y.
  assert (E : year_y (cal_of 0) = 1%Z) by (vm_compute; reflexivity).
  rewrite E in Y. exact Y.
Qed.

Lemma cget_nonneg n f : (0 <= n)%Z -> (0 <= cget f (cal_of n))%Z.
Proof.
  intros Hn. pose proof (cal_ranges n Hn) as R. pose proof (year_y_pos n Hn) as Y.
  unfold cal_in_range in R. rewrite !andb_true_iff in R. rewrite !Z.leb_le in R.
  destruct f; cbn [cget]; lia.
Qed.

Lemma key_nonneg k n : (0 <= n)%Z -> Forall (fun z => (0 <= z)%Z) (CalKeys.key k (cal_of n)).
Proof.
  intros Hn. unfold CalKeys.key. induction k as [|f k IH]; simpl; constructor; [apply cget_nonneg; exact Hn|exact IH].
Qed.

Lemma lex_le_toN : forall a b, length a = length b ->
  Forall (fun z => (0 <= z)%Z) a -> Forall (fun z => (0 <= z)%Z) b -> lex_le a b = true ->
  cmp_list N.compare (map Z.to_N a) (map Z.to_N b) <> Gt.
Proof.
  induction a as [|x a IH]; intros [|y b] Hlen Ha Hb H; try discriminate Hlen; [simpl; discriminate|].
  injection Hlen as Hlen. inversion Ha as [|? ? Hx Ha']; subst. inversion Hb as [|? ? Hy Hb']; subst.
  cbn [lex_le] in H. cbn [map cmp_list].
  apply orb_true_iff in H as [H|H].
  - apply Z.ltb_lt in H.
    assert (L : Z.to_N x < Z.to_N y) by (apply Z2N.inj_lt; lia).
    apply N.compare_lt_iff in L. rewrite L. discriminate.
  - apply andb_true_iff in H as [E H]. apply Z.eqb_eq in E. subst y.
    rewrite N.compare_refl. exact (IH b Hlen Ha' Hb' H).
Qed.

Lemma coherent_nonempty k : In k coherent_keys -> k <> [].
Proof.
  intros H ->. unfold coherent_keys in H. simpl in H.
  repeat (destruct H as [H|H]; [discriminate H|]). exact H.
Qed.

Lemma zkey_length k n : length (zkey k n) = length k.
Proof. unfold zkey. rewrite map_length. apply key_length. Qed.
Lemma zkey_nonempty k n : k <> [] -> zkey k n <> [].
Proof. intros Hk E. apply Hk. apply length_zero_iff_nil. rewrite <- (zkey_length k n), E. reflexivity. Qed.

(* the dotted rendering of a coherent calendar key is a PEP 440 version with that release tuple *)
Theorem parse_rendered_key : forall k, In k coherent_keys -> forall n,
  parse_pep440 (dotted (zkey k n)) = Some (mkpver 0 (zkey k n) None None None None).
Proof. intros k Hk n. apply parse_dotted. apply zkey_nonempty. apply coherent_nonempty. exact Hk. Qed.

Theorem render_mono_dotted : forall k, In k coherent_keys -> forall n m, (0 <= n <= m)%Z ->
  ver_le (dotted (zkey k n)) (dotted (zkey k m)) = true.
Proof.
  intros k Hk n m Hnm. pose proof (coherent_nonempty k Hk) as Hne.
  rewrite ver_le_dotted.
  - pose proof (coherent_mono k Hk n m Hnm) as L.
    assert (G : cmp_list N.compare (zkey k n) (zkey k m) <> Gt).
    { unfold zkey. apply lex_le_toN.
      - rewrite !key_length. reflexivity.
      - apply key_nonneg. lia.
      - apply key_nonneg. lia.
      - exact L. }
    destruct (cmp_list N.compare (zkey k n) (zkey k m)); [reflexivity|reflexivity|congruence].
  - apply zkey_nonempty. exact Hne.
  - apply zkey_nonempty. exact Hne.
  - rewrite !zkey_length. reflexivity.
Qed.

Print Assumptions search_dotted.
Print Assumptions parse_dotted.
Print Assumptions version_key_dotted.
Print Assumptions ver_le_dotted.
Print Assumptions ver_lt_dotted.
Print Assumptions parse_rendered_key.
Print Assumptions render_mono_dotted.
