(* C02 on the AST layer (Model/PatAst.v): the preferred match of the compiled pattern on a rendered
   version is the rendered text and its captures are the rendered parts (roundtrip_ast), under
   separation conditions that are discharged part by part from the GENERATED tables of Gen/Tables.v:
   numeric parts for every number / digit string, calendar and tag parts by enumeration of their
   domains, lifted to longer subjects by the locality theorems of Proofs/RegexFacts.v. *)
From Coq Require Import List Bool NArith ZArith Arith Lia.
From BV Require Import Lib.PyStr Lib.Decimal Lib.Types Lib.Regex Lib.RegexParse Model.V2 Gen.Tables
  Model.PatAst Proofs.DecimalFacts Proofs.RegexFacts.
From BV Require Export Proofs.PatPartsBase.
Import ListNotations.

(* ------------------------------------------------------------------ 1. round trip on the AST layer *)
Theorem roundtrip_ast : forall v p tail f n0,
  sep_ok v p tail -> (length (fmt v p ++ tail) <= f)%nat ->
  first_match f n0 (comp p) (fmt v p ++ tail) = Some (envof v p, tail).
Proof.
  intros v p.
  induction p as [|l k IHk|n k IHk|g IHg k IHk]; intros tail f n0 Hsep Hf; cbn [fmt comp envof sep_ok] in *.
  - apply first_eps.
  - rewrite <- app_assoc. change (envof v k) with ([] ++ envof v k).
    eapply first_cat; [apply first_lit|].
    apply IHk; [exact Hsep|]. rewrite <- app_assoc, app_length in Hf. lia.
  - destruct Hsep as [Hps Hsep]. rewrite <- app_assoc in *.
    change ((pfield n, ptext v n) :: envof v k) with ([(pfield n, ptext v n)] ++ envof v k).
    pose proof (first_grp f n0 (pfield n) (pre n) _ _ _ (Hps f n0 Hf)) as HG.
    rewrite take_consumed_app in HG.
    eapply first_cat; [exact HG|].
    apply IHk; [exact Hsep|]. rewrite app_length in Hf. lia.
  - destruct Hsep as [Hg Hsep]. rewrite <- app_assoc in *. eapply first_cat.
    + destruct (zero v g) eqn:Hz.
      * cbn [app]. rewrite first_alt_r by apply Hg. apply first_eps.
      * apply first_alt_l. apply IHg; [exact Hg|exact Hf].
    + apply IHk; [exact Hsep|]. rewrite app_length in Hf. lia.
Qed.

(* the same for pattern.match on the rendered text alone *)
Corollary roundtrip_ast_match : forall v p,
  sep_ok v p [] -> re_match (comp p) (fmt v p) = Some (envof v p, []).
Proof.
  intros v p Hsep. unfold re_match.
  pose proof (roundtrip_ast v p [] (S (length (fmt v p))) (length (fmt v p)) Hsep) as H.
  rewrite app_nil_r in H. apply H. lia.
Qed.

(* the obligation of an omitted optional group that starts with literal text *)
Lemma rems_comp_lit_nomatch f n0 d l k s :
  match s with [] => True | c :: _ => d <> c end -> rems f n0 (comp (PLit (d :: l) k)) s = [].
Proof. intros H. cbn [comp]. apply rems_cat_nil. apply rems_lit_nomatch. exact H. Qed.

(* ------------------------------------------------------------------ 2a. numeric parts *)
Definition numeric0_parts : list (list N) := [P_MAJOR; P_MINOR; P_PATCH; P_BUILD; P_NUM; P_INC0].
Definition numeric1_parts : list (list N) := [P_BLD; P_INC1].
Definition nz_digit_re : re := Cls false [(49, 57)]%N.

Lemma numeric0_parts_regex_all :
  Forall (fun n => part_regex n = Some (Cat (plus_re digit_re) Eps)) numeric0_parts.
Proof. repeat (constructor; [vm_compute; reflexivity|]). constructor. Qed.
Lemma numeric1_parts_regex_all :
  Forall (fun n => part_regex n = Some (Cat nz_digit_re (Cat (Star digit_re) Eps))) numeric1_parts.
Proof. repeat (constructor; [vm_compute; reflexivity|]). constructor. Qed.

(* MAJOR MINOR PATCH BUILD NUM INC0 are [0-9]+ ; BLD INC1 are [1-9][0-9]* (as parsed from the table text) *)
Lemma numeric_parts_regex : forall n,
  (In n numeric0_parts -> part_regex n = Some (Cat (plus_re digit_re) Eps)) /\
  (In n numeric1_parts -> part_regex n = Some (Cat nz_digit_re (Cat (Star digit_re) Eps))).
Proof.
  intros n. split; intros H.
  - exact (proj1 (Forall_forall _ _) numeric0_parts_regex_all n H).
  - exact (proj1 (Forall_forall _ _) numeric1_parts_regex_all n H).
Qed.

Lemma pre_numeric0 n : In n numeric0_parts -> pre n = Cat (plus_re digit_re) Eps.
Proof. intros H. unfold pre. rewrite (proj1 (numeric_parts_regex n) H). reflexivity. Qed.
Lemma pre_numeric1 n : In n numeric1_parts -> pre n = Cat nz_digit_re (Cat (Star digit_re) Eps).
Proof. intros H. unfold pre. rewrite (proj2 (numeric_parts_regex n) H). reflexivity. Qed.

(* every non-empty digit string followed by a non-digit is consumed exactly *)
Theorem numeric0_part_sep_str : forall name ds rest f n0,
  In name numeric0_parts -> all_digits ds = true -> ds <> [] -> nodigit_head rest = true ->
  (length (ds ++ rest) <= f)%nat ->
  first_match f n0 (pre name) (ds ++ rest) = Some ([], rest).
Proof.
  intros name ds rest f n0 Hin Hds Hne Hrest Hf. rewrite (pre_numeric0 name Hin).
  apply first_cat_eps. apply first_plus_digits; auto. rewrite app_length in Hf. lia.
Qed.
Theorem numeric1_part_sep_str : forall name d ds rest f n0,
  In name numeric1_parts -> (49 <= d <= 57)%N -> all_digits ds = true -> nodigit_head rest = true ->
  (length ((d :: ds) ++ rest) <= f)%nat ->
  first_match f n0 (pre name) ((d :: ds) ++ rest) = Some ([], rest).
Proof.
  intros name d ds rest f n0 Hin Hd Hds Hrest Hf. rewrite (pre_numeric1 name Hin).
  eapply first_cat0.
  - unfold first_match, nz_digit_re. rewrite rems_cls. cbn [app].
    replace (cls_accepts false [(49, 57)]%N d) with true; [reflexivity|].
    unfold cls_accepts, inr; simpl. symmetry.
    destruct (N.leb_spec 49 d), (N.leb_spec d 57); simpl; auto; lia.
  - apply first_cat_eps. apply first_star_digits; auto.
    rewrite app_length in Hf. simpl in Hf. lia.
Qed.

Lemma dec_nz_shape n : n <> 0%N ->
  exists d ds, dec n = d :: ds /\ (49 <= d <= 57)%N /\ all_digits ds = true.
Proof.
  intros Hn. pose proof (dec_all_digits n) as Hall. pose proof (dec_hd_nonzero n Hn) as Hhd.
  destruct (dec n) as [|d ds] eqn:E; [exfalso; exact (dec_nonempty n E)|].
  apply all_digits_cons in Hall as [Hd Hds]. cbn [hd] in Hhd.
  exists d, ds. repeat split; auto; lia.
Qed.

(* for every number: str(n) followed by a non-digit is consumed exactly
   (for BLD and INC1, whose regex is [1-9][0-9]*, the number must not be 0) *)
Theorem numeric_part_sep : forall name n rest f n0,
  In name numeric0_parts \/ (In name numeric1_parts /\ n <> 0%N) ->
  nodigit_head rest = true -> (length (dec n ++ rest) <= f)%nat ->
  first_match f n0 (pre name) (dec n ++ rest) = Some ([], rest).
Proof.
  intros name n rest f n0 [Hin|[Hin Hn]] Hrest Hf.
  - apply numeric0_part_sep_str; auto. apply dec_all_digits. apply dec_nonempty.
  - destruct (dec_nz_shape n Hn) as (d & ds & E & Hd & Hds). rewrite E in *.
    apply numeric1_part_sep_str; auto.
Qed.

(* ------------------------------------------------------------------ 2b. finite parts *)
(* calendar parts with the range of field values considered: (part, first value, number of values).
   Years are 1000..9999 (the regexes have four digits); the two-digit forms YY/GG are considered for
   2001..2099 only (see yy_century_refuted); weeks %W/%U for 0..52 (see week53_refuted). *)
Definition fin_cal_spec : list (list N * Z * N) :=
  [ (P_YYYY, 1000%Z, 9000%N); (P_GGGG, 1000%Z, 9000%N);
    (P_YY, 2001%Z, 99%N); (P_GG, 2001%Z, 99%N);
    (P_0Y, 1000%Z, 9000%N); (P_0G, 1000%Z, 9000%N);
    (P_Q, 1%Z, 4%N); (P_MM, 1%Z, 12%N); (P_0M, 1%Z, 12%N); (P_DD, 1%Z, 31%N); (P_0D, 1%Z, 31%N);
    (P_JJJ, 1%Z, 366%N); (P_00J, 1%Z, 366%N);
    (P_WW, 0%Z, 53%N); (P_0W, 0%Z, 53%N); (P_UU, 0%Z, 53%N); (P_0U, 0%Z, 53%N);
    (P_VV, 1%Z, 53%N); (P_0V, 1%Z, 53%N) ].

(* the keys of PEP440_TAG_BY_TAG that the TAG regex accepts / the non-empty values of that table *)
Definition tag_texts : list (list N) :=
  [ [100;101;118]; [97;108;112;104;97]; [98;101;116;97]; [112;114;101;118;105;101;119]; [114;99];
    [102;105;110;97;108]; [112;111;115;116] ]%N.   (* dev alpha beta preview rc final post *)
Definition pytag_texts : list (list N) :=
  [ [97]; [98]; [100;101;118]; [114;99]; [112;111;115;116] ]%N.   (* a b dev rc post *)

Definition fin_domain : list (list N * list (list N)) :=
  map (fun '(name, lo, cnt) => (name, map (fmtpart name) (zrange lo (N.to_nat cnt)))) fin_cal_spec
  ++ [(P_TAG, tag_texts); (P_PYTAG, pytag_texts)].

Definition full_first (r : re) (t : list N) : bool :=
  match re_match r t with Some ([], []) => true | _ => false end.

(* every text in the domain of every finite part is fully matched, as the preferred match, by the
   part's regex *)
Theorem finite_parts_fullmatch :
  forallb (fun '(name, texts) =>
             forallb (fun t => match re_match (pre name) t with Some ([], []) => true | _ => false end) texts)
          fin_domain = true.
Proof. vm_compute. reflexivity. Qed.

Lemma finite_parts_no_anchor : forallb (fun name => no_anchor (pre name)) (map fst fin_domain) = true.
Proof. vm_compute. reflexivity. Qed.

(* tag_texts is exactly the set of keys of PEP440_TAG_BY_TAG accepted by the TAG regex, and contains
   every value the command line accepts for --tag *)
Lemma tag_texts_spec :
  filter (full_first (pre P_TAG)) (map fst PEP440_TAG_BY_TAG) = tag_texts
  /\ forallb (fun t => mem_str t tag_texts) VALID_RELEASE_TAG_VALUES = true.
Proof. split; vm_compute; reflexivity. Qed.
(* pytag_texts: every non-empty value of PEP440_TAG_BY_TAG, and only such values *)
Lemma pytag_texts_spec :
  forallb (fun kv => match snd kv with [] => true | _ => mem_str (snd kv) pytag_texts end) PEP440_TAG_BY_TAG = true
  /\ forallb (fun t => mem_str t (map snd PEP440_TAG_BY_TAG)) pytag_texts = true.
Proof. split; vm_compute; reflexivity. Qed.

Lemma fin_domain_facts name texts t :
  In (name, texts) fin_domain -> In t texts ->
  re_match (pre name) t = Some ([], []) /\ no_anchor (pre name) = true.
Proof.
  intros Hd Ht. split.
  - pose proof (proj1 (forallb_forall _ _) finite_parts_fullmatch (name, texts) Hd) as H. cbn beta iota in H.
    pose proof (proj1 (forallb_forall _ _) H t Ht) as H'. cbn beta in H'.
    destruct (re_match (pre name) t) as [[[|] [|]]|]; try discriminate. reflexivity.
  - apply (proj1 (forallb_forall _ _) finite_parts_no_anchor name).
    change name with (fst (name, texts)). apply in_map. exact Hd.
Qed.

(* lifted: inside a longer subject the part consumes exactly its text, provided the next character
   (if any) is rejected by every character class of the part's regex *)
Theorem finite_parts_sep : forall name texts t rest f n0,
  In (name, texts) fin_domain -> In t texts ->
  head_rejected_by (pre name) rest = true ->
  (length (t ++ rest) <= f)%nat ->
  first_match f n0 (pre name) (t ++ rest) = Some ([], rest).
Proof.
  intros name texts t rest f n0 Hd Ht Hrej Hf.
  destruct (fin_domain_facts name texts t Hd Ht) as [Hm Hna].
  change (Some ([], rest)) with (Some (@nil (list N * list N), [] ++ rest)).
  apply re_match_lift_local; auto.
  destruct rest as [|c tl]; [exact I|exact Hrej].
Qed.

(* fixed-width parts: the regex can consume at most w characters and every text has w characters;
   then nothing about the following text is needed (YYYY0M0D and the like) *)
Definition fixed_parts : list (list N) :=
  [P_YYYY; P_GGGG; P_0Y; P_0G; P_Q; P_0M; P_0D; P_00J; P_0W; P_0U; P_0V].
Definition fixed_width_ok (name : list N) (texts : list (list N)) : bool :=
  match maxw (pre name) with
  | Some w => forallb (fun t => Nat.eqb (length t) w) texts
  | None => false
  end.
Theorem fixed_parts_width :
  forallb (fun '(name, texts) => if mem_str name fixed_parts then fixed_width_ok name texts else true)
          fin_domain = true.
Proof. vm_compute. reflexivity. Qed.

Theorem fixed_parts_sep : forall name texts t rest f n0,
  In (name, texts) fin_domain -> In t texts -> mem_str name fixed_parts = true ->
  (length (t ++ rest) <= f)%nat ->
  first_match f n0 (pre name) (t ++ rest) = Some ([], rest).
Proof.
  intros name texts t rest f n0 Hd Ht Hfix Hf.
  destruct (fin_domain_facts name texts t Hd Ht) as [Hm Hna].
  pose proof (proj1 (forallb_forall _ _) fixed_parts_width (name, texts) Hd) as H. cbn beta iota in H.
  rewrite Hfix in H. unfold fixed_width_ok in H.
  destruct (maxw (pre name)) as [w|] eqn:Ew; [|discriminate].
  pose proof (proj1 (forallb_forall _ _) H t Ht) as Hl. cbn beta in Hl. apply Nat.eqb_eq in Hl.
  change (Some ([], rest)) with (Some (@nil (list N * list N), [] ++ rest)).
  apply (re_match_lift_width (pre name) w); auto. lia.
Qed.

(* ---- from the tables to part_sep_ok for a version state ---- *)
Lemma ptext_fmtpart v name fld z :
  part_field name = Some fld -> get_field v fld = Some (Some (FInt z)) -> ptext v name = fmtpart name z.
Proof.
  intros H1 H2. unfold ptext, part_text, fmtpart. rewrite H1, H2.
  destruct (assoc name PART_FORMATS); reflexivity.
Qed.

Lemma fin_cal_in_domain name lo cnt :
  In (name, lo, cnt) fin_cal_spec -> In (name, map (fmtpart name) (zrange lo (N.to_nat cnt))) fin_domain.
Proof.
  intros H. unfold fin_domain. apply in_or_app. left.
  apply in_map_iff. exists (name, lo, cnt). split; [reflexivity|exact H].
Qed.

(* a calendar part whose field value lies in the considered range is separated from what follows
   when the next character is rejected by the part's regex, or always when the part has fixed width *)
Theorem cal_part_sep : forall v name fld lo cnt z rest,
  In (name, lo, cnt) fin_cal_spec ->
  part_field name = Some fld -> get_field v fld = Some (Some (FInt z)) ->
  (lo <= z < lo + Z.of_N cnt)%Z ->
  head_rejected_by (pre name) rest = true \/ mem_str name fixed_parts = true ->
  part_sep_ok v name rest.
Proof.
  intros v name fld lo cnt z rest Hspec Hfld Hget Hz Hor f n0 Hf.
  rewrite (ptext_fmtpart v name fld z Hfld Hget) in *.
  pose proof (fin_cal_in_domain name lo cnt Hspec) as Hd.
  assert (Ht : In (fmtpart name z) (map (fmtpart name) (zrange lo (N.to_nat cnt)))).
  { apply in_map. apply in_zrange. rewrite N_nat_Z. exact Hz. }
  destruct Hor as [Hrej|Hfix].
  - eapply finite_parts_sep; eassumption.
  - eapply fixed_parts_sep; eassumption.
Qed.

(* string-valued parts *)
Lemma ptext_TAG v : ptext v P_TAG = v_tag v.
Proof. destruct v; reflexivity. Qed.
Lemma ptext_PYTAG v : ptext v P_PYTAG = v_pytag v.
Proof. destruct v; reflexivity. Qed.
Lemma ptext_BUILD v : ptext v P_BUILD = v_bid v.
Proof. destruct v; reflexivity. Qed.
Lemma ptext_BLD v : ptext v P_BLD = dec (undec (v_bid v)).
Proof. destruct v; reflexivity. Qed.
Lemma ptext_MAJOR v : ptext v P_MAJOR = dec (Z.to_N (v_major v)).
Proof. destruct v; reflexivity. Qed.
Lemma ptext_MINOR v : ptext v P_MINOR = dec (Z.to_N (v_minor v)).
Proof. destruct v; reflexivity. Qed.
Lemma ptext_PATCH v : ptext v P_PATCH = dec (Z.to_N (v_patch v)).
Proof. destruct v; reflexivity. Qed.
Lemma ptext_NUM v : ptext v P_NUM = dec (Z.to_N (v_num v)).
Proof. destruct v; reflexivity. Qed.
Lemma ptext_INC0 v : ptext v P_INC0 = dec (Z.to_N (v_inc0 v)).
Proof. destruct v; reflexivity. Qed.
Lemma ptext_INC1 v : ptext v P_INC1 = dec (Z.to_N (v_inc1 v)).
Proof. destruct v; reflexivity. Qed.

Theorem tag_part_sep : forall v rest,
  In (v_tag v) tag_texts -> head_rejected_by (pre P_TAG) rest = true -> part_sep_ok v P_TAG rest.
Proof.
  intros v rest Hin Hrej f n0 Hf. rewrite ptext_TAG in *.
  apply (finite_parts_sep P_TAG tag_texts); auto.
  unfold fin_domain. apply in_or_app. right. left. reflexivity.
Qed.
Theorem pytag_part_sep : forall v rest,
  In (v_pytag v) pytag_texts -> head_rejected_by (pre P_PYTAG) rest = true -> part_sep_ok v P_PYTAG rest.
Proof.
  intros v rest Hin Hrej f n0 Hf. rewrite ptext_PYTAG in *.
  apply (finite_parts_sep P_PYTAG pytag_texts); auto.
  unfold fin_domain. apply in_or_app. right. right. left. reflexivity.
Qed.
Theorem build_part_sep : forall v rest,
  all_digits (v_bid v) = true -> v_bid v <> [] -> nodigit_head rest = true -> part_sep_ok v P_BUILD rest.
Proof.
  intros v rest Hd Hne Hrest f n0 Hf. rewrite ptext_BUILD in *.
  apply numeric0_part_sep_str; auto. unfold numeric0_parts. in_list.
Qed.

(* ------------------------------------------------------------------ 2c. the known defects at the edge of the domains *)
(* strftime %W / %U reach 53 (e.g. 2018-12-31 and 2017-12-31), but WW 0W UU 0U stop at 52: the text
   rendered for week 53 is "53" and no match of the part's regex consumes it completely. *)
Theorem week53_refuted : forall name, In name [P_WW; P_0W; P_UU; P_0U] ->
  fmtpart name 53 = dec 53 /\ forall e, re_match (pre name) (dec 53) <> Some (e, []).
Proof.
  intros name [<-|[<-|[<-|[<-|[]]]]]; (split; [vm_compute; reflexivity|intros e; vm_compute; discriminate]).
Qed.
(* the same at the level of version states *)
Corollary week53_refuted_state : forall v,
  (v_week_w v = Some 53%Z -> re_fullmatch_first (pre P_WW) (ptext v P_WW) = None
                             /\ re_fullmatch_first (pre P_0W) (ptext v P_0W) = None) /\
  (v_week_u v = Some 53%Z -> re_fullmatch_first (pre P_UU) (ptext v P_UU) = None
                             /\ re_fullmatch_first (pre P_0U) (ptext v P_0U) = None).
Proof.
  intros v. destruct v. simpl.
  split; intros ->; split; vm_compute; reflexivity.
Qed.
(* the two-digit year parts YY / GG render a year ending in 00 as "0", which [1-9][0-9]? rejects *)
Theorem yy_century_refuted : forall name, In name [P_YY; P_GG] ->
  fmtpart name 2000 = dec 0 /\ re_match (pre name) (dec 0) = None.
Proof. intros name [<-|[<-|[]]]; (split; vm_compute; reflexivity). Qed.

(* ------------------------------------------------------------------ 3. instances: the premises are satisfiable *)
Lemma get_year_y v y : v_year_y v = Some y -> get_field v n_year_y = Some (Some (FInt y)).
Proof. destruct v; simpl; intros ->; reflexivity. Qed.
Lemma get_month v m : v_month v = Some m -> get_field v n_month = Some (Some (FInt m)).
Proof. destruct v; simpl; intros ->; reflexivity. Qed.

Lemma nodigit_dec_false n rest : nodigit_head (dec n ++ rest) = false.
Proof.
  pose proof (dec_all_digits n) as H. destruct (dec n) as [|d ds] eqn:E; [exfalso; exact (dec_nonempty n E)|].
  unfold all_digits in H. simpl in H. apply andb_true_iff in H as [Hd _]. simpl. rewrite Hd. reflexivity.
Qed.

(* vMAJOR.MINOR[.PATCH] : numeric parts and an optional group with both cases *)
Definition pat_semver : pat :=
  PLit [118]%N (PPart P_MAJOR (PLit [46]%N (PPart P_MINOR (POpt (PLit [46]%N (PPart P_PATCH PNil)) PNil)))).

Lemma sep_ok_semver : forall v, sep_ok v pat_semver [].
Proof.
  intros v. unfold pat_semver. cbn [sep_ok]. repeat split.
  - (* MAJOR is followed by "." *)
    intros f n0 Hf. rewrite ptext_MAJOR in *.
    apply numeric_part_sep; auto. left. unfold numeric0_parts. in_list.
  - (* MINOR is followed by "." or by nothing *)
    intros f n0 Hf. rewrite ptext_MINOR in *.
    apply numeric_part_sep; auto. left. unfold numeric0_parts. in_list.
    cbn [fmt]. destruct (zero v (PLit [46]%N (PPart P_PATCH PNil))); reflexivity.
  - destruct (zero v (PLit [46]%N (PPart P_PATCH PNil))).
    + intros f n0. apply rems_comp_lit_nomatch. cbn [fmt app]. exact I.
    + cbn [sep_ok]. split; [|exact I].
      intros f n0 Hf. rewrite ptext_PATCH in *.
      apply numeric_part_sep; auto. left. unfold numeric0_parts. in_list.
Qed.

Theorem roundtrip_semver : forall v,
  (0 <= v_major v)%Z -> (0 <= v_minor v)%Z -> (0 <= v_patch v)%Z ->
  re_match (comp pat_semver) (fmt v pat_semver) = Some (envof v pat_semver, []).
Proof. intros v _ _ _. apply roundtrip_ast_match. apply sep_ok_semver. Qed.

(* vYYYY0M.BUILD[-TAG] : adjacent calendar parts, a digit-string part, an optional tag *)
Definition pat_calver : pat :=
  PLit [118]%N (PPart P_YYYY (PPart P_0M (PLit [46]%N (PPart P_BUILD
    (POpt (PLit [45]%N (PPart P_TAG PNil)) PNil))))).

Lemma sep_ok_calver : forall v y m,
  v_year_y v = Some y -> (1000 <= y <= 9999)%Z ->
  v_month v = Some m -> (1 <= m <= 12)%Z ->
  all_digits (v_bid v) = true -> v_bid v <> [] ->
  In (v_tag v) tag_texts ->
  sep_ok v pat_calver [].
Proof.
  intros v y m Hy Hyr Hm Hmr Hbid Hbne Htag. unfold pat_calver. cbn [sep_ok]. repeat split.
  - (* YYYY is directly followed by the digits of 0M: fixed width *)
    apply (cal_part_sep v P_YYYY n_year_y 1000 9000 y).
    + unfold fin_cal_spec. in_list.
    + reflexivity.
    + apply get_year_y; exact Hy.
    + lia.
    + right. reflexivity.
  - (* 0M is followed by "." *)
    apply (cal_part_sep v P_0M n_month 1 12 m).
    + unfold fin_cal_spec. in_list.
    + reflexivity.
    + apply get_month; exact Hm.
    + lia.
    + left. cbn [fmt app head_rejected_by]. vm_compute. reflexivity.
  - (* BUILD is followed by "-" or by nothing *)
    apply build_part_sep; auto.
    cbn [fmt]. destruct (zero v (PLit [45]%N (PPart P_TAG PNil))); reflexivity.
  - destruct (zero v (PLit [45]%N (PPart P_TAG PNil))).
    + intros f n0. apply rems_comp_lit_nomatch. cbn [fmt app]. exact I.
    + cbn [sep_ok]. split; [|exact I]. apply tag_part_sep; auto.
Qed.

Theorem roundtrip_calver : forall v y m,
  v_year_y v = Some y -> (1000 <= y <= 9999)%Z ->
  v_month v = Some m -> (1 <= m <= 12)%Z ->
  all_digits (v_bid v) = true -> v_bid v <> [] ->
  In (v_tag v) tag_texts ->
  re_match (comp pat_calver) (fmt v pat_calver) = Some (envof v pat_calver, []).
Proof. intros. apply roundtrip_ast_match. eapply sep_ok_calver; eassumption. Qed.

Print Assumptions roundtrip_ast.
Print Assumptions numeric_part_sep.
Print Assumptions finite_parts_fullmatch.
Print Assumptions finite_parts_sep.
Print Assumptions fixed_parts_sep.
Print Assumptions cal_part_sep.
Print Assumptions week53_refuted.
Print Assumptions yy_century_refuted.
Print Assumptions roundtrip_semver.
Print Assumptions roundtrip_calver.
