(* End-to-end theorem for bumpver's DEFAULT CalVer pattern vYYYY0M.BUILD[-TAG], for final (untagged)
   versions  v<year><month, two digits>.<build>  such as v202401.1001:
   for ALL years 1000..9999, months 1..12, build strings (digit strings, leading zeros allowed) and
   all dates, the model of `bumpver test OLD 'vYYYY0M.BUILD[-TAG]' --date D` prints the documented
   next version (calendar part moved to the date unless the old version lies in the future, build
   number bumped and never reset), the gate accepts it, and it is strictly greater than the old
   version under the PEP 440 order.

   Chain:  calver_parse  (regex compile + preferred match + field values -> record)
           calver_format (record -> text, optional group omitted because TAG is final)
           calver_incr   (v2version.incr)
           calver_result_greater (PEP 440 parse of v + digit strings with leading zeros, key order)
           calver_test_cmd (cli.test).
   Nothing here is computed on samples: year, month, build and date are universally quantified. *)
From Coq Require Import List Bool NArith ZArith Arith Lia.
From BV Require Import Lib.PyStr Lib.Decimal Lib.Types Lib.Regex Lib.RegexParse Lib.Calendar Model.Lexid Gen.Tables
  Model.V2 Model.Pep440 Model.Cli Model.PatAst Model.CalKeys.
From BV Require Import Proofs.RegexFacts Proofs.DecimalFacts Proofs.Pep440Facts Proofs.DottedFacts Proofs.IncrFacts
  Proofs.CalendarFacts Proofs.LexidFacts Proofs.PatPartsBase Proofs.DottedJoinFacts.
Import ListNotations.
Local Open Scope N_scope.

(* vYYYY0M.BUILD[-TAG] *)
Definition P : list N := [118;89;89;89;89;48;77;46;66;85;73;76;68;91;45;84;65;71;93].

(* v<year><month>.<build> *)
Definition cv (y m : N) (bid : list N) : list N := [118] ++ dec y ++ pad 2 m ++ [46] ++ bid.

(* ------------------------------------------------------------------ calendar facts *)
Lemma civil_month n : (1 <= snd (fst (civil n)) <= 12)%Z.
Proof.
  unfold civil. cbv zeta. cbn [fst snd].
  set (doe := ((n + 306) mod 146097)%Z).
  assert (Hdoe : (0 <= doe < 146097)%Z) by (apply Z.mod_pos_bound; lia).
  clearbody doe.
  set (yoe := ((doe - doe / 1460 + doe / 36524 - doe / 146096) / 365)%Z).
  set (doy := (doe - (365 * yoe + yoe / 4 - yoe / 100))%Z).
  assert (Hdoy : (0 <= doy <= 365)%Z).
  { unfold doy, yoe. Z.div_mod_to_equations; lia. }
  clearbody doy.
  set (mp := ((5 * doy + 2) / 153)%Z).
  assert (Hmp : (0 <= mp <= 11)%Z) by (unfold mp; Z.div_mod_to_equations; lia).
  clearbody mp.
  destruct (Z.ltb_spec mp 10); lia.
Qed.
Lemma month_range n : (1 <= month (cal_of n) <= 12)%Z.
Proof. pose proof (civil_month n) as H. rewrite (cal_of_civil n) in H. exact H. Qed.
Lemma quarter_of_month n : quarter (cal_of n) = quarter_from_month (month (cal_of n)).
Proof.
  unfold cal_of. destruct (civil n) as [[y m] d].
  cbv zeta.
  match goal with |- context [if ?b then _ else _] => destruct b end; [reflexivity|].
  match goal with |- context [if ?b then _ else _] => destruct b end; reflexivity.
Qed.
Lemma year_max n : (0 <= n <= MAX_ORD)%Z -> (year_y (cal_of n) <= 9999)%Z.
Proof.
  intros H. pose proof (year_y_mono n MAX_ORD H) as Y.
  assert (E : year_y (cal_of MAX_ORD) = 9999%Z) by (vm_compute; reflexivity).
  rewrite E in Y. exact Y.
Qed.

(* ------------------------------------------------------------------ the compiled regex *)
Definition R_calver : re :=
  Cat (chr_re 118) (Cat (Grp n_year_y (pre P_YYYY)) (Cat (Grp n_month (pre P_0M)) (Cat (chr_re 46)
    (Cat (Grp n_bid D1) (Cat (Alt (Cat (chr_re 45) (Cat (Grp n_tag (pre P_TAG)) Eps)) Eps) Eps))))).
Lemma compile_calver : compile_pattern_re (normalize_pattern P P) = Some R_calver.
Proof. vm_compute. reflexivity. Qed.

Lemma fmtpart_YYYY y : fmtpart P_YYYY (Z.of_N y) = dec y.
Proof. unfold fmtpart. change (assoc P_YYYY PART_FORMATS) with (Some FmtStr).
  cbn [apply_fmt fval_str]. unfold zdec. rewrite N2Z.id. reflexivity. Qed.
Lemma fmtpart_0M m : fmtpart P_0M (Z.of_N m) = pad 2 m.
Proof. unfold fmtpart. change (assoc P_0M PART_FORMATS) with (Some (FmtPad 2)).
  cbn [apply_fmt fval_int]. rewrite N2Z.id. reflexivity. Qed.

(* the two calendar parts of this pattern, each checked on its own: all 9000 years / 12 months are matched in full as the
   preferred match by the part's regex from the generated table, which has no anchors and fixed width *)
Lemma texts_ok_YYYY : part_texts_ok P_YYYY (map (fmtpart P_YYYY) (zrange 1000 (N.to_nat 9000))) = true.
Proof. vm_compute. reflexivity. Qed.
Lemma texts_ok_0M : part_texts_ok P_0M (map (fmtpart P_0M) (zrange 1 (N.to_nat 12))) = true.
Proof. vm_compute. reflexivity. Qed.

Lemma first_year y rest f n0 : 1000 <= y <= 9999 -> (length (dec y ++ rest) <= f)%nat ->
  first_match f n0 (Grp n_year_y (pre P_YYYY)) (dec y ++ rest) = Some ([(n_year_y, dec y)], rest).
Proof.
  intros Hy Hf. rewrite <- (take_consumed_app (dec y) rest) at 2. apply first_grp.
  rewrite <- fmtpart_YYYY in *.
  apply (fixed_part_sep_local P_YYYY _ _ rest f n0 texts_ok_YYYY); [|exact Hf].
  apply in_map. apply in_zrange. rewrite N_nat_Z. lia.
Qed.
Lemma first_month m rest f n0 : 1 <= m <= 12 -> (length (pad 2 m ++ rest) <= f)%nat ->
  first_match f n0 (Grp n_month (pre P_0M)) (pad 2 m ++ rest) = Some ([(n_month, pad 2 m)], rest).
Proof.
  intros Hm Hf. rewrite <- (take_consumed_app (pad 2 m) rest) at 2. apply first_grp.
  rewrite <- fmtpart_0M in *.
  apply (fixed_part_sep_local P_0M _ _ rest f n0 texts_ok_0M); [|exact Hf].
  apply in_map. apply in_zrange. rewrite N_nat_Z. lia.
Qed.
Lemma first_chr c f n0 t : first_match f n0 (chr_re c) (c :: t) = Some ([], t).
Proof. unfold first_match, chr_re. rewrite rems_cls, cls_single. reflexivity. Qed.
Lemma first_bid bid f n0 : all_digits bid = true -> bid <> [] -> (length bid <= f)%nat ->
  first_match f n0 (Grp n_bid D1) bid = Some ([(n_bid, bid)], []).
Proof.
  intros Hd Hne Hf. rewrite <- (take_consumed_nil bid) at 2. apply first_grp.
  unfold D1. apply first_cat_eps. rewrite <- (app_nil_r bid) at 1.
  apply first_plus_digits; [exact Hd|exact Hne|reflexivity|exact Hf].
Qed.

Lemma cv_eq y m bid : cv y m bid = 118 :: (dec y ++ (pad 2 m ++ 46 :: bid)).
Proof. reflexivity. Qed.

Lemma match_calver y m bid : 1000 <= y <= 9999 -> 1 <= m <= 12 -> all_digits bid = true -> bid <> [] ->
  re_match R_calver (cv y m bid) = Some ([(n_year_y, dec y); (n_month, pad 2 m); (n_bid, bid)], []).
Proof.
  intros Hy Hm Hd Hne. unfold re_match. rewrite cv_eq.
  set (s := 118 :: dec y ++ pad 2 m ++ 46 :: bid).
  remember (S (length s)) as f eqn:Ef.
  assert (Hf : (length s <= f)%nat) by lia. clear Ef.
  generalize (length s) as n0. intros n0.
  unfold s in *. clear s. cbn [length] in Hf. rewrite !app_length in Hf. cbn [length] in Hf.
  unfold R_calver.
  change [(n_year_y, dec y); (n_month, pad 2 m); (n_bid, bid)]
    with (([] : env) ++ ([(n_year_y, dec y)] ++ ([(n_month, pad 2 m)] ++ ([] ++ ([(n_bid, bid)] ++ ([] ++ [])))))).
  eapply first_cat; [apply first_chr|].
  eapply first_cat; [apply first_year; [exact Hy|rewrite !app_length; cbn [length]; lia]|].
  eapply first_cat; [apply first_month; [exact Hm|rewrite !app_length; cbn [length]; lia]|].
  eapply first_cat; [apply first_chr|].
  eapply first_cat; [apply first_bid; [exact Hd|exact Hne|lia]|].
  eapply first_cat; [|apply first_eps].
  rewrite first_alt_r; [apply first_eps|].
  apply rems_cat_nil. unfold chr_re. rewrite rems_cls. reflexivity.
Qed.

Definition fv_cal (a b c : list N) : fvals := [(n_year_y, Some a); (n_month, Some b); (n_bid, Some c); (n_tag, None)].
Lemma groupdict_calver a b c :
  groupdict R_calver [(n_year_y, a); (n_month, b); (n_bid, c)] = fv_cal a b c.
Proof. reflexivity. Qed.

(* ------------------------------------------------------------------ field values to the record *)
Definition cv_vinfo (y m : Z) (bid : list N) : vinfo :=
  mkv (Some y) None (Some (quarter_from_month m)) (Some m) None None None None None
      0%Z 0%Z 0%Z bid s_final [] [] [] 0%Z 0%Z 1%Z.

Lemma zundec_dec n : zundec (dec n) = Z.of_N n.
Proof. unfold zundec. rewrite undec_dec. reflexivity. Qed.
Lemma zundec_pad k n : zundec (pad k n) = Z.of_N n.
Proof. unfold zundec. rewrite undec_pad. reflexivity. Qed.

Lemma parse_cinfo_cal today y m c : 1000 <= y -> 1 <= m ->
  parse_cinfo today (fv_cal (dec y) (pad 2 m) c) =
  POk [Some (Z.of_N y); None; Some (quarter_from_month (Z.of_N m)); Some (Z.of_N m); None; None; None; None; None].
Proof.
  intros Hy Hm. unfold parse_cinfo.
  change (fv_int n_year_y (fv_cal (dec y) (pad 2 m) c)) with (Some (Some (zundec (dec y)))).
  change (fv_int n_year_g (fv_cal (dec y) (pad 2 m) c)) with (Some (@None Z)).
  change (fv_int n_month (fv_cal (dec y) (pad 2 m) c)) with (Some (Some (zundec (pad 2 m)))).
  change (fv_int n_doy (fv_cal (dec y) (pad 2 m) c)) with (Some (@None Z)).
  change (fv_int n_dom (fv_cal (dec y) (pad 2 m) c)) with (Some (@None Z)).
  change (fv_int n_week_w (fv_cal (dec y) (pad 2 m) c)) with (Some (@None Z)).
  change (fv_int n_week_u (fv_cal (dec y) (pad 2 m) c)) with (Some (@None Z)).
  change (fv_int n_week_v (fv_cal (dec y) (pad 2 m) c)) with (Some (@None Z)).
  change (fv_int n_quarter (fv_cal (dec y) (pad 2 m) c)) with (Some (@None Z)).
  rewrite zundec_dec, zundec_pad. cbv zeta. cbn [fix2000].
  assert (E1 : (Z.of_N y <? 1000)%Z = false) by (apply Z.ltb_ge; lia). rewrite E1.
  assert (E2 : (Z.of_N y =? 0)%Z = false) by (apply Z.eqb_neq; lia).
  assert (E3 : (Z.of_N m =? 0)%Z = false) by (apply Z.eqb_neq; lia).
  cbn [truthy andb orb bind is_some nth]. rewrite ?E2, ?E3. cbn [negb andb orb bind is_some nth truthy].
  rewrite ?E2, ?E3. cbn [negb andb orb bind is_some nth truthy]. rewrite ?E3. reflexivity.
Qed.

Lemma parse_vinfo_cal today y m bid : 1000 <= y -> 1 <= m ->
  parse_vinfo today (fv_cal (dec y) (pad 2 m) bid) = POk (cv_vinfo (Z.of_N y) (Z.of_N m) bid).
Proof.
  intros Hy Hm. unfold parse_vinfo. rewrite parse_cinfo_cal by assumption. cbn [bind].
  change (fv_str_or_empty n_tag (fv_cal (dec y) (pad 2 m) bid)) with (@nil N).
  change (fv_str_or_empty n_pytag (fv_cal (dec y) (pad 2 m) bid)) with (@nil N).
  change (fv_str_or_empty n_githash (fv_cal (dec y) (pad 2 m) bid)) with (@nil N).
  change (fv_str_or_empty n_hexhash (fv_cal (dec y) (pad 2 m) bid)) with (@nil N).
  change (assoc n_bid (fv_cal (dec y) (pad 2 m) bid)) with (Some (Some bid)).
  change (fv_int_or n_major 0%Z (fv_cal (dec y) (pad 2 m) bid)) with 0%Z.
  change (fv_int_or n_minor 0%Z (fv_cal (dec y) (pad 2 m) bid)) with 0%Z.
  change (fv_int_or n_patch 0%Z (fv_cal (dec y) (pad 2 m) bid)) with 0%Z.
  change (fv_int_or n_num 0%Z (fv_cal (dec y) (pad 2 m) bid)) with 0%Z.
  change (fv_int_or n_inc0 0%Z (fv_cal (dec y) (pad 2 m) bid)) with 0%Z.
  change (fv_int_or n_inc1 1%Z (fv_cal (dec y) (pad 2 m) bid)) with 1%Z.
  cbn [andb negb bind]. reflexivity.
Qed.

Local Opaque compile_pattern_re normalize_pattern.

Theorem calver_parse_eq : forall today y m bid,
  1000 <= y <= 9999 -> 1 <= m <= 12 -> all_digits bid = true -> bid <> [] ->
  parse_version_info today (cv y m bid) P = POk (cv_vinfo (Z.of_N y) (Z.of_N m) bid).
Proof.
  intros today y m bid Hy Hm Hd Hne. unfold parse_version_info.
  rewrite compile_calver, (match_calver y m bid Hy Hm Hd Hne), groupdict_calver.
  apply parse_vinfo_cal; lia.
Qed.

Theorem calver_parse : forall today y m bid,
  1000 <= y <= 9999 -> 1 <= m <= 12 -> all_digits bid = true -> bid <> [] ->
  exists v, parse_version_info today (cv y m bid) P = POk v
    /\ v_year_y v = Some (Z.of_N y) /\ v_month v = Some (Z.of_N m) /\ v_bid v = bid
    /\ v_tag v = s_final /\ v_pytag v = []
    /\ v_dom v = None /\ v_doy v = None /\ v_week_w v = None /\ v_week_u v = None /\ v_week_v v = None
    /\ v_year_g v = None /\ v_quarter v = Some (quarter_from_month (Z.of_N m))
    /\ v_major v = 0%Z /\ v_minor v = 0%Z /\ v_patch v = 0%Z /\ v_num v = 0%Z /\ v_inc0 v = 0%Z /\ v_inc1 v = 1%Z
    /\ v_githash v = [] /\ v_hexhash v = [].
Proof.
  intros today y m bid Hy Hm Hd Hne. eexists. split; [apply calver_parse_eq; assumption|].
  repeat split; reflexivity.
Qed.

(* ------------------------------------------------------------------ format *)
Definition seg1 : list N := [118;89;89;89;89;48;77;46;66;85;73;76;68].     (* vYYYY0M.BUILD *)
Definition seg2 : list N := [45;84;65;71].                                  (* -TAG *)

Lemma segtree_P : parse_segtree P = Some [SStr seg1; STree [SStr seg2]].
Proof. vm_compute. reflexivity. Qed.

Lemma format_segment_res pv sg :
  snd (format_segment pv sg) =
  fold_left (fun acc '(p, v) => sreplace p v acc) (filter (fun '(p, _) => str_in p sg) pv)
    (sreplace [92; 93] [93] (sreplace [92; 91] [91] (sreplace [36] [] (sreplace [94] [] sg)))).
Proof.
  unfold format_segment. cbv zeta.
  destruct (filter (fun '(p, _) => str_in p sg) pv); [reflexivity|].
  match goal with |- context [if ?b then _ else _] => destruct b end; reflexivity.
Qed.

(* an optional group with a single part that shows its zero value is omitted *)
Lemma fmt_opt_zero pv sg p val :
  filter (fun '(p, _) => str_in p sg) pv = [(p, val)] -> is_zero_val p val = true ->
  snd (fmt_seg pv (STree [SStr sg])) = [].
Proof.
  intros H Hz. cbn [fmt_seg].
  assert (E : exists res, format_segment pv sg = (false, true, res)).
  { unfold format_segment. cbv zeta. rewrite H. cbn [filter]. rewrite Hz. cbn [length Nat.ltb Nat.leb Nat.eqb andb].
    eexists. reflexivity. }
  destruct E as [res E]. rewrite E. reflexivity.
Qed.

(* _format_part_values with the formatting function abstracted *)
Fixpoint pvg (F : fmt_kind -> fval -> list N) (v : vinfo) (l : list (list N * list N)) : option (list (list N * list N)) :=
  match l with
  | [] => Some []
  | (part, field) :: t =>
      match get_field v field, assoc part PART_FORMATS, pvg F v t with
      | Some (Some x), Some k, Some r => Some ((part, F k x) :: r)
      | Some None, _, Some r => Some r
      | _, _, _ => None
      end
  end.
Lemma pvg_eq v l : part_values_go v l = pvg apply_fmt v l.
Proof. induction l as [|[p f] t IH]; [reflexivity|]. cbn [part_values_go pvg]. rewrite IH. reflexivity. Qed.

(* whatever the other calendar fields are, the parts whose NAME occurs in the first segment are
   BUILD, YYYY, YY (a substring of YYYY) and 0M, in this order; in the optional group only TAG *)
Lemma pvg_used : forall F b c e g h i j y m ma mi pa bid tag pytag gh hh num i0 i1,
  match pvg F (mkv (Some y) b c (Some m) e g h i j ma mi pa bid tag pytag gh hh num i0 i1) PATTERN_PART_FIELDS with
  | Some l =>
      filter (fun '(p, _) => str_in p seg1) (sort_by_len_desc (fun x => length (fst x)) l)
      = [(P_BUILD, F FmtStr (FStr bid)); (P_YYYY, F FmtStr (FInt y)); (P_YY, F FmtLast2 (FInt y));
         (P_0M, F (FmtPad 2) (FInt m))]
      /\ filter (fun '(p, _) => str_in p seg2) (sort_by_len_desc (fun x => length (fst x)) l)
      = [(P_TAG, F FmtStr (FStr tag))]
  | None => False
  end.
Proof.
  intros F b c e g h i j. intros.
  destruct b, c, e, g, h, i, j; vm_compute; split; reflexivity.
Qed.

Definition yy_text (y : Z) : list N := dec (undec (lastn 2 (zdec y))).

Lemma fpv_used : forall v y m, v_year_y v = Some y -> v_month v = Some m ->
  exists pv, format_part_values v = Some pv
  /\ filter (fun '(p, _) => str_in p seg1) pv
     = [(P_BUILD, v_bid v); (P_YYYY, zdec y); (P_YY, yy_text y); (P_0M, pad 2 (Z.to_N m))]
  /\ filter (fun '(p, _) => str_in p seg2) pv = [(P_TAG, v_tag v)].
Proof.
  intros v y m Hy Hm.
  destruct v as [a b c d e g h i j ma mi pa bid tag pytag gh hh num i0 i1].
  cbn [v_year_y v_month v_bid v_tag] in *. subst a d.
  pose proof (pvg_used apply_fmt b c e g h i j y m ma mi pa bid tag pytag gh hh num i0 i1) as H.
  destruct (pvg apply_fmt _ PATTERN_PART_FIELDS) as [l|] eqn:H1; [|contradiction].
  destruct H as [H2 H3].
  exists (sort_by_len_desc (fun x => length (fst x)) l). split; [|split].
  - unfold format_part_values. rewrite pvg_eq, H1. reflexivity.
  - rewrite H2. reflexivity.
  - rewrite H3. reflexivity.
Qed.

(* str.replace on text made of digits *)
Lemma replace_go_skip c old new : forall ds rest, (forall x, In x ds -> x <> c) ->
  replace_go (c :: old) new 0 (ds ++ rest) = ds ++ replace_go (c :: old) new 0 rest.
Proof.
  induction ds as [|d ds IH]; intros rest H; [reflexivity|].
  cbn [app replace_go prefixb].
  assert (E : (c =? d) = false) by (apply N.eqb_neq; intros ->; exact (H d (or_introl eq_refl) eq_refl)).
  rewrite E. cbn [andb]. rewrite IH; [reflexivity|]. intros x Hx. apply H. right. exact Hx.
Qed.
Lemma replace_go_digits c old new ds rest : all_digits ds = true -> 57 < c ->
  replace_go (c :: old) new 0 (ds ++ rest) = ds ++ replace_go (c :: old) new 0 rest.
Proof. intros Hd Hc. apply replace_go_skip. intros x Hx. apply (digits_bounds ds x Hd) in Hx. lia. Qed.
(* the name 0M starts with a digit: a digit run is left alone when what follows does not start with M *)
Lemma replace_go_0M new : forall ds rest, all_digits ds = true ->
  match rest with c :: _ => c <> 77 | [] => True end ->
  replace_go [48; 77] new 0 (ds ++ rest) = ds ++ replace_go [48; 77] new 0 rest.
Proof.
  induction ds as [|d ds IH]; intros rest Hd Hr; [reflexivity|].
  apply all_digits_cons in Hd as [Hd Hds].
  cbn [app replace_go].
  assert (E : prefixb [48; 77] (d :: ds ++ rest) = false).
  { cbn [prefixb]. destruct (48 =? d); [|reflexivity]. cbn [andb].
    destruct ds as [|d' ds'].
    - cbn [app]. destruct rest as [|c t]; [reflexivity|].
      assert (E : (77 =? c) = false) by (apply N.eqb_neq; intros Q; apply Hr; symmetry; exact Q).
      rewrite E. reflexivity.
    - apply all_digits_cons in Hds as [Hd' _]. cbn [app].
      assert (E : (77 =? d') = false) by (apply N.eqb_neq; lia).
      rewrite E. reflexivity. }
  rewrite E. rewrite IH by assumption. reflexivity.
Qed.

Lemma replace_go_digits_end c old new ds : all_digits ds = true -> 57 < c ->
  replace_go (c :: old) new 0 ds = ds.
Proof.
  intros Hd Hc. rewrite <- (app_nil_r ds) at 1. rewrite replace_go_digits by assumption.
  cbn [replace_go]. apply app_nil_r.
Qed.
Lemma replace_go_0M_end new ds : all_digits ds = true -> replace_go [48; 77] new 0 ds = ds.
Proof.
  intros Hd. rewrite <- (app_nil_r ds) at 1. rewrite (replace_go_0M new ds [] Hd I).
  cbn [replace_go]. apply app_nil_r.
Qed.

Lemma r3_seg1 : sreplace [92; 93] [93] (sreplace [92; 91] [91] (sreplace [36] [] (sreplace [94] [] seg1))) = seg1.
Proof. vm_compute. reflexivity. Qed.

Lemma subst_calver y m bid yy : all_digits bid = true ->
  sreplace P_0M (pad 2 m) (sreplace P_YY yy (sreplace P_YYYY (dec y) (sreplace P_BUILD bid seg1))) = cv y m bid.
Proof.
  intros Hb.
  assert (E1 : sreplace P_BUILD bid seg1 = [118;89;89;89;89;48;77;46] ++ bid).
  { cbn. rewrite app_nil_r. reflexivity. }
  rewrite E1. clear E1.
  assert (E2 : sreplace P_YYYY (dec y) ([118;89;89;89;89;48;77;46] ++ bid) = 118 :: dec y ++ [48;77;46] ++ bid).
  { unfold sreplace, P_YYYY. cbn [app replace_go prefixb N.eqb Pos.eqb andb length Nat.sub].
    rewrite (replace_go_digits_end 89 [89;89;89] (dec y) bid Hb) by lia. reflexivity. }
  rewrite E2. clear E2.
  assert (E3 : sreplace P_YY yy (118 :: dec y ++ [48;77;46] ++ bid) = 118 :: dec y ++ [48;77;46] ++ bid).
  { unfold sreplace, P_YY. cbn [replace_go prefixb N.eqb Pos.eqb andb].
    rewrite (replace_go_digits 89 [89] yy (dec y)) by (try apply dec_all_digits; lia).
    cbn [app replace_go prefixb N.eqb Pos.eqb andb].
    rewrite (replace_go_digits_end 89 [89] yy bid Hb) by lia. reflexivity. }
  rewrite E3. clear E3.
  unfold sreplace, P_0M. cbn [replace_go prefixb N.eqb Pos.eqb andb].
  rewrite (replace_go_0M (pad 2 m) (dec y)); [|apply dec_all_digits|cbn [app]; intros Q; discriminate Q].
  cbn [app replace_go prefixb N.eqb Pos.eqb andb length Nat.sub].
  rewrite (replace_go_0M_end (pad 2 m) bid Hb). reflexivity.
Qed.

Lemma zero_TAG_final : is_zero_val P_TAG s_final = true.
Proof. reflexivity. Qed.

Local Opaque format_part_values parse_segtree.

(* the format step needs only: year and month present, TAG final, BUILD a digit string *)
Theorem calver_format_gen : forall v y m,
  v_year_y v = Some y -> v_month v = Some m -> v_tag v = s_final -> all_digits (v_bid v) = true ->
  format_version v P = Some (cv (Z.to_N y) (Z.to_N m) (v_bid v)).
Proof.
  intros v y m Hy Hm Ht Hb. destruct (fpv_used v y m Hy Hm) as (pv & H1 & H2 & H3).
  unfold format_version. rewrite H1, segtree_P. cbn [map concat].
  rewrite Ht in H3. rewrite (fmt_opt_zero pv seg2 P_TAG s_final H3 zero_TAG_final).
  cbn [fmt_seg]. rewrite format_segment_res, H2, r3_seg1. cbn [fold_left]. unfold zdec.
  rewrite subst_calver by exact Hb. rewrite !app_nil_r. reflexivity.
Qed.

Theorem calver_format : forall v y m,
  v_year_y v = Some y -> v_month v = Some m -> (1000 <= y <= 9999)%Z -> (1 <= m <= 12)%Z ->
  v_tag v = s_final -> v_pytag v = [] -> all_digits (v_bid v) = true -> v_bid v <> [] ->
  format_version v P = Some (cv (Z.to_N y) (Z.to_N m) (v_bid v)).
Proof. intros v y m Hy Hm _ _ Ht _ Hb _. exact (calver_format_gen v y m Hy Hm Ht Hb). Qed.


(* ------------------------------------------------------------------ PEP 440 reading of a CalVer string *)
Lemma cv_dj y m bid : cv y m bid = 118 :: dj [dec y ++ pad 2 m; bid].
Proof. unfold cv, dj. cbn [join app]. rewrite <- app_assoc. reflexivity. Qed.

Lemma dstr_ym y m : dstr (dec y ++ pad 2 m).
Proof.
  split.
  - apply all_digits_app. split; [apply dec_all_digits|apply pad_all_digits].
  - intros Q. apply app_eq_nil in Q. exact (dec_nonempty y (proj1 Q)).
Qed.
Lemma good_cv y m bid : dstr bid -> Forall dstr [dec y ++ pad 2 m; bid].
Proof. intros Hb. constructor; [apply dstr_ym|]. constructor; [exact Hb|constructor]. Qed.

(* the release number of the calendar part: year * 100 + month *)
Lemma undec_ym y m : m <= 12 -> undec (dec y ++ pad 2 m) = y * 100 + m.
Proof.
  intros Hm. rewrite undec_app, undec_dec, undec_pad.
  assert (L : length (pad 2 m) = 2%nat).
  { apply pad_length; [|lia]. change (10 ^ N.of_nat 2) with 100. lia. }
  rewrite L. reflexivity.
Qed.

Theorem parse_cv : forall y m bid, m <= 12 -> all_digits bid = true -> bid <> [] ->
  parse_pep440 (cv y m bid) = Some (mkpver 0 [y * 100 + m; undec bid] None None None None).
Proof.
  intros y m bid Hm Hd Hne. rewrite cv_dj.
  rewrite (parse_vdj [dec y ++ pad 2 m; bid]); [|apply good_cv; split; assumption|intros Q; discriminate Q].
  cbn [map]. rewrite undec_ym by exact Hm. reflexivity.
Qed.

Lemma ne2 (a b : N) : [a; b] <> [].
Proof. intros Q; discriminate Q. Qed.

Lemma version_key_cv y m bid : m <= 12 -> all_digits bid = true -> bid <> [] ->
  version_key (cv y m bid) = version_key (dotted [y * 100 + m; undec bid]).
Proof.
  intros Hm Hd Hne. unfold version_key.
  rewrite (parse_cv y m bid Hm Hd Hne), (parse_dotted [y * 100 + m; undec bid] (ne2 _ _)). reflexivity.
Qed.

(* version.to_pep440: the v goes away, the two-digit month stays glued to the year, leading zeros of
   the build number are dropped *)
Theorem to_pep440_cv : forall y m bid, m <= 12 -> all_digits bid = true -> bid <> [] ->
  to_pep440 (cv y m bid) = dotted [y * 100 + m; undec bid].
Proof.
  intros y m bid Hm Hd Hne. unfold to_pep440. rewrite (parse_cv y m bid Hm Hd Hne). unfold pver_str.
  cbn [pv_epoch pv_release pv_pre pv_post pv_dev pv_local N.eqb app]. rewrite !app_nil_r. reflexivity.
Qed.

Lemma ver_lt_cv y m bid y' m' bid' :
  m <= 12 -> all_digits bid = true -> bid <> [] -> m' <= 12 -> all_digits bid' = true -> bid' <> [] ->
  ver_lt (cv y m bid) (cv y' m' bid') =
  match cmp_list N.compare [y * 100 + m; undec bid] [y' * 100 + m'; undec bid'] with Lt => true | _ => false end.
Proof.
  intros Hm Hd Hne Hm' Hd' Hne'. unfold ver_lt.
  rewrite (version_key_cv y m bid Hm Hd Hne), (version_key_cv y' m' bid' Hm' Hd' Hne').
  exact (ver_lt_dotted [y * 100 + m; undec bid] [y' * 100 + m'; undec bid'] (ne2 _ _) (ne2 _ _) eq_refl).
Qed.
Lemma ver_le_cv y m bid y' m' bid' :
  m <= 12 -> all_digits bid = true -> bid <> [] -> m' <= 12 -> all_digits bid' = true -> bid' <> [] ->
  ver_le (cv y m bid) (cv y' m' bid') =
  match cmp_list N.compare [y * 100 + m; undec bid] [y' * 100 + m'; undec bid'] with Gt => false | _ => true end.
Proof.
  intros Hm Hd Hne Hm' Hd' Hne'. unfold ver_le.
  rewrite (version_key_cv y m bid Hm Hd Hne), (version_key_cv y' m' bid' Hm' Hd' Hne').
  exact (ver_le_dotted [y * 100 + m; undec bid] [y' * 100 + m'; undec bid'] (ne2 _ _) (ne2 _ _) eq_refl).
Qed.

(* two CalVer strings with different build strings differ *)
Lemma cv_inj_bid y m bid y' m' bid' : dstr bid -> dstr bid' -> cv y m bid = cv y' m' bid' -> bid = bid'.
Proof.
  intros Hb Hb' E. rewrite !cv_dj in E. injection E as E.
  pose proof (ssplit_dj [dec y ++ pad 2 m; bid] (good_cv y m bid Hb)) as S1.
  pose proof (ssplit_dj [dec y' ++ pad 2 m'; bid'] (good_cv y' m' bid' Hb')) as S2.
  rewrite E in S1. rewrite S2 in S1 by (intros Q; discriminate Q).
  assert (S3 : [dec y' ++ pad 2 m'; bid'] = [dec y ++ pad 2 m; bid]) by (apply S1; intros Q; discriminate Q).
  injection S3 as _ S3. symmetry. exact S3.
Qed.

(* ------------------------------------------------------------------ incr *)
(* no part flag, no --tag, no --tag-num, no --pin-date; --pin-increments is free *)
Definition no_flags (fl : flags) : Prop :=
  f_major fl = false /\ f_minor fl = false /\ f_patch fl = false /\ f_tag fl = None /\ f_tag_num fl = false
  /\ f_pin_date fl = false.

(* the guard of v2version.incr: the old version lies in the future of the date.  _is_cal_gt
   compares (year_y, quarter, month); since the quarter is a monotone function of the month this is
   the lexicographic comparison of (year, month) *)
Definition old_in_future (y m : N) (c : cal) : bool :=
  (year_y c <? Z.of_N y)%Z || ((year_y c =? Z.of_N y)%Z && (month c <? Z.of_N m)%Z).

Definition calver_next (y m : N) (b' : list N) (date : Z) : list N :=
  let c := cal_of date in
  if old_in_future y m c then cv y m b' else cv (Z.to_N (year_y c)) (Z.to_N (month c)) b'.

Lemma week_P : is_valid_week_pattern P = true.
Proof. vm_compute. reflexivity. Qed.
Lemma ppf_calver : parse_pattern_fields P = Some [n_year_y; n_month; n_bid; n_tag].
Proof. vm_compute. reflexivity. Qed.

Lemma quarter_cmp (M m : Z) : (1 <= M <= 12)%Z -> (1 <= m <= 12)%Z ->
  ((quarter_from_month M <? quarter_from_month m) ||
   ((quarter_from_month M =? quarter_from_month m) && ((M <? m) || ((M =? m) && false))))%Z = (M <? m)%Z.
Proof.
  intros HM Hm. unfold quarter_from_month.
  destruct (Z.ltb_spec M m), (Z.ltb_spec ((M - 1) / 3 + 1) ((m - 1) / 3 + 1)),
           (Z.eqb_spec ((M - 1) / 3 + 1) ((m - 1) / 3 + 1)), (Z.eqb_spec M m);
    cbn [orb andb]; try reflexivity; exfalso; Z.div_mod_to_equations; lia.
Qed.

Lemma is_cal_gt_cv y m bid date : 1 <= m <= 12 ->
  is_cal_gt (cal_list (cv_vinfo (Z.of_N y) (Z.of_N m) bid)) (cinfo_of_ord date) = old_in_future y m (cal_of date).
Proof.
  intros Hm. unfold is_cal_gt, cinfo_of_ord, cal_some, cal_fields, cal_list, cv_vinfo, old_in_future.
  cbn [map cal_pairs v_year_y v_year_g v_quarter v_month v_dom v_doy v_week_w v_week_u v_week_v zlist_lt].
  rewrite quarter_of_month. rewrite quarter_cmp; [reflexivity|apply month_range|lia].
Qed.

(* no part of this pattern has an initial value: a calendar rollover resets nothing (BUILD is never reset) *)
Lemma inits_calver old c : inits (after_first_changed old c [n_year_y; n_month; n_bid; n_tag]) = [].
Proof.
  cbn [after_first_changed].
  destruct (changed old c n_year_y); [reflexivity|]. destruct (changed old c n_month); [reflexivity|].
  destruct (changed old c n_bid); [reflexivity|]. destruct (changed old c n_tag); reflexivity.
Qed.

Lemma incr_numeric_calver old cur fl b' : no_flags fl -> bump_bid (v_bid cur) = Some b' ->
  exists nv, incr_numeric P old cur fl = Some nv /\ v_year_y nv = v_year_y cur /\ v_month nv = v_month cur
    /\ v_tag nv = v_tag cur /\ v_bid nv = b'.
Proof.
  intros (Hma & Hmi & Hpa & Ht & Htn & _) Hb.
  destruct cur as [a b c d e g h i j ma mi pa bid tag pytag gh hh num i0 i1].
  destruct fl as [fm fi fp ft ftn fpi fpd].
  cbn [f_major f_minor f_patch f_tag f_tag_num v_bid] in *. subst fm fi fp ft ftn.
  rewrite incr_numeric_bumped. unfold bumped. cbv zeta.
  cbn [f_major f_minor f_patch f_tag f_tag_num f_pin_increments].
  destruct fpi; upd; rewrite Hb; upd; rewrite reset_rollover_fields_eq, ppf_calver, inits_calver;
    (eexists; split; [reflexivity|]; repeat split; reflexivity).
Qed.

Lemma match_nonempty (new old : list N) : new <> [] ->
  match new with [] => INone | _ :: _ => if eqb_str new old then INone else INew new end
  = if eqb_str new old then INone else INew new.
Proof. destruct new; [congruence|reflexivity]. Qed.
Lemma cv_nonempty y m bid : cv y m bid <> [].
Proof. rewrite cv_eq. intros Q; discriminate Q. Qed.

Lemma bumped_bid_facts bid b' : all_digits bid = true -> bid <> [] -> bump_bid bid = Some b' ->
  undec bid < undec b' /\ all_digits b' = true /\ b' <> [].
Proof.
  intros Hd Hne Hb. destruct (bump_bid_spec bid b' Hd Hne Hb) as (Hlt & Hd' & Hlen' & _).
  split; [exact Hlt|]. split; [exact Hd'|]. intros ->. cbn [length] in Hlen'. lia.
Qed.

(* the step after incr_numeric: format, and the result differs from the old string *)
Lemma incr_finish old_s y m bid y' m' b' nv :
  all_digits bid = true -> bid <> [] -> bump_bid bid = Some b' ->
  v_year_y nv = Some y' -> v_month nv = Some m' -> v_tag nv = s_final -> v_bid nv = b' ->
  old_s = cv y m bid ->
  match format_version nv P with
  | None => ICrash
  | Some [] => INone
  | Some s => if eqb_str s old_s then INone else INew s
  end = INew (cv (Z.to_N y') (Z.to_N m') b').
Proof.
  intros Hd Hne Hb E1 E2 E3 E4 ->.
  destruct (bumped_bid_facts bid b' Hd Hne Hb) as (Hlt & Hd' & Hne').
  rewrite (calver_format_gen nv y' m' E1 E2 E3) by (rewrite E4; exact Hd').
  rewrite E4.
  change (match cv (Z.to_N y') (Z.to_N m') b' with
          | [] => INone
          | _ :: _ => if eqb_str (cv (Z.to_N y') (Z.to_N m') b') (cv y m bid) then INone
                      else INew (cv (Z.to_N y') (Z.to_N m') b')
          end = INew (cv (Z.to_N y') (Z.to_N m') b')).
  rewrite match_nonempty by apply cv_nonempty.
  destruct (eqb_str (cv (Z.to_N y') (Z.to_N m') b') (cv y m bid)) eqn:Q; [|reflexivity].
  exfalso. apply eqb_str_eq in Q. apply cv_inj_bid in Q; [|split; assumption|split; assumption].
  rewrite Q in Hlt. lia.
Qed.

Local Opaque parse_version_info format_version incr_numeric.

Theorem calver_incr : forall today date fl y m bid b',
  1000 <= y <= 9999 -> 1 <= m <= 12 -> all_digits bid = true -> bid <> [] ->
  no_flags fl -> bump_bid bid = Some b' ->
  incr today (cv y m bid) P fl date = INew (calver_next y m b' date).
Proof.
  intros today date fl y m bid b' Hy Hm Hd Hne Hfl Hb.
  pose proof Hfl as (_ & _ & _ & Ht & Htn & Hpd).
  unfold incr. rewrite week_P. cbn [negb]. rewrite (calver_parse_eq today y m bid Hy Hm Hd Hne). cbv zeta.
  rewrite Hpd, Ht, Htn. cbn [andb].
  rewrite (is_cal_gt_cv y m bid date Hm). unfold calver_next. cbv zeta.
  destruct (old_in_future y m (cal_of date)).
  - destruct (incr_numeric_calver (cv_vinfo (Z.of_N y) (Z.of_N m) bid) (cv_vinfo (Z.of_N y) (Z.of_N m) bid) fl b' Hfl Hb)
      as (nv & HN & E1 & E2 & E3 & E4).
    rewrite HN.
    rewrite (incr_finish (cv y m bid) y m bid (Z.of_N y) (Z.of_N m) b' nv Hd Hne Hb E1 E2 E3 E4 eq_refl).
    rewrite !N2Z.id. reflexivity.
  - destruct (incr_numeric_calver (cv_vinfo (Z.of_N y) (Z.of_N m) bid)
                (set_cal (cv_vinfo (Z.of_N y) (Z.of_N m) bid) (cinfo_of_ord date)) fl b' Hfl Hb)
      as (nv & HN & E1 & E2 & E3 & E4).
    rewrite HN.
    exact (incr_finish (cv y m bid) y m bid (year_y (cal_of date)) (month (cal_of date)) b' nv Hd Hne Hb E1 E2 E3 E4 eq_refl).
Qed.

(* ------------------------------------------------------------------ the new version is greater *)
Lemma not_future_ge y m c : old_in_future y m c = false -> (1 <= month c <= 12)%Z -> m <= 12 ->
  (Z.of_N y <= year_y c)%Z /\ y * 100 + m <= Z.to_N (year_y c) * 100 + Z.to_N (month c).
Proof.
  unfold old_in_future. intros H HM Hm.
  destruct (Z.ltb_spec (year_y c) (Z.of_N y)); [discriminate H|].
  destruct (Z.eqb_spec (year_y c) (Z.of_N y)); destruct (Z.ltb_spec (month c) (Z.of_N m));
    cbn [orb andb] in H; try discriminate H; split; lia.
Qed.

(* the next version always has the shape of a CalVer string again, with year and month in range *)
Lemma calver_next_shape y m b' date : 1000 <= y <= 9999 -> 1 <= m <= 12 -> (0 <= date <= MAX_ORD)%Z ->
  exists y' m', calver_next y m b' date = cv y' m' b' /\ 1000 <= y' <= 9999 /\ 1 <= m' <= 12
                /\ y * 100 + m <= y' * 100 + m'.
Proof.
  intros Hy Hm Hdate. unfold calver_next. cbv zeta.
  destruct (old_in_future y m (cal_of date)) eqn:E.
  - exists y, m. repeat split; lia.
  - pose proof (month_range date) as HM. pose proof (year_max date Hdate) as HY.
    destruct (not_future_ge y m (cal_of date) E HM ltac:(lia)) as [G1 G2].
    exists (Z.to_N (year_y (cal_of date))), (Z.to_N (month (cal_of date))). repeat split; lia.
Qed.

Theorem calver_result_greater : forall date y m bid b',
  1 <= m <= 12 -> all_digits bid = true -> bid <> [] -> bump_bid bid = Some b' ->
  ver_lt (cv y m bid) (calver_next y m b' date) = true.
Proof.
  intros date y m bid b' Hm Hd Hne Hb.
  destruct (bumped_bid_facts bid b' Hd Hne Hb) as (Hlt & Hd' & Hne').
  assert (L2 : N.compare (undec bid) (undec b') = Lt) by (apply N.compare_lt_iff; exact Hlt).
  unfold calver_next. cbv zeta.
  destruct (old_in_future y m (cal_of date)) eqn:E.
  - rewrite (ver_lt_cv y m bid y m b') by (assumption || lia).
    cbn [cmp_list]. rewrite N.compare_refl, L2. reflexivity.
  - pose proof (month_range date) as HM.
    destruct (not_future_ge y m (cal_of date) E HM ltac:(lia)) as [_ G2].
    rewrite (ver_lt_cv y m bid _ _ b') by (assumption || lia).
    cbn [cmp_list].
    destruct (N.compare_spec (y * 100 + m) (Z.to_N (year_y (cal_of date)) * 100 + Z.to_N (month (cal_of date))))
      as [_|_|G]; [rewrite L2; reflexivity|reflexivity|exfalso; lia].
Qed.

(* the PEP 440 form that the command prints next to the new version *)
Theorem calver_next_pep440 : forall date y m bid b',
  1000 <= y <= 9999 -> 1 <= m <= 12 -> all_digits bid = true -> bid <> [] -> bump_bid bid = Some b' ->
  to_pep440 (calver_next y m b' date) =
  (let c := cal_of date in
   if old_in_future y m c then dotted [y * 100 + m; undec b']
   else dotted [Z.to_N (year_y c) * 100 + Z.to_N (month c); undec b']).
Proof.
  intros date y m bid b' Hy Hm Hd Hne Hb.
  destruct (bumped_bid_facts bid b' Hd Hne Hb) as (_ & Hd' & Hne').
  pose proof (month_range date) as HM.
  unfold calver_next. cbv zeta. destruct (old_in_future y m (cal_of date));
    apply to_pep440_cv; (assumption || lia).
Qed.

(* ------------------------------------------------------------------ the command *)
Lemma validate_flags_P fl : no_flags fl -> validate_flags P fl = true.
Proof.
  intros (Hma & Hmi & Hpa & _). unfold validate_flags.
  change (has_brace_l P) with false. rewrite Hma, Hmi, Hpa. reflexivity.
Qed.

Local Opaque parse_pep440 version_key ver_le ver_lt to_pep440 incr.

Theorem calver_test_cmd : forall today date fl y m bid b',
  1000 <= y <= 9999 -> 1 <= m <= 12 -> all_digits bid = true -> bid <> [] ->
  (0 <= date <= MAX_ORD)%Z -> no_flags fl -> bump_bid bid = Some b' ->
  test_cmd_v2 today (cv y m bid) P fl (Some (Some date)) None
    = Exit0 (calver_next y m b' date) (to_pep440 (calver_next y m b' date)).
Proof.
  intros today date fl y m bid b' Hy Hm Hd Hne Hdate Hfl Hb.
  pose proof Hfl as (_ & _ & _ & Ht & Htn & Hpd).
  destruct (bumped_bid_facts bid b' Hd Hne Hb) as (_ & Hd' & Hne').
  pose proof (calver_result_greater date y m bid b' Hm Hd Hne Hb) as Hlt.
  pose proof (calver_incr today date fl y m bid b' Hy Hm Hd Hne Hfl Hb) as Hin.
  assert (Hg : is_valid_version_v2 today P (cv y m bid) (calver_next y m b' date) = GateOk).
  { unfold is_valid_version_v2.
    rewrite ver_lt_iff_not_le in Hlt. apply negb_true_iff in Hlt. rewrite Hlt.
    destruct (calver_next_shape y m b' date Hy Hm Hdate) as (y' & m' & En & Hy' & Hm' & _).
    rewrite En, (calver_parse_eq today y' m' b' Hy' Hm' Hd' Hne'). reflexivity. }
  unfold test_cmd_v2. rewrite Ht. cbn [validate_release_tag negb].
  rewrite (validate_flags_P fl Hfl). cbn [negb]. rewrite Hpd. cbn [andb].
  rewrite Hin, Hg. reflexivity.
Qed.

(* without --date the date is TODAY *)
Corollary calver_test_cmd_today : forall today fl y m bid b',
  1000 <= y <= 9999 -> 1 <= m <= 12 -> all_digits bid = true -> bid <> [] ->
  (0 <= today <= MAX_ORD)%Z -> no_flags fl -> bump_bid bid = Some b' ->
  test_cmd_v2 today (cv y m bid) P fl None None
    = Exit0 (calver_next y m b' today) (to_pep440 (calver_next y m b' today)).
Proof.
  intros today fl y m bid b' Hy Hm Hd Hne Hdate Hfl Hb.
  pose proof (calver_test_cmd today today fl y m bid b' Hy Hm Hd Hne Hdate Hfl Hb) as H.
  pose proof Hfl as (_ & _ & _ & Ht & Htn & Hpd).
  unfold test_cmd_v2 in *. rewrite Ht in *. cbn [validate_release_tag negb] in *.
  rewrite (validate_flags_P fl Hfl) in *. cbn [negb andb] in *. rewrite Hpd in H. cbn [andb] in H. exact H.
Qed.

(* the whole statement in one piece *)
Theorem calver_e2e : forall today date fl y m bid b',
  1000 <= y <= 9999 -> 1 <= m <= 12 -> all_digits bid = true -> bid <> [] ->
  (0 <= date <= MAX_ORD)%Z -> no_flags fl -> bump_bid bid = Some b' ->
  let new := calver_next y m b' date in
  test_cmd_v2 today (cv y m bid) P fl (Some (Some date)) None = Exit0 new (to_pep440 new)
  /\ ver_lt (cv y m bid) new = true
  /\ undec bid < undec b' /\ all_digits b' = true
  /\ exists y' m', new = cv y' m' b' /\ 1000 <= y' <= 9999 /\ 1 <= m' <= 12 /\ y * 100 + m <= y' * 100 + m'
       /\ to_pep440 new = dotted [y' * 100 + m'; undec b'].
Proof.
  intros today date fl y m bid b' Hy Hm Hd Hne Hdate Hfl Hb new.
  destruct (bumped_bid_facts bid b' Hd Hne Hb) as (Hlt & Hd' & Hne').
  split; [exact (calver_test_cmd today date fl y m bid b' Hy Hm Hd Hne Hdate Hfl Hb)|].
  split; [exact (calver_result_greater date y m bid b' ltac:(lia) Hd Hne Hb)|].
  split; [exact Hlt|]. split; [exact Hd'|].
  destruct (calver_next_shape y m b' date Hy Hm Hdate) as (y' & m' & En & Hy' & Hm' & Hge).
  exists y', m'. repeat split; try assumption; try lia.
  unfold new. rewrite En. apply to_pep440_cv; (assumption || lia).
Qed.

Print Assumptions calver_parse.
Print Assumptions calver_parse_eq.
Print Assumptions calver_format.
Print Assumptions calver_format_gen.
Print Assumptions parse_vdj.
Print Assumptions parse_dj.
Print Assumptions parse_cv.
Print Assumptions to_pep440_cv.
Print Assumptions calver_incr.
Print Assumptions calver_result_greater.
Print Assumptions calver_next_pep440.
Print Assumptions calver_test_cmd.
Print Assumptions calver_test_cmd_today.
Print Assumptions calver_e2e.
