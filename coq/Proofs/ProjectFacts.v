(* C08 (project histories): proofs over the abstract state machine Model/Project.v. *)
From Coq Require Import List Bool NArith ZArith Arith Lia Sorted.
From BV Require Import Lib.PyStr Model.V2 Model.Cli Model.V1 Model.CliAll Model.Config Model.Project Gen.Tables.
Import ListNotations.
Local Open Scope N_scope.

(* ================================================================== C08 *)
(* ------------------------------------------------------------------ C08 *)
Lemma fold_max_ge_init : forall l a, (a <= fold_left Nat.max l a)%nat.
Proof. induction l as [|x l IH]; intros a; simpl; [lia|]. specialize (IH (Nat.max a x)). lia. Qed.

Lemma fold_max_ge_in : forall l a t, In t l -> (t <= fold_left Nat.max l a)%nat.
Proof.
  induction l as [|x l IH]; intros a t Hin; simpl in *; [contradiction|].
  destruct Hin as [->|Hin]; [|apply IH; exact Hin].
  pose proof (fold_max_ge_init l (Nat.max a t)). lia.
Qed.

Lemma fold_max_le : forall l a b, (a <= b)%nat -> (forall t, In t l -> (t <= b)%nat) -> (fold_left Nat.max l a <= b)%nat.
Proof.
  induction l as [|x l IH]; intros a b Ha Hl; simpl; [exact Ha|].
  apply IH; [|intros t Ht; apply Hl; right; exact Ht].
  pose proof (Hl x (or_introl eq_refl)). lia.
Qed.

Lemma fold_max_eq : forall l a, (forall t, In t l -> (t <= a)%nat) -> fold_left Nat.max l a = a.
Proof.
  intros l a H. apply Nat.le_antisymm; [apply fold_max_le; [lia|exact H]|apply fold_max_ge_init].
Qed.

Lemma newest_ge_config : forall s, (ps_config s <= newest s)%nat.
Proof. intros s. apply fold_max_ge_init. Qed.

Lemma newest_ge_tag : forall s t, In t (ps_tags s) -> (t <= newest s)%nat.
Proof. intros s t. apply fold_max_ge_in. Qed.

Theorem step_preserves_consistent : forall s o, consistent s = true -> consistent (step s o) = true.
Proof.
  intros s o H. destruct o; unfold consistent in *; simpl; try exact H;
    rewrite Nat.eqb_refl; reflexivity.
Qed.

Theorem run_preserves_consistent : forall ops s, consistent s = true -> consistent (run_ops ops s) = true.
Proof.
  unfold run_ops. induction ops as [|o ops IH]; intros s H; simpl; [exact H|].
  apply IH. apply step_preserves_consistent. exact H.
Qed.

Theorem update_strictly_increases : forall s o, In o [OUpdate; OUpdateNoTag; OUpdateNoCommit] ->
  (newest s < ps_config (step s o))%nat /\ ps_config (step s o) = newest (step s o).
Proof.
  intros s o Ho. simpl in Ho.
  assert (Hv : ps_config (step s o) = S (newest s)) by (destruct Ho as [<-|[<-|[<-|[]]]]; reflexivity).
  split; [rewrite Hv; lia|].
  assert (Ht : forall t, In t (ps_tags (step s o)) -> (t <= ps_config (step s o))%nat).
  { rewrite Hv. intros t Ht.
    destruct Ho as [<-|[<-|[<-|[]]]]; simpl in Ht;
      try (apply newest_ge_tag in Ht; lia).
    apply in_app_or in Ht. destruct Ht as [Ht|[<-|[]]]; [apply newest_ge_tag in Ht; lia|].
    unfold next_version. lia. }
  unfold newest at 1. symmetry. apply fold_max_eq. exact Ht.
Qed.

Theorem fail_changes_nothing : forall s, step s OFail = s.
Proof. reflexivity. Qed.

(* invariant of every history: the tags strictly increase and none exceeds the config version *)
Definition tags_inv (s : pstate) : Prop :=
  StronglySorted lt (ps_tags s) /\ (forall t, In t (ps_tags s) -> (t <= ps_config s)%nat).

Lemma sorted_snoc : forall l v, StronglySorted lt l -> (forall t, In t l -> (t < v)%nat) -> StronglySorted lt (l ++ [v]).
Proof.
  induction l as [|x l IH]; intros v Hs Hl; simpl.
  - constructor; constructor.
  - inversion Hs as [|? ? Hs' Hx]; subst. constructor.
    + apply IH; [exact Hs'|]. intros t Ht. apply Hl. right. exact Ht.
    + apply Forall_app. split; [exact Hx|]. constructor; [|constructor]. apply Hl. left. reflexivity.
Qed.

Lemma step_preserves_tags_inv : forall s o, tags_inv s -> tags_inv (step s o).
Proof.
  intros s o [Hs Hl].
  assert (Hn : forall t, In t (ps_tags s) -> (t < next_version s)%nat).
  { intros t Ht. apply newest_ge_tag in Ht. unfold next_version. lia. }
  destruct o; unfold tags_inv; simpl; try (split; assumption).
  - split.
    + apply sorted_snoc; assumption.
    + intros t Ht. apply in_app_or in Ht. destruct Ht as [Ht|[<-|[]]]; [apply Hn in Ht; lia|lia].
  - split; [exact Hs|]. intros t Ht. apply Hn in Ht. lia.
  - split; [exact Hs|]. intros t Ht. apply Hn in Ht. lia.
Qed.

Lemma run_preserves_tags_inv : forall ops s, tags_inv s -> tags_inv (run_ops ops s).
Proof.
  unfold run_ops. induction ops as [|o ops IH]; intros s H; simpl; [exact H|].
  apply IH. apply step_preserves_tags_inv. exact H.
Qed.

Lemma init_tags_inv : tags_inv init_state.
Proof. split; simpl; [constructor|intros t []]. Qed.

Theorem tags_sorted : forall ops, StronglySorted lt (ps_tags (run_ops ops init_state)).
Proof. intros ops. apply (run_preserves_tags_inv ops init_state init_tags_inv). Qed.

Theorem tags_below_config : forall ops t, In t (ps_tags (run_ops ops init_state)) -> (t <= ps_config (run_ops ops init_state))%nat.
Proof. intros ops. apply (run_preserves_tags_inv ops init_state init_tags_inv). Qed.

Theorem one_commit_per_update : forall s,
  ps_commits (step s OUpdate) = S (ps_commits s) /\ ps_tags (step s OUpdate) = ps_tags s ++ [ps_config (step s OUpdate)].
Proof. intros s. split; reflexivity. Qed.

Theorem next_update_possible : forall ops, let s := run_ops ops init_state in ps_config (step s OUpdate) = S (ps_config s).
Proof.
  intros ops s. simpl. unfold next_version, newest. f_equal.
  apply fold_max_eq. apply tags_below_config.
Qed.

