(* Call-order facts C13 rests on, over the call orders T1 extracts from the source (translate/t1_calls.py).
   Each states the relative order and multiplicity of exactly the steps that matter for the property;
   steps that do not matter may move without breaking it. *)
From Coq Require Import List NArith Strings.String.
From BV Require Import Lib.PyStr Lib.StrLit Gen.Tables.
Import ListNotations.
Local Open Scope string_scope.

(* in cli.update everything that can fail before files are written (tag resolution, increment, gate, diff, both message templates) comes before the dry return, and the real update directly after it *)
Theorem c13_order_update :
  restrict (lits ["_update_cfg_from_vcs"; "incr_dispatch"; "_is_valid_version"; "_print_diff"; "commit_msg_template.format"; "tag_msg_template.format"; "<if dry: return>"; "_try_update"]) ORDER_CLI_UPDATE
  = lits ["_update_cfg_from_vcs"; "incr_dispatch"; "_is_valid_version"; "_print_diff"; "commit_msg_template.format"; "tag_msg_template.format"; "<if dry: return>"; "_try_update"].
Proof. vm_compute. reflexivity. Qed.
