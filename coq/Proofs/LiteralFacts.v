(* C07: pattern text without part names, brackets, backslashes, anchors and upper-case letters compiles
   to a regular expression that matches exactly that text.
   - the generated escape table has the shape  c -> backslash c  and covers the metacharacters;
   - escape_pattern acts character by character on such text;
   - no part name occurs in the escaped text, so compile_pattern_str is the escaped text;
   - the parser of Lib/RegexParse.v reads the escaped text back as the literal regex [lit s];
   - searching for [lit s] finds the first occurrence of s and the matched text is s.
   Two witnesses at the end document the known holes: a caret in the middle and backslash-letter. *)
From Coq Require Import List Bool NArith Arith Lia.
From BV Require Import Lib.PyStr Lib.Regex Lib.RegexParse Gen.Tables Model.V2 Proofs.RegexFacts.
Import ListNotations.
Local Open Scope N_scope.

(* printable ASCII, no upper case, no [ ] \ ^ $ *)
Definition plain_chr (c : N) : bool :=
  (32 <=? c) && (c <=? 126) && negb (is_upper c) && negb (c =? 91) && negb (c =? 93) && negb (c =? 92)
  && negb (c =? 94) && negb (c =? 36).
Definition plain (s : list N) : bool := forallb plain_chr s.
Definition escaped_chr (c : N) : list N :=
  match assoc [c] RE_PATTERN_ESCAPES with Some e => e | None => [c] end.
(* the regex the parser produces for literal text: right-nested Cat of one-character classes ending in Eps.
   This is exactly Lib.Regex.lit. *)
Definition lit_e (s : list N) : re := lit s.

(* ------------------------------------------------------------------ the generated table *)
Theorem repo_escape_table_shape :
  forallb (fun '(c, e) => match c with [x] => eqb_str e [92; x] | _ => false end) RE_PATTERN_ESCAPES = true
  /\ NoDup (map fst RE_PATTERN_ESCAPES).
Proof.
  split; [vm_compute; reflexivity|].
  unfold RE_PATTERN_ESCAPES. cbn [map fst].
  repeat (apply NoDup_cons; [intros Hin; cbn [In] in Hin; repeat (destruct Hin as [Hin|Hin]; [discriminate Hin|]); exact Hin|]).
  apply NoDup_nil.
Qed.

(* \ - . + * ? { } [ ] ( ) | *)
Theorem repo_escapes_cover_metachars :
  forallb (fun c => has_key [c] RE_PATTERN_ESCAPES) [92;45;46;43;42;63;123;125;91;93;40;41;124] = true.
Proof. vm_compute. reflexivity. Qed.

(* ------------------------------------------------------------------ enumeration of printable ASCII *)
Definition ascii_list : list N := Eval vm_compute in map N.of_nat (seq 32 95).

Lemma ascii_in c : 32 <= c -> c <= 126 -> In c ascii_list.
Proof.
  intros H1 H2. change ascii_list with (map N.of_nat (seq 32 95)).
  rewrite <- (N2Nat.id c). apply in_map. apply in_seq. lia.
Qed.
Lemma ascii_Forall (P : N -> Prop) : Forall P ascii_list -> forall c, 32 <= c -> c <= 126 -> P c.
Proof. intros H c H1 H2. rewrite Forall_forall in H. apply H, ascii_in; assumption. Qed.

Lemma plain_chr_range c : plain_chr c = true -> 32 <= c /\ c <= 126.
Proof.
  unfold plain_chr. rewrite !andb_true_iff. intros [[[[[[[H1 H2] _] _] _] _] _] _].
  split; apply N.leb_le; assumption.
Qed.
Lemma plain_Forall (P : N -> Prop) :
  Forall (fun c => plain_chr c = true -> P c) ascii_list -> forall c, plain_chr c = true -> P c.
Proof.
  intros H c Hc. destruct (plain_chr_range c Hc) as [H1 H2].
  exact (ascii_Forall _ H c H1 H2 Hc).
Qed.
Lemma plain_forallb (P : N -> bool) :
  forallb (fun c => implb (plain_chr c) (P c)) ascii_list = true -> forall c, plain_chr c = true -> P c = true.
Proof.
  intros H c Hc. destruct (plain_chr_range c Hc) as [H1 H2]. rewrite forallb_forall in H.
  specialize (H c (ascii_in c H1 H2)). rewrite Hc in H. exact H.
Qed.
Lemma plain_cons c t : plain (c :: t) = true -> plain_chr c = true /\ plain t = true.
Proof. intros H. change (plain_chr c && plain t = true) in H. apply andb_true_iff in H. exact H. Qed.
Lemma plain_In s : plain s = true -> forall c, In c s -> plain_chr c = true.
Proof. intros H. apply forallb_forall. exact H. Qed.

Lemma eqb_str_eq : forall a b, eqb_str a b = true -> a = b.
Proof.
  induction a as [|x a IH]; intros [|y b] H; try discriminate; [reflexivity|].
  simpl in H. apply andb_true_iff in H as [H1 H2]. apply N.eqb_eq in H1. subst y. f_equal. apply IH, H2.
Qed.

(* ------------------------------------------------------------------ escaping acts character by character *)
Lemma sreplace_single c e s : sreplace [c] e s = flat_map (fun x => if x =? c then e else [x]) s.
Proof.
  unfold sreplace. induction s as [|x t IH]; [reflexivity|].
  cbn [replace_go prefixb length Nat.sub flat_map]. rewrite andb_true_r, (N.eqb_sym c x).
  destruct (x =? c); rewrite IH; reflexivity.
Qed.

Lemma flat_map_flat_map {A B C} (f : A -> list B) (g : B -> list C) l :
  flat_map g (flat_map f l) = flat_map (fun x => flat_map g (f x)) l.
Proof. induction l as [|a l IH]; simpl; [reflexivity|]. rewrite flat_map_app, IH. reflexivity. Qed.

(* a string function determined by its values on one-character strings *)
Definition charwise (phi : list N -> list N) : Prop := forall s, phi s = flat_map (fun x => phi [x]) s.

Lemma charwise_id : charwise (fun s => s).
Proof. intros s. induction s as [|x t IH]; simpl; [reflexivity|]. rewrite <- IH. reflexivity. Qed.
Lemma charwise_comp phi psi : charwise phi -> charwise psi -> charwise (fun s => psi (phi s)).
Proof.
  intros Hp Hq s.
  transitivity (flat_map (fun x => flat_map (fun y => psi [y]) (phi [x])) s).
  - rewrite (Hq (phi s)). rewrite (Hp s). apply flat_map_flat_map.
  - apply flat_map_ext_in. intros x _. symmetry. apply Hq.
Qed.
Lemma charwise_sreplace c e : charwise (sreplace [c] e).
Proof.
  intros s. rewrite sreplace_single. apply flat_map_ext_in. intros x _.
  rewrite sreplace_single. simpl. rewrite app_nil_r. reflexivity.
Qed.

(* the fold of escape_pattern over ANY table whose keys are single characters *)
Lemma escape_fold_charwise : forall l,
  forallb (fun ce : list N * list N => match fst ce with [_] => true | _ => false end) l = true ->
  charwise (fun p => fold_left (fun acc '(c, e) => if str_in c [91; 93; 92] then acc else sreplace c e acc) l p).
Proof.
  induction l as [|[k e] l IH]; intros H.
  - exact charwise_id.
  - cbn [forallb fst] in H. apply andb_true_iff in H as [Hk Hl].
    destruct k as [|k0 [|k1 k2]]; try discriminate Hk.
    cbn [fold_left].
    apply (charwise_comp (fun p => if str_in [k0] [91; 93; 92] then p else sreplace [k0] e p)
                         (fun p => fold_left (fun acc '(c, e) => if str_in c [91; 93; 92] then acc else sreplace c e acc) l p)).
    + destruct (str_in [k0] [91; 93; 92]); [exact charwise_id | apply charwise_sreplace].
    + apply IH, Hl.
Qed.

Lemma escape_pattern_charwise : forall s, escape_pattern s = flat_map (fun x => escape_pattern [x]) s.
Proof. exact (escape_fold_charwise RE_PATTERN_ESCAPES eq_refl). Qed.

Theorem escape_is_charwise : forall s, plain s = true -> escape_pattern s = flat_map escaped_chr s.
Proof.
  intros s H. rewrite escape_pattern_charwise. apply flat_map_ext_in. intros x Hin.
  apply eqb_str_eq. generalize (plain_In s H x Hin). clear. revert x.
  apply (plain_forallb (fun x => eqb_str (escape_pattern [x]) (escaped_chr x))).
  vm_compute. reflexivity.
Qed.

(* ------------------------------------------------------------------ no part name, no bracket *)
Definition out_ok (c : N) : bool := negb (is_upper c) && negb (c =? 91) && negb (c =? 93).

Lemma forallb_flat_map {A B} (P : B -> bool) (f : A -> list B) l :
  (forall x, In x l -> forallb P (f x) = true) -> forallb P (flat_map f l) = true.
Proof.
  induction l as [|a l IH]; intros H; simpl; [reflexivity|].
  rewrite forallb_app, H by (left; reflexivity). apply IH. intros x Hx. apply H. right. exact Hx.
Qed.

Lemma escaped_out_ok s : plain s = true -> forallb out_ok (flat_map escaped_chr s) = true.
Proof.
  intros H. apply forallb_flat_map. intros x Hin. generalize (plain_In s H x Hin). clear. revert x.
  apply (plain_forallb (fun x => forallb out_ok (escaped_chr x))). vm_compute. reflexivity.
Qed.

Lemma brackets_go_id : forall s, forallb out_ok s = true -> forall prev, brackets_go s prev = s.
Proof.
  induction s as [|c t IH]; intros H prev; [reflexivity|].
  cbn [forallb] in H. apply andb_true_iff in H as [Hc Ht]. unfold out_ok in Hc.
  apply andb_true_iff in Hc as [Hc H93]. apply andb_true_iff in Hc as [_ H91].
  apply negb_true_iff in H91, H93. cbn [brackets_go]. rewrite H91, H93. cbn [andb]. f_equal. apply IH, Ht.
Qed.

Lemma sfind_eq n s :
  sfind n s = if prefixb n s then Some O
              else match s with [] => None | _ :: t => match sfind n t with Some i => Some (S i) | None => None end end.
Proof. destruct s; reflexivity. Qed.

Lemma prefixb_In : forall n p, prefixb n p = true -> forall u, In u n -> In u p.
Proof.
  induction n as [|x n IH]; intros p H u Hu; [destruct Hu|].
  destruct p as [|y p]; [discriminate|]. cbn [prefixb] in H. apply andb_true_iff in H as [Hxy Hp].
  apply N.eqb_eq in Hxy. subst y. destruct Hu as [<-|Hu]; [left; reflexivity|right; eapply IH; eauto].
Qed.
Lemma sfind_In : forall p n i, sfind n p = Some i -> forall u, In u n -> In u p.
Proof.
  induction p as [|y p IH]; intros n i H u Hu; rewrite sfind_eq in H.
  - destruct (prefixb n []) eqn:E; [|discriminate]. eapply prefixb_In; eauto.
  - destruct (prefixb n (y :: p)) eqn:E; [eapply prefixb_In; eauto|].
    destruct (sfind n p) as [j|] eqn:E2; [|discriminate]. right. eapply IH; eauto.
Qed.
Lemma sfind_none_upper n p :
  existsb is_upper n = true -> forallb out_ok p = true -> sfind n p = None.
Proof.
  intros Hn Hp. destruct (sfind n p) as [i|] eqn:E; [exfalso|reflexivity].
  apply existsb_exists in Hn as [u [Hu Hup]].
  pose proof (sfind_In p n i E u Hu) as Hin. rewrite forallb_forall in Hp. specialize (Hp u Hin).
  unfold out_ok in Hp. rewrite Hup in Hp. discriminate.
Qed.

Lemma fold_left_fixed {A B} (f : A -> B -> A) l a : (forall x, In x l -> f a x = a) -> fold_left f l a = a.
Proof.
  induction l as [|b l IH]; intros H; cbn [fold_left]; [reflexivity|].
  rewrite H by (left; reflexivity). apply IH. intros x Hx. apply H. right. exact Hx.
Qed.

Lemma iter_part_patterns_nil pat :
  (forall name ppat, In (name, ppat) PART_PATTERNS -> sfind name pat = None) -> iter_part_patterns pat = [].
Proof.
  intros H. unfold iter_part_patterns. rewrite fold_left_fixed; [reflexivity|].
  intros [name ppat] Hin.
  assert (Hocc : occurrences (S (length pat)) name pat 0 = []).
  { cbn [occurrences]. unfold find_from. cbn [skipn]. rewrite (H _ _ Hin). reflexivity. }
  rewrite Hocc. reflexivity.
Qed.

(* every part name of the generated PART_PATTERNS contains an upper-case letter *)
Lemma repo_part_names_have_upper : forallb (fun '(n, _) => existsb is_upper n) PART_PATTERNS = true.
Proof. vm_compute. reflexivity. Qed.

Lemma replace_brackets_escaped s : plain s = true -> replace_brackets (escape_pattern s) = flat_map escaped_chr s.
Proof.
  intros H. rewrite (escape_is_charwise s H). unfold replace_brackets. apply brackets_go_id, escaped_out_ok, H.
Qed.

Theorem no_part_in_plain : forall s, plain s = true ->
  iter_part_patterns (replace_brackets (escape_pattern s)) = [].
Proof.
  intros s H. rewrite (replace_brackets_escaped s H). apply iter_part_patterns_nil.
  intros name ppat Hin. apply sfind_none_upper; [|apply escaped_out_ok, H].
  pose proof repo_part_names_have_upper as Hup. rewrite forallb_forall in Hup. exact (Hup _ Hin).
Qed.

Theorem plain_compiles_to_itself_escaped : forall s, plain s = true ->
  compile_pattern_str s = flat_map escaped_chr s.
Proof.
  intros s H. unfold compile_pattern_str, replace_pattern_parts. cbv zeta.
  rewrite (no_part_in_plain s H). unfold pp_dict. cbn [fold_left fst].
  apply replace_brackets_escaped, H.
Qed.

(* ------------------------------------------------------------------ the parser reads it back as a literal *)
Lemma p_alt_S f s a : p_seq f false s = Some (a, []) -> p_alt (S f) false s = Some (a, []).
Proof.
  intros H.
  change (p_alt (S f) false s) with
    (match p_seq f false s with
     | None => None
     | Some (a, s1) =>
         match s1 with
         | 124 :: s2 => match p_alt f false s2 with Some (b, s3) => Some (Alt a b, s3) | None => None end
         | _ => Some (a, s1)
         end
     end).
  rewrite H. reflexivity.
Qed.

(* one escaped character in front: the atom is the one-character class, then the quantifier check *)
Lemma p_seq_escaped_chr : forall c, plain_chr c = true -> forall f rest,
  p_seq (S (S f)) false (escaped_chr c ++ rest) =
  match p_quant (chr_re c) rest with
  | None => None
  | Some (aq, s2) => match p_seq (S f) false s2 with Some (b, s3) => Some (Cat aq b, s3) | None => None end
  end.
Proof.
  apply (plain_Forall (fun c => forall f rest,
    p_seq (S (S f)) false (escaped_chr c ++ rest) =
    match p_quant (chr_re c) rest with
    | None => None
    | Some (aq, s2) => match p_seq (S f) false s2 with Some (b, s3) => Some (Cat aq b, s3) | None => None end
    end)).
  unfold ascii_list.
  repeat (apply Forall_cons; [intros Hc f rest; first [(vm_compute in Hc; discriminate Hc) | reflexivity]|]).
  apply Forall_nil.
Qed.

(* not one of ? * + { *)
Definition nq (c : N) : bool := negb (c =? 63) && negb (c =? 42) && negb (c =? 43) && negb (c =? 123).
Definition head_ok (l : list N) : bool :=
  match l with [] => true | c :: _ => (32 <=? c) && (c <=? 126) && nq c end.

Lemma p_quant_nq : forall c, 32 <= c -> c <= 126 -> nq c = true -> forall a t, p_quant a (c :: t) = Some (a, c :: t).
Proof.
  apply (ascii_Forall (fun c => nq c = true -> forall a t, p_quant a (c :: t) = Some (a, c :: t))).
  unfold ascii_list.
  repeat (apply Forall_cons; [intros Hc a t; first [(vm_compute in Hc; discriminate Hc) | reflexivity]|]).
  apply Forall_nil.
Qed.
Lemma p_quant_head_ok a l : head_ok l = true -> p_quant a l = Some (a, l).
Proof.
  destruct l as [|c t]; [reflexivity|]. unfold head_ok. intros H.
  apply andb_true_iff in H as [H Hq]. apply andb_true_iff in H as [H1 H2].
  apply p_quant_nq; [apply N.leb_le; exact H1 | apply N.leb_le; exact H2 | exact Hq].
Qed.

Lemma head_ok_escaped_chr : forall c, plain_chr c = true -> forall rest, head_ok (escaped_chr c ++ rest) = true.
Proof.
  apply (plain_Forall (fun c => forall rest, head_ok (escaped_chr c ++ rest) = true)). unfold ascii_list.
  repeat (apply Forall_cons; [intros Hc rest; first [(vm_compute in Hc; discriminate Hc) | reflexivity]|]).
  apply Forall_nil.
Qed.
Lemma head_ok_escaped s : plain s = true -> head_ok (flat_map escaped_chr s) = true.
Proof.
  destruct s as [|c t]; [reflexivity|]. intros H. apply plain_cons in H as [Hc _].
  cbn [flat_map]. apply head_ok_escaped_chr, Hc.
Qed.

Lemma p_seq_lit : forall s, plain s = true -> forall f, (length s + 2 <= f)%nat ->
  p_seq f false (flat_map escaped_chr s) = Some (lit s, []).
Proof.
  induction s as [|c t IH]; intros H f Hf.
  - destruct f as [|f]; [simpl in Hf; lia|]. reflexivity.
  - apply plain_cons in H as [Hc Ht]. cbn [length] in Hf.
    destruct f as [|[|f]]; [lia|lia|].
    cbn [flat_map]. rewrite (p_seq_escaped_chr c Hc f).
    rewrite (p_quant_head_ok _ _ (head_ok_escaped t Ht)).
    rewrite (IH Ht (S f)) by lia. reflexivity.
Qed.

Lemma escaped_len s : plain s = true -> (length s <= length (flat_map escaped_chr s))%nat.
Proof.
  induction s as [|c t IH]; intros H; [apply Nat.le_refl|].
  apply plain_cons in H as [Hc Ht]. cbn [flat_map length]. rewrite app_length.
  assert (Hl : (1 <=? length (escaped_chr c))%nat = true).
  { revert c Hc. apply (plain_forallb (fun c => (1 <=? length (escaped_chr c))%nat)). vm_compute. reflexivity. }
  apply Nat.leb_le in Hl. specialize (IH Ht). lia.
Qed.

Theorem plain_compiles_to_literal : forall s, plain s = true ->
  parse_re (compile_pattern_str s) = Some (lit_e s).
Proof.
  intros s H. rewrite (plain_compiles_to_itself_escaped s H). unfold parse_re, parse_re_v, lit_e.
  pose proof (escaped_len s H) as Hlen.
  set (E := flat_map escaped_chr s) in *.
  replace (4 * length E + 8)%nat with (S (4 * length E + 7)) by lia.
  rewrite (p_alt_S _ E (lit s)); [reflexivity|].
  unfold E. apply p_seq_lit; [exact H|]. fold E. lia.
Qed.

Lemma group_names_lit s : group_names (lit s) = [].
Proof. induction s as [|c t IH]; [reflexivity|]. cbn [lit group_names]. exact IH. Qed.

(* the same through compile_pattern_re (which also rejects duplicate group names) *)
Theorem plain_compile_pattern_re : forall s, plain s = true -> compile_pattern_re s = Some (lit_e s).
Proof.
  intros s H. unfold compile_pattern_re. rewrite (plain_compiles_to_literal s H).
  unfold lit_e. rewrite group_names_lit. reflexivity.
Qed.

(* ------------------------------------------------------------------ matching and searching a literal *)
Lemma cls_single_eqb c d : cls_accepts false [(c, c)] d = (c =? d).
Proof.
  destruct (N.eqb_spec c d) as [->|Hne]; [apply cls_single | apply cls_single_ne; exact Hne].
Qed.

(* match-level core: the literal regex matches at the start of x exactly when x starts with s *)
Theorem first_match_lit : forall s f n0 x,
  first_match f n0 (lit_e s) x = if prefixb s x then Some ([], skipn (length s) x) else None.
Proof.
  unfold lit_e. induction s as [|c t IH]; intros f n0 x.
  - cbn [lit prefixb length skipn]. apply first_eps.
  - unfold first_match. cbn [lit]. rewrite rems_cat, rems_cls. destruct x as [|d x']; [reflexivity|].
    rewrite cls_single_eqb. cbn [prefixb length skipn]. destruct (c =? d); [|reflexivity].
    cbn [flat_map andb]. rewrite app_nil_r, hd_error_map. change (hd_error (rems f n0 (lit t) x')) with (first_match f n0 (lit t) x'). rewrite IH.
    destruct (prefixb t x'); reflexivity.
Qed.

Lemma search_go_lit s f n0 : forall x off,
  search_go f n0 (lit_e s) off x =
  match sfind s x with
  | Some i => Some ((off + i)%nat, [], skipn (i + length s) x)
  | None => None
  end.
Proof.
  induction x as [|d x IH]; intros off.
  - cbn [search_go]. rewrite first_match_lit, sfind_eq.
    destruct (prefixb s []); [|reflexivity]. rewrite Nat.add_0_r. reflexivity.
  - cbn [search_go]. rewrite first_match_lit, (sfind_eq s (d :: x)).
    destruct (prefixb s (d :: x)); [rewrite Nat.add_0_r; reflexivity|].
    rewrite IH. destruct (sfind s x) as [i|]; [|reflexivity].
    rewrite Nat.add_succ_r. reflexivity.
Qed.

Lemma prefixb_len : forall s x, prefixb s x = true -> (length s <= length x)%nat.
Proof.
  induction s as [|c t IH]; intros x H; [simpl; lia|].
  destruct x as [|d x]; [discriminate|]. cbn [prefixb] in H. apply andb_true_iff in H as [_ H].
  apply IH in H. simpl. lia.
Qed.
Lemma prefixb_firstn : forall s x, prefixb s x = true -> firstn (length s) x = s.
Proof.
  induction s as [|c t IH]; intros x H; [reflexivity|].
  destruct x as [|d x]; [discriminate|]. cbn [prefixb] in H. apply andb_true_iff in H as [Hcd H].
  apply N.eqb_eq in Hcd. subst d. cbn [length firstn]. f_equal. apply IH, H.
Qed.
Lemma sfind_spec : forall x s i, sfind s x = Some i ->
  prefixb s (skipn i x) = true /\ (i + length s <= length x)%nat.
Proof.
  induction x as [|d x IH]; intros s i H; rewrite sfind_eq in H.
  - destruct (prefixb s []) eqn:E; [|discriminate]. injection H as <-. split; [exact E|].
    apply prefixb_len in E. exact E.
  - destruct (prefixb s (d :: x)) eqn:E.
    + injection H as <-. split; [exact E|]. apply prefixb_len in E. exact E.
    + destruct (sfind s x) as [j|] eqn:E2; [|discriminate]. injection H as <-.
      destruct (IH s j E2) as [Hp Hl]. split; [exact Hp|]. simpl. lia.
Qed.

(* searching for a literal: the first occurrence, and the matched text is the literal *)
Theorem search_span_lit : forall s line,
  search_span (lit_e s) line =
  match sfind s line with Some i => Some (i, (i + length s)%nat, s) | None => None end.
Proof.
  intros s line. unfold search_span, re_search. rewrite search_go_lit.
  destruct (sfind s line) as [i|] eqn:E; [|reflexivity].
  destruct (sfind_spec line s i E) as [Hp Hl]. cbv zeta. cbn [Nat.add]. rewrite skipn_length.
  replace (length line - (length line - (i + length s)))%nat with (i + length s)%nat by lia.
  replace (i + length s - i)%nat with (length s) by lia.
  rewrite (prefixb_firstn _ _ Hp). reflexivity.
Qed.

Theorem literal_search_iff_contains : forall s line, plain s = true -> s <> [] ->
  ((exists a b t, search_span (lit_e s) line = Some (a, b, t)) <-> str_in s line = true)
  /\ (forall a b t, search_span (lit_e s) line = Some (a, b, t) ->
        t = s /\ firstn (b - a) (skipn a line) = s).
Proof.
  intros s line _ _. rewrite search_span_lit. unfold str_in.
  destruct (sfind s line) as [i|] eqn:E.
  - split.
    + split; [reflexivity|]. intros _. exists i, (i + length s)%nat, s. reflexivity.
    + intros a b t [= <- <- <-]. split; [reflexivity|].
      destruct (sfind_spec line s i E) as [Hp _].
      replace (i + length s - i)%nat with (length s) by lia. apply prefixb_firstn, Hp.
  - split.
    + split; [intros (a & b & t & H); discriminate H | discriminate].
    + intros a b t H. discriminate H.
Qed.

(* a|b : the bar is escaped *)
Example pipe_is_literal : compile_pattern_str [97; 124; 98] = [97; 92; 124; 98].
Proof. vm_compute. reflexivity. Qed.

(* ------------------------------------------------------------------ known holes (refutation witnesses) *)
(* x^y : the caret is neither escaped nor rejected; it becomes an anchor in the middle, and the
   compiled pattern cannot even find its own text *)
Example caret_mid_is_anchor :
  compile_pattern_str [120; 94; 121] = [120; 94; 121]
  /\ compile_pattern_re [120; 94; 121] = Some (Cat (chr_re 120) (Cat Bol (Cat (chr_re 121) Eps)))
  /\ search_span (Cat (chr_re 120) (Cat Bol (Cat (chr_re 121) Eps))) [120; 94; 121] = None.
Proof. vm_compute. repeat split. Qed.

(* a\db : backslash is not escaped, so backslash-d is the digit class and the pattern matches a5b *)
Example backslash_d_is_class :
  compile_pattern_re [97; 92; 100; 98] = Some (Cat (chr_re 97) (Cat digit_re (Cat (chr_re 98) Eps)))
  /\ search_span (Cat (chr_re 97) (Cat digit_re (Cat (chr_re 98) Eps))) [97; 53; 98] = Some (0%nat, 3%nat, [97; 53; 98])
  /\ search_span (Cat (chr_re 97) (Cat digit_re (Cat (chr_re 98) Eps))) [97; 92; 100; 98] = None.
Proof. vm_compute. repeat split. Qed.

Print Assumptions repo_escape_table_shape.
Print Assumptions repo_escapes_cover_metachars.
Print Assumptions escape_is_charwise.
Print Assumptions no_part_in_plain.
Print Assumptions plain_compiles_to_itself_escaped.
Print Assumptions plain_compiles_to_literal.
Print Assumptions plain_compile_pattern_re.
Print Assumptions first_match_lit.
Print Assumptions search_span_lit.
Print Assumptions literal_search_iff_contains.
Print Assumptions pipe_is_literal.
Print Assumptions caret_mid_is_anchor.
Print Assumptions backslash_d_is_class.
