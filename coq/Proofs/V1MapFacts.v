(* The legacy engine's table version_pattern -> replacement of {pep440_version}
   (v1patterns._normalized_pattern, extracted by T1 as V1_PEP440_MAPPING) is the systematic PEP 440
   conversion of each version pattern: no v prefix, {build} written as .{BID} (no leading zeros),
   {release} written as {pep440_tag}; {pycalver} and {semver} map to their own PEP 440 composites. *)
From Coq Require Import List Bool NArith Strings.String.
From BV Require Import Lib.PyStr Lib.StrLit Gen.Tables.
Import ListNotations.
Local Open Scope string_scope.

Definition v1_pep440_of (vp : list N) : list N :=
  if eqb_str vp (lit "{pycalver}") then lit "{pep440_pycalver}"
  else if eqb_str vp (lit "{semver}") then lit "{semver}"
  else
    let body := match vp with 118%N :: t => t | _ => vp end in
    sreplace (lit "{release}") (lit "{pep440_tag}") (sreplace (lit "{build}") (lit ".{BID}") body).

Theorem repo_v1_pep440_mapping_systematic :
  forallb (fun '(vp, repl) => eqb_str (v1_pep440_of vp) repl) V1_PEP440_MAPPING = true
  /\ map fst V1_PEP440_MAPPING = lits ["{pycalver}"; "{semver}"; "v{year}{month}{build}{release}"; "{year}{month}{build}{release}";
                                         "v{year}{build}{release}"; "{year}{build}{release}"].
Proof. vm_compute. split; reflexivity. Qed.
