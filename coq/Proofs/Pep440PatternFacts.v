(* C15: the derivation of the pep440 pattern from the version pattern (v2patterns: convert_to_pep440).
   - the generated substitution table is what the repository says;
   - the conversions of the README patterns, evaluated;
   - a leading v never influences the result beyond being dropped;
   - the result always contains PYTAGNUM;
   - the two tag tables are mutually consistent on pep440 tags. *)
From Coq Require Import List Bool NArith Arith Lia.
From BV Require Import Lib.PyStr Gen.Tables Model.V2.
Import ListNotations.
Local Open Scope N_scope.

(* 0W->WW 0U->UU 0V->VV 0M->MM 0D->DD 00J->JJJ BUILD->BLD TAG->PYTAG *)
Theorem repo_pep440_substitutions :
  PEP440_PART_SUBSTITUTIONS =
  [ ([48;87], [87;87]); ([48;85], [85;85]); ([48;86], [86;86]); ([48;77], [77;77]); ([48;68], [68;68]);
    ([48;48;74], [74;74;74]); ([66;85;73;76;68], [66;76;68]); ([84;65;71], [80;89;84;65;71]) ].
Proof. reflexivity. Qed.

(* README patterns and their pep440 forms:
     vYYYY0M.BUILD[-TAG]            ->  YYYY0M.BLD[PYTAGNUM]
     YYYY.BUILD[-TAG]               ->  YYYY.BLD[PYTAGNUM]
     vYYYY.0M.0D                    ->  YYYY.MM.DD[PYTAGNUM]
     MAJOR.MINOR.PATCH[-TAG[NUM]]   ->  MAJOR.MINOR.PATCH[][PYTAGNUM]     (the stray brackets are what the code produces:
                                                                           only one pass removes empty bracket pairs)
     vMAJOR.MINOR.PATCH[PYTAGNUM]   ->  MAJOR.MINOR.PATCH[PYTAGNUM]
     YYYY.0W.PATCH[-TAGNUM]         ->  YYYY.WW.PATCH[PYTAGNUM]
     vYY.0M.BUILD                   ->  YY.MM.BLD[PYTAGNUM] *)
Theorem readme_conversions :
  map convert_to_pep440
    [ [118;89;89;89;89;48;77;46;66;85;73;76;68;91;45;84;65;71;93];
      [89;89;89;89;46;66;85;73;76;68;91;45;84;65;71;93];
      [118;89;89;89;89;46;48;77;46;48;68];
      [77;65;74;79;82;46;77;73;78;79;82;46;80;65;84;67;72;91;45;84;65;71;91;78;85;77;93;93];
      [118;77;65;74;79;82;46;77;73;78;79;82;46;80;65;84;67;72;91;80;89;84;65;71;78;85;77;93];
      [89;89;89;89;46;48;87;46;80;65;84;67;72;91;45;84;65;71;78;85;77;93];
      [118;89;89;46;48;77;46;66;85;73;76;68] ]
  = [ [89;89;89;89;48;77;46;66;76;68;91;80;89;84;65;71;78;85;77;93];
      [89;89;89;89;46;66;76;68;91;80;89;84;65;71;78;85;77;93];
      [89;89;89;89;46;77;77;46;68;68;91;80;89;84;65;71;78;85;77;93];
      [77;65;74;79;82;46;77;73;78;79;82;46;80;65;84;67;72;91;93;91;80;89;84;65;71;78;85;77;93];
      [77;65;74;79;82;46;77;73;78;79;82;46;80;65;84;67;72;91;80;89;84;65;71;78;85;77;93];
      [89;89;89;89;46;87;87;46;80;65;84;67;72;91;80;89;84;65;71;78;85;77;93];
      [89;89;46;77;77;46;66;76;68;91;80;89;84;65;71;78;85;77;93] ].
Proof. vm_compute. reflexivity. Qed.

(* ------------------------------------------------------------------ the three stages of convert_to_pep440 *)
Definition strip_v (s : list N) : list N := match s with 118 :: t => t | _ => s end.

(* the pass over the part names; [vp] is the ORIGINAL pattern (the one the `in` tests look at) *)
Definition pep440_names_pass (vp p3 : list N) : list N :=
  fold_left
    (fun pp name =>
       if negb (str_in name vp) then pp else
       match assoc name PEP440_PART_SUBSTITUTIONS with
       | None => pp
       | Some sub =>
           if str_in sub pp then pp else
           if negb (eqb_str name s_TAG || eqb_str name s_PYTAG) then
             match sfind name pp with
             | Some O => sreplace name sub pp
             | Some (S i) => if N.eqb (nth i pp 0) 46 then sreplace name sub pp else pp
             | None =>
                 if N.eqb (nth (length pp - 2) pp 0) 46 && Nat.leb 2 (length pp) then sreplace name sub pp else pp
             end
           else sreplace name sub pp
       end)
    (sort_by_len_desc (fun x => length x) (map fst PATTERN_PART_FIELDS)) p3.

Definition pep440_finish (p4 : list N) : list N :=
  if str_in s_PYTAGNUM p4 then p4 else
    sreplace [91; 93] [] (sreplace s_NUM [] (sreplace s_PYTAG [] p4)) ++ [91] ++ s_PYTAGNUM ++ [93].

Lemma convert_stages vp :
  convert_to_pep440 vp =
  pep440_finish (pep440_names_pass vp (filter pep440_keep (sreplace [92; 93] [] (sreplace [92; 91] [] (strip_v vp))))).
Proof. unfold convert_to_pep440, pep440_finish, pep440_names_pass, strip_v. cbv zeta. reflexivity. Qed.

(* ------------------------------------------------------------------ a leading v *)
Lemma strip_v_cons_ne c t : c <> 118 -> strip_v (c :: t) = c :: t.
Proof.
  intros H. unfold strip_v. destruct c as [|p]; [reflexivity|].
  do 7 (try (destruct p as [p|p|]; try reflexivity)).
  exfalso. apply H. reflexivity.
Qed.
Lemma strip_v_no_v p : prefixb [118] p = false -> strip_v p = p.
Proof.
  destruct p as [|c t]; [reflexivity|]. cbn [prefixb]. rewrite andb_true_r. intros H.
  apply strip_v_cons_ne. intros ->. discriminate H.
Qed.

Lemma sfind_eq n s :
  sfind n s = if prefixb n s then Some O
              else match s with [] => None | _ :: t => match sfind n t with Some i => Some (S i) | None => None end end.
Proof. destruct s; reflexivity. Qed.

(* a needle that does not start with d is found in d :: p exactly when it is found in p *)
Lemma str_in_cons_ne c n d p : (c =? d) = false -> str_in (c :: n) (d :: p) = str_in (c :: n) p.
Proof.
  intros H. unfold str_in. rewrite (sfind_eq (c :: n) (d :: p)). cbn [prefixb]. rewrite H. cbn [andb].
  destruct (sfind (c :: n) p); reflexivity.
Qed.

Lemma fold_left_ext_in {A B} (f g : A -> B -> A) l :
  (forall a x, In x l -> f a x = g a x) -> forall a, fold_left f l a = fold_left g l a.
Proof.
  induction l as [|b l IH]; intros H a; cbn [fold_left]; [reflexivity|].
  rewrite H by (left; reflexivity). apply IH. intros a' x Hx. apply H. right. exact Hx.
Qed.

(* no part name starts with a lower-case v (they are made of upper-case letters and digits) *)
Lemma repo_part_names_not_v :
  forallb (fun n => match n with c :: _ => negb (c =? 118) | [] => false end)
          (sort_by_len_desc (fun x => length x) (map fst PATTERN_PART_FIELDS)) = true.
Proof. vm_compute. reflexivity. Qed.

Lemma names_pass_drops_v p p3 : pep440_names_pass (118 :: p) p3 = pep440_names_pass p p3.
Proof.
  unfold pep440_names_pass. apply fold_left_ext_in. intros pp name Hin.
  pose proof repo_part_names_not_v as Hn. rewrite forallb_forall in Hn. specialize (Hn name Hin).
  destruct name as [|c n]; [discriminate Hn|]. apply negb_true_iff in Hn.
  rewrite (str_in_cons_ne c n 118 p Hn). reflexivity.
Qed.

(* The `name in version_pattern` tests look at the pattern including its leading v, but no part name
   contains one, so the v is simply dropped.  (For a pattern starting with vv only the first v is dropped
   before, and the second one after: vvYYYY converts to vYYYY[PYTAGNUM] but vYYYY converts to YYYY[PYTAGNUM],
   hence the side condition.) *)
Theorem convert_drops_v_prefix : forall p, prefixb [118] p = false ->
  convert_to_pep440 (118 :: p) = convert_to_pep440 p.
Proof.
  intros p H. rewrite !convert_stages. change (strip_v (118 :: p)) with p.
  rewrite (strip_v_no_v p H), names_pass_drops_v. reflexivity.
Qed.

Example convert_vv_counterexample :
  convert_to_pep440 [118; 118; 89; 89; 89; 89] = [118; 89; 89; 89; 89; 91; 80; 89; 84; 65; 71; 78; 85; 77; 93]
  /\ convert_to_pep440 [118; 89; 89; 89; 89] = [89; 89; 89; 89; 91; 80; 89; 84; 65; 71; 78; 85; 77; 93].
Proof. vm_compute. split; reflexivity. Qed.

(* ------------------------------------------------------------------ PYTAGNUM is always there *)
Lemma prefixb_app x b : prefixb x (x ++ b) = true.
Proof. induction x as [|c x IH]; [reflexivity|]. cbn [app prefixb]. rewrite N.eqb_refl. exact IH. Qed.

Lemma str_in_mid x a b : str_in x (a ++ x ++ b) = true.
Proof.
  unfold str_in. induction a as [|c a IH].
  - cbn [app]. rewrite sfind_eq, prefixb_app. reflexivity.
  - cbn [app]. rewrite sfind_eq. destruct (prefixb x (c :: a ++ x ++ b)); [reflexivity|].
    destruct (sfind x (a ++ x ++ b)); [reflexivity|discriminate IH].
Qed.

Lemma pep440_finish_has_pytagnum q : str_in s_PYTAGNUM (pep440_finish q) = true.
Proof.
  unfold pep440_finish. destruct (str_in s_PYTAGNUM q) eqn:E; [exact E|].
  set (q3 := sreplace [91; 93] [] (sreplace s_NUM [] (sreplace s_PYTAG [] q))).
  change (q3 ++ [91] ++ s_PYTAGNUM ++ [93]) with (q3 ++ [91] ++ (s_PYTAGNUM ++ [93])).
  rewrite app_assoc. apply str_in_mid.
Qed.

Theorem convert_ends_with_pytagnum : forall p, str_in s_PYTAGNUM (convert_to_pep440 p) = true.
Proof. intros p. rewrite convert_stages. apply pep440_finish_has_pytagnum. Qed.

(* when PYTAGNUM was not already there, the result literally ends with [PYTAGNUM] *)
Theorem convert_appends_pytagnum : forall p,
  let p4 := pep440_names_pass p (filter pep440_keep (sreplace [92; 93] [] (sreplace [92; 91] [] (strip_v p)))) in
  str_in s_PYTAGNUM p4 = false ->
  exists q, convert_to_pep440 p = q ++ [91] ++ s_PYTAGNUM ++ [93].
Proof.
  intros p p4 H. rewrite convert_stages. fold p4. unfold pep440_finish. rewrite H.
  eexists. reflexivity.
Qed.

(* ------------------------------------------------------------------ the tag tables *)
(* tag -> pytag -> tag -> pytag is stable *)
Theorem pytag_tables_inverse :
  forallb (fun '(tag, pytag) =>
             match assoc pytag TAG_BY_PEP440_TAG with
             | Some t => match assoc t PEP440_TAG_BY_TAG with Some p => eqb_str p pytag | None => false end
             | None => false
             end) PEP440_TAG_BY_TAG = true.
Proof. vm_compute. reflexivity. Qed.

Print Assumptions repo_pep440_substitutions.
Print Assumptions readme_conversions.
Print Assumptions convert_drops_v_prefix.
Print Assumptions convert_vv_counterexample.
Print Assumptions convert_ends_with_pytagnum.
Print Assumptions convert_appends_pytagnum.
Print Assumptions pytag_tables_inverse.
