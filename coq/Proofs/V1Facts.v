(* The legacy engine (Model/V1.v) on its two standard patterns {semver} and {pycalver}:
   the compiled regexes are fixed by computation over the GENERATED tables of Gen/Tables.v, and on
   these explicit regex trees the rendered text of a version is accepted in full and reads back
   with the same parts.  Numbers (MAJOR MINOR PATCH, the build id) are unbounded and go through the
   digit lemmas of Proofs/RegexFacts.v; the month goes through twelve computed matches lifted by
   the bounded-width locality theorem; the year is any four digit number. *)
From Coq Require Import List Bool NArith ZArith Arith Lia.
From BV Require Import Lib.PyStr Lib.Decimal Lib.Types Lib.Regex Lib.RegexParse Lib.Calendar Model.Lexid Model.V2
  Gen.Tables Model.V1 Proofs.DecimalFacts Proofs.RegexFacts Proofs.LexidFacts.
Import ListNotations.

(* ------------------------------------------------------------------ the two patterns and their regexes *)
Definition P_semver : list N := [123;115;101;109;118;101;114;125]%N.                   (* {semver} *)
Definition P_pycalver : list N := [123;112;121;99;97;108;118;101;114;125]%N.           (* {pycalver} *)

Definition g_semver : list N := [115;101;109;118;101;114]%N.
Definition g_pycalver : list N := [112;121;99;97;108;118;101;114]%N.
Definition g_MAJOR : list N := [77;65;74;79;82]%N.
Definition g_MINOR : list N := [77;73;78;79;82]%N.
Definition g_PATCH : list N := [80;65;84;67;72]%N.

Definition t_alpha : list N := [97;108;112;104;97]%N.
Definition t_beta : list N := [98;101;116;97]%N.
Definition t_dev : list N := [100;101;118]%N.
Definition t_rc : list N := [114;99]%N.
Definition t_post : list N := [112;111;115;116]%N.

(* \d+ as parsed from the table text *)
Definition num_re : re := Cat (plus_re digit_re) Eps.
Definition R_semver_body : re :=
  Cat (Grp g_MAJOR num_re) (Cat (chr_re 46) (Cat (Grp g_MINOR num_re) (Cat (chr_re 46) (Cat (Grp g_PATCH num_re) Eps)))).
Definition R_semver : re := Cat (Grp g_semver R_semver_body) Eps.

(* \d{4} ; (?:0[0-9]|1[0-2]) ; \d{4,} ; (?:alpha|beta|dev|rc|post|final) ; (?:-(?P<tag>...))? *)
Definition R_year : re := Cat (rep_re 4 digit_re) Eps.
Definition R_month : re :=
  Alt (Cat (chr_re 48) (Cat digit_re Eps)) (Cat (chr_re 49) (Cat (Cls false [(48, 50)]%N) Eps)).
Definition R_bid : re := Cat (Cat (rep_re 4 digit_re) (Star digit_re)) Eps.
Definition R_tagalt : re :=
  Alt (lit t_alpha) (Alt (lit t_beta) (Alt (lit t_dev) (Alt (lit t_rc) (Alt (lit t_post) (lit s_final))))).
Definition R_tag : re := Grp n_tag (Cat R_tagalt Eps).
Definition R_release : re := Alt (Cat (chr_re 45) (Cat R_tag Eps)) Eps.
Definition R_monthg : re := Grp n_month (Cat R_month Eps).
Definition R_pycalver_body : re :=
  Cat (chr_re 118) (Cat (Grp n1_year R_year) (Cat R_monthg (Cat (chr_re 46) (Cat (Grp n_bid R_bid) (Cat R_release Eps))))).
Definition R_pycalver : re := Cat (Grp g_pycalver R_pycalver_body) Eps.

(* the compiled regexes, fixed by computation over the generated tables *)
Lemma semver_regex : v1_compile_re (v1_normalize P_semver P_semver) = Some R_semver.
Proof. vm_compute. reflexivity. Qed.
Lemma pycalver_regex : v1_compile_re (v1_normalize P_pycalver P_pycalver) = Some R_pycalver.
Proof. vm_compute. reflexivity. Qed.

(* ------------------------------------------------------------------ small matching lemmas *)
Lemma first_chr f n0 c t : first_match f n0 (chr_re c) (c :: t) = Some ([], t).
Proof. unfold first_match, chr_re. rewrite rems_cls, cls_single. reflexivity. Qed.

Lemma take_consumed_nil (s : list N) : take_consumed s [] = s.
Proof. pose proof (take_consumed_app s []) as H. rewrite app_nil_r in H. exact H. Qed.

Lemma first_grp_app f n0 g r (x tail : list N) e :
  first_match f n0 r (x ++ tail) = Some (e, tail) ->
  first_match f n0 (Grp g r) (x ++ tail) = Some ((g, x) :: e, tail).
Proof.
  intros H. pose proof (first_grp f n0 g r (x ++ tail) e tail H) as HG.
  rewrite take_consumed_app in HG. exact HG.
Qed.

Lemma first_num_grp f n0 g ds tail :
  all_digits ds = true -> ds <> [] -> nodigit_head tail = true -> (length ds <= f)%nat ->
  first_match f n0 (Grp g num_re) (ds ++ tail) = Some ([(g, ds)], tail).
Proof.
  intros Hd Hne Ht Hf. apply first_grp_app. apply first_cat_eps. apply first_plus_digits; assumption.
Qed.

(* \d{k} on k digits *)
Lemma first_rep_digits : forall ds tail f n0, all_digits ds = true ->
  first_match f n0 (rep_re (length ds) digit_re) (ds ++ tail) = Some ([], tail).
Proof.
  induction ds as [|d ds IH]; intros tail f n0 Hd; cbn [length rep_re app].
  - apply first_eps.
  - apply all_digits_cons in Hd. destruct Hd as [Hd Hds].
    eapply first_cat0; [|apply IH; exact Hds].
    apply first_digit. apply is_digit_bounds. exact Hd.
Qed.

(* ------------------------------------------------------------------ SemVer: matching *)
Definition semver_text (a b c : list N) : list N := a ++ 46%N :: b ++ 46%N :: c.

Lemma semver_text_app a b c tail : semver_text a b c ++ tail = a ++ 46%N :: b ++ 46%N :: c ++ tail.
Proof. unfold semver_text. rewrite <- app_assoc. cbn [app]. rewrite <- app_assoc. reflexivity. Qed.

Definition semver_env (a b c : list N) : env :=
  [(g_semver, semver_text a b c); (g_MAJOR, a); (g_MINOR, b); (g_PATCH, c)].

Lemma semver_match a b c tail f n0 :
  all_digits a = true -> a <> [] -> all_digits b = true -> b <> [] -> all_digits c = true -> c <> [] ->
  nodigit_head tail = true -> (length (semver_text a b c ++ tail) <= f)%nat ->
  first_match f n0 R_semver (semver_text a b c ++ tail) = Some (semver_env a b c, tail).
Proof.
  intros Ha Hae Hb Hbe Hc Hce Ht Hf.
  assert (Hlen : (length a <= f /\ length b <= f /\ length c <= f)%nat).
  { rewrite semver_text_app in Hf. rewrite !app_length in Hf. cbn [length] in Hf.
    rewrite !app_length in Hf. cbn [length] in Hf. rewrite !app_length in Hf. lia. }
  destruct Hlen as [La [Lb Lc]].
  pose proof (first_num_grp f n0 g_PATCH c tail Hc Hce Ht Lc) as H5.
  pose proof (first_cat_eps _ _ _ _ _ _ H5) as H5'.
  pose proof (first_cat _ _ _ _ _ _ _ _ _ (first_chr f n0 46%N (c ++ tail)) H5') as H4.
  pose proof (first_num_grp f n0 g_MINOR b (46%N :: c ++ tail) Hb Hbe eq_refl Lb) as H3.
  pose proof (first_cat _ _ _ _ _ _ _ _ _ H3 H4) as H3'.
  pose proof (first_cat _ _ _ _ _ _ _ _ _ (first_chr f n0 46%N (b ++ 46%N :: c ++ tail)) H3') as H2.
  pose proof (first_num_grp f n0 g_MAJOR a (46%N :: b ++ 46%N :: c ++ tail) Ha Hae eq_refl La) as H1.
  pose proof (first_cat _ _ _ _ _ _ _ _ _ H1 H2) as H0.
  rewrite <- semver_text_app in H0.
  apply first_cat_eps. unfold semver_env. apply first_grp_app. exact H0.
Qed.

(* groupdict, field values and field parsing on the captures, by computation with symbolic texts *)
Lemma semver_fields whole a b c :
  bind (v1_field_values (groupdict R_semver [(g_semver, whole); (g_MAJOR, a); (g_MINOR, b); (g_PATCH, c)])) v1_parse_fields
  = POk (mkv1 None None None None None None None (zundec a) (zundec b) (zundec c) [48;48;48;49]%N s_final).
Proof. vm_compute. reflexivity. Qed.

Definition semver_info (a b c : list N) : v1info :=
  mkv1 None None None None None None None (zundec a) (zundec b) (zundec c) [48;48;48;49]%N s_final.

(* three non-empty digit strings: accepted exactly when nothing follows *)
Lemma semver_parse_gen a b c tail :
  all_digits a = true -> a <> [] -> all_digits b = true -> b <> [] -> all_digits c = true -> c <> [] ->
  nodigit_head tail = true ->
  v1_parse_version_info (semver_text a b c ++ tail) P_semver =
  match tail with [] => POk (semver_info a b c) | _ :: _ => PErr end.
Proof.
  intros Ha Hae Hb Hbe Hc Hce Ht.
  unfold v1_parse_version_info. rewrite semver_regex. cbv beta iota.
  unfold re_match.
  rewrite (semver_match a b c tail _ _ Ha Hae Hb Hbe Hc Hce Ht (Nat.le_succ_diag_r _)).
  cbv beta iota. destruct tail as [|x t]; [|reflexivity].
  unfold semver_env. apply semver_fields.
Qed.

(* ------------------------------------------------------------------ SemVer: theorems *)
Lemma zundec_dec n : zundec (dec n) = Z.of_N n.
Proof. unfold zundec. rewrite undec_dec. reflexivity. Qed.

Theorem v1_semver_roundtrip : forall ma mi pa : N,
  let s := dec ma ++ [46%N] ++ dec mi ++ [46%N] ++ dec pa in
  exists v, v1_parse_version_info s P_semver = POk v /\
    w_major v = Z.of_N ma /\ w_minor v = Z.of_N mi /\ w_patch v = Z.of_N pa /\ w_tag v = s_final.
Proof.
  intros ma mi pa s. exists (semver_info (dec ma) (dec mi) (dec pa)).
  split.
  - pose proof (semver_parse_gen (dec ma) (dec mi) (dec pa) []
      (dec_all_digits ma) (dec_nonempty ma) (dec_all_digits mi) (dec_nonempty mi)
      (dec_all_digits pa) (dec_nonempty pa) eq_refl) as H.
    rewrite app_nil_r in H. exact H.
  - unfold semver_info. cbn [w_major w_minor w_patch w_tag]. rewrite !zundec_dec. repeat split.
Qed.

(* the whole record that is read back *)
Theorem v1_semver_parse_exact : forall ma mi pa : N,
  v1_parse_version_info (dec ma ++ [46%N] ++ dec mi ++ [46%N] ++ dec pa) P_semver =
  POk (mkv1 None None None None None None None (Z.of_N ma) (Z.of_N mi) (Z.of_N pa) [48;48;48;49]%N s_final).
Proof.
  intros ma mi pa.
  pose proof (semver_parse_gen (dec ma) (dec mi) (dec pa) []
    (dec_all_digits ma) (dec_nonempty ma) (dec_all_digits mi) (dec_nonempty mi)
    (dec_all_digits pa) (dec_nonempty pa) eq_refl) as H.
  rewrite app_nil_r in H. unfold semver_info in H. rewrite !zundec_dec in H. exact H.
Qed.

(* full-length match (fix 218096d): anything after the PATCH digits that is not a digit is an error.
   A further digit would simply belong to PATCH. *)
Theorem v1_semver_rejects_suffix : forall (ma mi pa : N) (c : N) (t : list N), is_digit c = false ->
  v1_parse_version_info (dec ma ++ [46%N] ++ dec mi ++ [46%N] ++ dec pa ++ c :: t) P_semver = PErr.
Proof.
  intros ma mi pa c t Hc.
  pose proof (semver_parse_gen (dec ma) (dec mi) (dec pa) (c :: t)
    (dec_all_digits ma) (dec_nonempty ma) (dec_all_digits mi) (dec_nonempty mi)
    (dec_all_digits pa) (dec_nonempty pa)) as H.
  rewrite semver_text_app in H. apply H. cbn [nodigit_head]. rewrite Hc. reflexivity.
Qed.

(* the same for arbitrary non-empty digit strings (leading zeros are accepted and read as numbers) *)
Theorem v1_semver_parse_digits : forall a b c : list N,
  all_digits a = true -> a <> [] -> all_digits b = true -> b <> [] -> all_digits c = true -> c <> [] ->
  v1_parse_version_info (a ++ [46%N] ++ b ++ [46%N] ++ c) P_semver =
  POk (mkv1 None None None None None None None (zundec a) (zundec b) (zundec c) [48;48;48;49]%N s_final).
Proof.
  intros a b c Ha Hae Hb Hbe Hc Hce.
  pose proof (semver_parse_gen a b c [] Ha Hae Hb Hbe Hc Hce eq_refl) as H.
  rewrite app_nil_r in H. exact H.
Qed.

(* ------------------------------------------------------------------ SemVer: rendering *)
Lemma eqb_str_true : forall a b, eqb_str a b = true -> a = b.
Proof.
  induction a as [|x a IH]; intros [|y b] H; cbn [eqb_str] in H; try discriminate H; [reflexivity|].
  apply andb_true_iff in H. destruct H as [H1 H2]. apply N.eqb_eq in H1. rewrite H1, (IH b H2). reflexivity.
Qed.
Lemma eqb_str_same : forall a, eqb_str a a = true.
Proof. induction a as [|x a IH]; cbn [eqb_str]; [reflexivity|]. rewrite N.eqb_refl, IH. reflexivity. Qed.

Section Render.
Local Opaque zdec zundec pad lastn zfill.

Lemma semver_render_raw v : has_key (w_tag v) PEP440_TAG_BY_TAG = true ->
  v1_format_version v P_semver = Some (zdec (w_major v) ++ 46%N :: zdec (w_minor v) ++ 46%N :: zdec (w_patch v) ++ []).
Proof.
  destruct v as [y q m d j iw uw ma mi pa bid tag]. intros Ht.
  cbn [w_major w_minor w_patch w_tag] in *.
  unfold v1_format_version.
  cbn [w_year w_quarter w_month w_dom w_doy w_iso_week w_us_week w_major w_minor w_patch w_bid w_tag].
  unfold has_key in Ht.
  destruct (eqb_str tag s_final); destruct (assoc tag PEP440_TAG_BY_TAG) as [pt|]; try discriminate Ht;
    destruct (truthy y); lazy; reflexivity.
Qed.

(* an unknown tag is a KeyError *)
Lemma render_unknown_tag v raw : has_key (w_tag v) PEP440_TAG_BY_TAG = false -> v1_format_version v raw = None.
Proof.
  intros Ht. unfold v1_format_version. unfold has_key in Ht.
  destruct (eqb_str (w_tag v) s_final) eqn:Ef.
  - exfalso. destruct v as [y q m d j iw uw ma mi pa bid tag]. cbn [w_tag] in *.
    apply eqb_str_true in Ef. subst tag.
    vm_compute in Ht. discriminate Ht.
  - destruct (assoc (w_tag v) PEP440_TAG_BY_TAG); [discriminate Ht|reflexivity].
Qed.
End Render.

Theorem v1_semver_render : forall v,
  (0 <= w_major v)%Z -> (0 <= w_minor v)%Z -> (0 <= w_patch v)%Z -> has_key (w_tag v) PEP440_TAG_BY_TAG = true ->
  v1_format_version v P_semver = Some (zdec (w_major v) ++ [46%N] ++ zdec (w_minor v) ++ [46%N] ++ zdec (w_patch v)).
Proof.
  intros v _ _ _ Ht. rewrite (semver_render_raw v Ht), app_nil_r. reflexivity.
Qed.

(* ------------------------------------------------------------------ PyCalVer: the parts *)
(* the year: any four digits *)
Lemma year_match Y tail f n0 : all_digits Y = true -> length Y = 4%nat ->
  first_match f n0 (Grp n1_year R_year) (Y ++ tail) = Some ([(n1_year, Y)], tail).
Proof.
  intros Hd Hl. apply first_grp_app. apply first_cat_eps. rewrite <- Hl. apply first_rep_digits. exact Hd.
Qed.

Lemma dec_year_length y : (1000 <= y <= 9999)%N -> length (dec y) = 4%nat.
Proof.
  intros [Hlo Hhi].
  pose proof (dec_length_le 1000 y Hlo) as H1. rewrite dec_1000_length in H1.
  assert (H2 : (length (dec y) <= 4)%nat) by (apply dec_length_bound; [change (10 ^ N.of_nat 4)%N with 10000%N|]; lia).
  lia.
Qed.

(* the month: twelve computed matches, lifted to any continuation by the bounded-width theorem *)
Lemma month_cases m : (1 <= m <= 12)%N ->
  In m [1;2;3;4;5;6;7;8;9;10;11;12]%N.
Proof.
  intros H. cbn [In].
  assert (m = 1 \/ m = 2 \/ m = 3 \/ m = 4 \/ m = 5 \/ m = 6 \/ m = 7 \/ m = 8 \/ m = 9 \/ m = 10 \/ m = 11 \/ m = 12)%N as H' by lia.
  intuition.
Qed.

Lemma month_match_all :
  forallb (fun m => match re_match R_monthg (pad 2 m) with
                    | Some ([(k, x)], []) => eqb_str k n_month && eqb_str x (pad 2 m) && Nat.eqb (length (pad 2 m)) 2
                    | _ => false
                    end) [1;2;3;4;5;6;7;8;9;10;11;12]%N = true.
Proof. vm_compute. reflexivity. Qed.

Lemma month_match m tail f n0 : (1 <= m <= 12)%N -> (2 + length tail <= f)%nat ->
  first_match f n0 R_monthg (pad 2 m ++ tail) = Some ([(n_month, pad 2 m)], tail).
Proof.
  intros Hm Hf. pose proof month_match_all as HA. rewrite forallb_forall in HA.
  specialize (HA m (month_cases m Hm)).
  destruct (re_match R_monthg (pad 2 m)) as [[e r]|] eqn:E; [|discriminate HA].
  destruct e as [|[k x] [|? ?]]; try discriminate HA. destruct r; [|discriminate HA].
  apply andb_true_iff in HA. destruct HA as [HA Hl]. apply andb_true_iff in HA. destruct HA as [Hk Hx].
  apply eqb_str_true in Hk. apply eqb_str_true in Hx. apply Nat.eqb_eq in Hl. subst k x.
  assert (Hw : maxw R_monthg = Some 2%nat) by (vm_compute; reflexivity).
  pose proof (re_match_lift_width R_monthg 2 (pad 2 m) _ [] tail f n0 eq_refl Hw ltac:(lia) E) as HL.
  cbn [app] in HL. apply HL. rewrite app_length. lia.
Qed.

(* the build id: at least four digits, then every further digit *)
Lemma bid_match bid tail f n0 : all_digits bid = true -> (4 <= length bid)%nat -> nodigit_head tail = true ->
  (length bid <= f)%nat ->
  first_match f n0 (Grp n_bid R_bid) (bid ++ tail) = Some ([(n_bid, bid)], tail).
Proof.
  intros Hd Hl Ht Hf. apply first_grp_app. apply first_cat_eps.
  rewrite <- (firstn_skipn 4 bid) in Hd |- *. apply all_digits_app in Hd. destruct Hd as [H1 H2].
  rewrite <- app_assoc. eapply first_cat0.
  - assert (HL : length (firstn 4 bid) = 4%nat) by (apply firstn_length_le; exact Hl).
    rewrite <- HL at 1. apply first_rep_digits. exact H1.
  - apply first_star_digits; [exact H2|exact Ht|]. rewrite skipn_length. lia.
Qed.

(* the tag: the six alternatives start with six different letters *)
Definition v1_tags : list (list N) := [t_alpha; t_beta; t_dev; t_rc; t_post].

Lemma tag_match tag tail f n0 : In tag (v1_tags ++ [s_final]) ->
  first_match f n0 R_tag (tag ++ tail) = Some ([(n_tag, tag)], tail).
Proof.
  intros Hin. apply first_grp_app. apply first_cat_eps. unfold R_tagalt.
  cbn [In app v1_tags] in Hin.
  repeat (destruct Hin as [<-|Hin];
          [repeat (rewrite first_alt_r by (apply rems_lit_nomatch; cbn [app]; intros E; discriminate E));
           first [apply first_alt_l; apply first_lit | apply first_lit]|]).
  destruct Hin.
Qed.

(* the optional release suffix *)
Definition rel_text (otag : option (list N)) : list N := match otag with Some t => 45%N :: t | None => [] end.
Definition rel_env (otag : option (list N)) : env := match otag with Some t => [(n_tag, t)] | None => [] end.
(* what may follow: after a tag anything, after a bare build id neither a digit nor a hyphen *)
Definition tail_ok (otag : option (list N)) (tail : list N) : Prop :=
  match otag with
  | Some _ => True
  | None => match tail with [] => True | c :: _ => is_digit c = false /\ c <> 45%N end
  end.
Definition otag_ok (otag : option (list N)) : Prop :=
  match otag with Some t => In t (v1_tags ++ [s_final]) | None => True end.

Lemma release_match otag tail f n0 : otag_ok otag -> tail_ok otag tail ->
  first_match f n0 R_release (rel_text otag ++ tail) = Some (rel_env otag, tail).
Proof.
  intros Ho Ht. unfold R_release. destruct otag as [t|]; cbn [rel_text rel_env app otag_ok tail_ok] in *.
  - apply first_alt_l.
    pose proof (first_cat _ _ _ _ _ _ _ _ _ (first_chr f n0 45%N (t ++ tail)) (first_cat_eps _ _ _ _ _ _ (tag_match t tail f n0 Ho))) as H.
    exact H.
  - rewrite first_alt_r; [apply first_eps|].
    apply rems_cat_nil. unfold chr_re. rewrite rems_cls. destruct tail as [|c t]; [reflexivity|].
    destruct Ht as [_ Hc]. rewrite cls_single_ne; [reflexivity|]. intros E. apply Hc. symmetry. exact E.
Qed.

Lemma nodigit_rel otag tail : tail_ok otag tail -> nodigit_head (rel_text otag ++ tail) = true.
Proof.
  destruct otag as [t|]; cbn [rel_text app tail_ok]; [reflexivity|].
  destruct tail as [|c t]; [reflexivity|]. intros [H _]. cbn [nodigit_head]. rewrite H. reflexivity.
Qed.

(* ------------------------------------------------------------------ PyCalVer: matching *)
Definition pycalver_text (Y M bid : list N) (otag : option (list N)) : list N :=
  118%N :: Y ++ M ++ 46%N :: bid ++ rel_text otag.
Lemma pycalver_text_app Y M bid otag tail :
  pycalver_text Y M bid otag ++ tail = 118%N :: Y ++ M ++ 46%N :: bid ++ rel_text otag ++ tail.
Proof.
  unfold pycalver_text. cbn [app]. rewrite <- !app_assoc. cbn [app]. rewrite <- !app_assoc. reflexivity.
Qed.
Definition pycalver_env (Y M bid : list N) (otag : option (list N)) : env :=
  [(g_pycalver, pycalver_text Y M bid otag); (n1_year, Y); (n_month, M); (n_bid, bid)] ++ rel_env otag.

Lemma pycalver_match Y m bid otag tail f n0 :
  all_digits Y = true -> length Y = 4%nat -> (1 <= m <= 12)%N ->
  all_digits bid = true -> (4 <= length bid)%nat -> otag_ok otag -> tail_ok otag tail ->
  (length (pycalver_text Y (pad 2 m) bid otag ++ tail) <= f)%nat ->
  first_match f n0 R_pycalver (pycalver_text Y (pad 2 m) bid otag ++ tail) = Some (pycalver_env Y (pad 2 m) bid otag, tail).
Proof.
  intros HY HYl Hm Hb Hbl Ho Ht Hf.
  assert (Hlen : (length bid <= f /\ 2 + length (46%N :: bid ++ rel_text otag ++ tail) <= f)%nat).
  { rewrite pycalver_text_app in Hf. cbn [length] in *. rewrite !app_length in *. cbn [length] in *.
    rewrite !app_length in *. lia. }
  destruct Hlen as [Lb Lm].
  pose proof (first_cat_eps _ _ _ _ _ _ (release_match otag tail f n0 Ho Ht)) as H6.
  pose proof (first_cat _ _ _ _ _ _ _ _ _ (bid_match bid (rel_text otag ++ tail) f n0 Hb Hbl (nodigit_rel otag tail Ht) Lb) H6) as H5.
  pose proof (first_cat _ _ _ _ _ _ _ _ _ (first_chr f n0 46%N (bid ++ rel_text otag ++ tail)) H5) as H4.
  pose proof (first_cat _ _ _ _ _ _ _ _ _ (month_match m (46%N :: bid ++ rel_text otag ++ tail) f n0 Hm Lm) H4) as H3.
  pose proof (first_cat _ _ _ _ _ _ _ _ _ (year_match Y (pad 2 m ++ 46%N :: bid ++ rel_text otag ++ tail) f n0 HY HYl) H3) as H2.
  pose proof (first_cat _ _ _ _ _ _ _ _ _ (first_chr f n0 118%N (Y ++ pad 2 m ++ 46%N :: bid ++ rel_text otag ++ tail)) H2) as H1.
  rewrite <- pycalver_text_app in H1.
  apply first_cat_eps. unfold pycalver_env. apply first_grp_app. exact H1.
Qed.

Lemma pycalver_field_values whole Y M bid otag :
  v1_field_values (groupdict R_pycalver ([(g_pycalver, whole); (n1_year, Y); (n_month, M); (n_bid, bid)] ++ rel_env otag))
  = POk [(n1_year, Some Y); (n_month, Some M); (n_tag, otag); (n_bid, Some bid)].
Proof. destruct otag; vm_compute; reflexivity. Qed.

Definition tag_of (otag : option (list N)) : list N := match otag with Some t => t | None => s_final end.

Section Fields.
Local Opaque zundec Z.ltb Z.eqb quarter_from_month ord_from_doy ord_of_ymd cal_of.
Lemma pycalver_parse_fields Y M bid otag :
  (zundec Y <? 100)%Z = false -> (zundec Y =? 0)%Z = false -> (zundec M =? 0)%Z = false -> otag_ok otag ->
  v1_parse_fields [(n1_year, Some Y); (n_month, Some M); (n_tag, otag); (n_bid, Some bid)] =
  POk (mkv1 (Some (zundec Y)) (Some (quarter_from_month (zundec M))) (Some (zundec M)) None None None None 0 0 0 bid (tag_of otag)).
Proof.
  intros H1 H2 H3 Ho.
  destruct otag as [t|]; cbn [otag_ok v1_tags app In] in Ho.
  - repeat (destruct Ho as [<-|Ho]; [lazy; rewrite H1; lazy; rewrite H2; lazy; rewrite H3; lazy; reflexivity|]). destruct Ho.
  - lazy. rewrite H1. lazy. rewrite H2. lazy. rewrite H3. lazy. reflexivity.
Qed.
End Fields.

Definition pycalver_info (y m : N) (bid : list N) (otag : option (list N)) : v1info :=
  mkv1 (Some (Z.of_N y)) (Some (quarter_from_month (Z.of_N m))) (Some (Z.of_N m)) None None None None 0 0 0 bid (tag_of otag).

Lemma pycalver_parse_gen (y m : N) bid otag tail :
  (1000 <= y <= 9999)%N -> (1 <= m <= 12)%N -> all_digits bid = true -> (4 <= length bid)%nat ->
  otag_ok otag -> tail_ok otag tail ->
  v1_parse_version_info (pycalver_text (dec y) (pad 2 m) bid otag ++ tail) P_pycalver =
  match tail with [] => POk (pycalver_info y m bid otag) | _ :: _ => PErr end.
Proof.
  intros Hy Hm Hb Hbl Ho Ht.
  unfold v1_parse_version_info. rewrite pycalver_regex. cbv beta iota.
  unfold re_match.
  rewrite (pycalver_match (dec y) m bid otag tail _ _ (dec_all_digits y) (dec_year_length y Hy) Hm Hb Hbl Ho Ht
             (Nat.le_succ_diag_r _)).
  cbv beta iota. destruct tail as [|x t]; [|reflexivity].
  unfold pycalver_env. rewrite pycalver_field_values. cbn [bind].
  rewrite pycalver_parse_fields.
  - unfold pycalver_info. unfold zundec. rewrite undec_dec, undec_pad. reflexivity.
  - unfold zundec. rewrite undec_dec. apply Z.ltb_ge. lia.
  - unfold zundec. rewrite undec_dec. apply Z.eqb_neq. lia.
  - unfold zundec. rewrite undec_pad. apply Z.eqb_neq. lia.
  - exact Ho.
Qed.

(* ------------------------------------------------------------------ PyCalVer: reading *)
(* vYYYYMM.BID-TAG for every year 1000..9999, month 1..12, build id of at least four digits, tag *)
Theorem v1_pycalver_roundtrip : forall (y m : N) (bid tag : list N),
  (1000 <= y <= 9999)%N -> (1 <= m <= 12)%N -> all_digits bid = true -> (4 <= length bid)%nat ->
  In tag v1_tags ->
  let s := [118%N] ++ dec y ++ pad 2 m ++ [46%N] ++ bid ++ [45%N] ++ tag in
  exists v, v1_parse_version_info s P_pycalver = POk v /\
    w_year v = Some (Z.of_N y) /\ w_month v = Some (Z.of_N m) /\ w_bid v = bid /\ w_tag v = tag.
Proof.
  intros y m bid tag Hy Hm Hb Hbl Ht s. exists (pycalver_info y m bid (Some tag)). split; [|repeat split].
  pose proof (pycalver_parse_gen y m bid (Some tag) [] Hy Hm Hb Hbl) as H.
  rewrite app_nil_r in H. apply H; [|exact I]. cbn [otag_ok]. apply in_or_app. left. exact Ht.
Qed.

(* the final release: no suffix, and the tag reads as final *)
Theorem v1_pycalver_roundtrip_final : forall (y m : N) (bid : list N),
  (1000 <= y <= 9999)%N -> (1 <= m <= 12)%N -> all_digits bid = true -> (4 <= length bid)%nat ->
  let s := [118%N] ++ dec y ++ pad 2 m ++ [46%N] ++ bid in
  exists v, v1_parse_version_info s P_pycalver = POk v /\
    w_year v = Some (Z.of_N y) /\ w_month v = Some (Z.of_N m) /\ w_bid v = bid /\ w_tag v = s_final.
Proof.
  intros y m bid Hy Hm Hb Hbl s. exists (pycalver_info y m bid None). split; [|repeat split].
  pose proof (pycalver_parse_gen y m bid None [] Hy Hm Hb Hbl I I) as H.
  rewrite app_nil_r in H. unfold pycalver_text in H. cbn [rel_text] in H. rewrite app_nil_r in H. exact H.
Qed.

(* the whole record: quarter derived from the month, no day, SemVer numbers zero *)
Theorem v1_pycalver_parse_exact : forall (y m : N) (bid : list N) (otag : option (list N)),
  (1000 <= y <= 9999)%N -> (1 <= m <= 12)%N -> all_digits bid = true -> (4 <= length bid)%nat ->
  match otag with Some t => In t (v1_tags ++ [s_final]) | None => True end ->
  v1_parse_version_info ([118%N] ++ dec y ++ pad 2 m ++ [46%N] ++ bid ++ match otag with Some t => [45%N] ++ t | None => [] end) P_pycalver
  = POk (mkv1 (Some (Z.of_N y)) (Some (quarter_from_month (Z.of_N m))) (Some (Z.of_N m)) None None None None 0 0 0 bid
              (match otag with Some t => t | None => s_final end)).
Proof.
  intros y m bid otag Hy Hm Hb Hbl Ho.
  assert (Ht : tail_ok otag []) by (destruct otag; exact I).
  pose proof (pycalver_parse_gen y m bid otag [] Hy Hm Hb Hbl Ho Ht) as H.
  rewrite app_nil_r in H. destruct otag; exact H.
Qed.

(* full-length match: after a tag nothing may follow; after a bare build id nothing but a further
   digit (which would belong to the build id) or a hyphen (which would open the release suffix) *)
Theorem v1_pycalver_rejects_suffix : forall (y m : N) (bid tag : list N) (c : N) (t : list N),
  (1000 <= y <= 9999)%N -> (1 <= m <= 12)%N -> all_digits bid = true -> (4 <= length bid)%nat ->
  In tag v1_tags ->
  v1_parse_version_info ([118%N] ++ dec y ++ pad 2 m ++ [46%N] ++ bid ++ [45%N] ++ tag ++ c :: t) P_pycalver = PErr.
Proof.
  intros y m bid tag c t Hy Hm Hb Hbl Ht.
  pose proof (pycalver_parse_gen y m bid (Some tag) (c :: t) Hy Hm Hb Hbl) as H.
  rewrite pycalver_text_app in H. apply H; [|exact I]. cbn [otag_ok]. apply in_or_app. left. exact Ht.
Qed.
Theorem v1_pycalver_rejects_suffix_final : forall (y m : N) (bid : list N) (c : N) (t : list N),
  (1000 <= y <= 9999)%N -> (1 <= m <= 12)%N -> all_digits bid = true -> (4 <= length bid)%nat ->
  is_digit c = false -> c <> 45%N ->
  v1_parse_version_info ([118%N] ++ dec y ++ pad 2 m ++ [46%N] ++ bid ++ c :: t) P_pycalver = PErr.
Proof.
  intros y m bid c t Hy Hm Hb Hbl Hc Hc'.
  pose proof (pycalver_parse_gen y m bid None (c :: t) Hy Hm Hb Hbl I) as H.
  rewrite pycalver_text_app in H. apply H. cbn [tail_ok]. split; assumption.
Qed.

(* ------------------------------------------------------------------ PyCalVer: rendering *)
Section Render2.
Local Opaque zdec zundec pad lastn zfill Z.to_N.
Lemma pycalver_render_raw v y m :
  w_year v = Some y -> w_month v = Some m -> has_key (w_tag v) PEP440_TAG_BY_TAG = true ->
  v1_format_version v P_pycalver =
  Some (118%N :: zdec y ++ pad 2 (Z.to_N m) ++ 46%N :: w_bid v ++
        (if eqb_str (w_tag v) s_final then [] else 45%N :: w_tag v) ++ []).
Proof.
  destruct v as [y0 q m0 d j iw uw ma mi pa bid tag]. intros Hy Hm Ht.
  cbn [w_year w_month w_tag w_bid] in *. subst y0 m0.
  unfold v1_format_version.
  cbn [w_year w_quarter w_month w_dom w_doy w_iso_week w_us_week w_major w_minor w_patch w_bid w_tag].
  unfold has_key in Ht.
  destruct (eqb_str tag s_final); destruct (assoc tag PEP440_TAG_BY_TAG) as [pt|]; try discriminate Ht;
    destruct (truthy (Some y)); lazy; reflexivity.
Qed.

(* a version without a month cannot be rendered: format of None with :02 is a TypeError *)
Lemma pycalver_render_no_month v : w_month v = None -> v1_format_version v P_pycalver = None.
Proof.
  destruct v as [y0 q m0 d j iw uw ma mi pa bid tag]. intros Hm. cbn [w_month] in Hm. subst m0.
  unfold v1_format_version.
  cbn [w_year w_quarter w_month w_dom w_doy w_iso_week w_us_week w_major w_minor w_patch w_bid w_tag].
  destruct (eqb_str tag s_final); destruct (assoc tag PEP440_TAG_BY_TAG) as [pt|]; try reflexivity;
    destruct (truthy y0); lazy; reflexivity.
Qed.
End Render2.

(* rendering for arbitrary integers: the year is printed as it is (no padding to four digits), the
   month is padded to two, the build id is copied, the tag is appended unless it is final *)
Theorem v1_pycalver_render_Z : forall v (y m : Z),
  w_year v = Some y -> w_month v = Some m -> has_key (w_tag v) PEP440_TAG_BY_TAG = true ->
  v1_format_version v P_pycalver =
  Some ([118%N] ++ zdec y ++ pad 2 (Z.to_N m) ++ [46%N] ++ w_bid v ++
        (if eqb_str (w_tag v) s_final then [] else [45%N] ++ w_tag v)).
Proof.
  intros v y m Hy Hm Ht. rewrite (pycalver_render_raw v y m Hy Hm Ht), app_nil_r. reflexivity.
Qed.

Theorem v1_pycalver_render : forall v (y m : N),
  w_year v = Some (Z.of_N y) -> w_month v = Some (Z.of_N m) -> has_key (w_tag v) PEP440_TAG_BY_TAG = true ->
  v1_format_version v P_pycalver =
  Some ([118%N] ++ dec y ++ pad 2 m ++ [46%N] ++ w_bid v ++
        (if eqb_str (w_tag v) s_final then [] else [45%N] ++ w_tag v)).
Proof.
  intros v y m Hy Hm Ht. rewrite (v1_pycalver_render_Z v _ _ Hy Hm Ht).
  unfold zdec. rewrite !N2Z.id. reflexivity.
Qed.

(* ------------------------------------------------------------------ reading then rendering gives the text back *)
Lemma v1_tags_known tag : In tag v1_tags ->
  has_key tag PEP440_TAG_BY_TAG = true /\ eqb_str tag s_final = false.
Proof.
  intros H. cbn [v1_tags In] in H.
  repeat (destruct H as [<-|H]; [split; vm_compute; reflexivity|]). destruct H.
Qed.

Theorem v1_pycalver_parse_render : forall (y m : N) (bid tag : list N),
  (1000 <= y <= 9999)%N -> (1 <= m <= 12)%N -> all_digits bid = true -> (4 <= length bid)%nat ->
  In tag v1_tags ->
  let s := [118%N] ++ dec y ++ pad 2 m ++ [46%N] ++ bid ++ [45%N] ++ tag in
  exists v, v1_parse_version_info s P_pycalver = POk v /\ v1_format_version v P_pycalver = Some s.
Proof.
  intros y m bid tag Hy Hm Hb Hbl Ht s. exists (pycalver_info y m bid (Some tag)). split.
  - pose proof (pycalver_parse_gen y m bid (Some tag) [] Hy Hm Hb Hbl) as H.
    rewrite app_nil_r in H. apply H; [|exact I]. cbn [otag_ok]. apply in_or_app. left. exact Ht.
  - destruct (v1_tags_known tag Ht) as [Hk Hf].
    rewrite (v1_pycalver_render (pycalver_info y m bid (Some tag)) y m eq_refl eq_refl Hk).
    unfold pycalver_info. cbn [w_tag w_bid tag_of]. rewrite Hf. reflexivity.
Qed.

Theorem v1_pycalver_parse_render_final : forall (y m : N) (bid : list N),
  (1000 <= y <= 9999)%N -> (1 <= m <= 12)%N -> all_digits bid = true -> (4 <= length bid)%nat ->
  let s := [118%N] ++ dec y ++ pad 2 m ++ [46%N] ++ bid in
  exists v, v1_parse_version_info s P_pycalver = POk v /\ v1_format_version v P_pycalver = Some s.
Proof.
  intros y m bid Hy Hm Hb Hbl s. exists (pycalver_info y m bid None). split.
  - pose proof (pycalver_parse_gen y m bid None [] Hy Hm Hb Hbl I I) as H.
    rewrite app_nil_r in H. unfold pycalver_text in H. cbn [rel_text] in H. rewrite app_nil_r in H. exact H.
  - rewrite (v1_pycalver_render (pycalver_info y m bid None) y m eq_refl eq_refl eq_refl).
    unfold pycalver_info. cbn [w_tag w_bid tag_of]. cbn [app]. rewrite app_nil_r. reflexivity.
Qed.

Theorem v1_semver_parse_render : forall ma mi pa : N,
  let s := dec ma ++ [46%N] ++ dec mi ++ [46%N] ++ dec pa in
  exists v, v1_parse_version_info s P_semver = POk v /\ v1_format_version v P_semver = Some s.
Proof.
  intros ma mi pa s. eexists. split; [apply v1_semver_parse_exact|].
  rewrite v1_semver_render; cbn [w_major w_minor w_patch w_tag]; try apply N2Z.is_nonneg; [|reflexivity].
  unfold zdec. rewrite !N2Z.id. reflexivity.
Qed.

(* ------------------------------------------------------------------ what the regexes accept beyond the intended domain *)
(* month 00 is accepted by (?:0[0-9]|1[0-2]) and read as month 0 without a quarter *)
Example v1_pycalver_month00 :
  v1_parse_version_info [118;50;48;49;55;48;48;46;48;48;48;49]%N P_pycalver =      (* v201700.0001 *)
  POk (mkv1 (Some 2017%Z) None (Some 0%Z) None None None None 0 0 0 [48;48;48;49]%N s_final).
Proof. vm_compute. reflexivity. Qed.
(* a year below 100 written with four digits is moved into the 2000s *)
Example v1_pycalver_year0099 :
  v1_parse_version_info [118;48;48;57;57;49;50;46;48;48;48;49]%N P_pycalver =      (* v009912.0001 *)
  POk (mkv1 (Some 2099%Z) (Some 4%Z) (Some 12%Z) None None None None 0 0 0 [48;48;48;49]%N s_final).
Proof. vm_compute. reflexivity. Qed.
(* an explicit -final suffix is accepted but never rendered *)
Example v1_pycalver_explicit_final :
  exists v, v1_parse_version_info [118;50;48;49;55;48;49;46;48;48;48;49;45;102;105;110;97;108]%N P_pycalver = POk v /\
            v1_format_version v P_pycalver = Some [118;50;48;49;55;48;49;46;48;48;48;49]%N.
Proof.
  exists (mkv1 (Some 2017%Z) (Some 1%Z) (Some 1%Z) None None None None 0 0 0 [48;48;48;49]%N s_final).
  split; vm_compute; reflexivity.
Qed.
(* a year of fewer than four digits renders to a text that does not read back *)
Example v1_pycalver_short_year :
  v1_format_version (mkv1 (Some 999%Z) None (Some 1%Z) None None None None 0 0 0 [48;48;48;49]%N s_final) P_pycalver
    = Some [118;57;57;57;48;49;46;48;48;48;49]%N /\
  v1_parse_version_info [118;57;57;57;48;49;46;48;48;48;49]%N P_pycalver = PErr.
Proof. split; vm_compute; reflexivity. Qed.

Print Assumptions semver_regex.
Print Assumptions pycalver_regex.
Print Assumptions v1_semver_render.
Print Assumptions v1_semver_roundtrip.
Print Assumptions v1_semver_parse_exact.
Print Assumptions v1_semver_parse_digits.
Print Assumptions v1_semver_rejects_suffix.
Print Assumptions v1_semver_parse_render.
Print Assumptions v1_pycalver_roundtrip.
Print Assumptions v1_pycalver_roundtrip_final.
Print Assumptions v1_pycalver_parse_exact.
Print Assumptions v1_pycalver_rejects_suffix.
Print Assumptions v1_pycalver_rejects_suffix_final.
Print Assumptions v1_pycalver_render_Z.
Print Assumptions v1_pycalver_render.
Print Assumptions v1_pycalver_parse_render.
Print Assumptions v1_pycalver_parse_render_final.
