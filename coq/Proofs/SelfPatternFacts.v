(* General (unbounded) facts about config._parse_current_version_default_pattern as modelled by
   [self_pattern_go] / [header_of] in Model/Config.v: which line of the config file yields the file's own
   search pattern, which lines are irrelevant, and what counts as a section header. *)
From Coq Require Import Strings.String.
From Coq Require Import List Bool NArith ZArith Arith Lia.
From BV Require Import Lib.PyStr Lib.Decimal Model.V2 Model.V1 Gen.Tables Lib.StrLit Model.Config.
Import ListNotations.
Local Open Scope N_scope.

(* ------------------------------------------------------------------ stripping helpers *)
Lemma lstrip_cons_out cs c t : mem_chr c cs = false -> lstrip cs (c :: t) = c :: t.
Proof. intros H. cbn [lstrip]. rewrite H. reflexivity. Qed.

Lemma lstrip_app_in cs a b :
  forallb (fun c => mem_chr c cs) a = true -> lstrip cs (a ++ b) = lstrip cs b.
Proof.
  induction a as [|x a IH]; intros H; [reflexivity|].
  cbn [forallb] in H. apply andb_prop in H. destruct H as [Hx Ha].
  cbn [app lstrip]. rewrite Hx. auto.
Qed.

Lemma lstrip_snoc_out cs x c : mem_chr c cs = false -> lstrip cs (x ++ [c]) = lstrip cs x ++ [c].
Proof.
  intros H. induction x as [|y x IH].
  - cbn [app lstrip]. rewrite H. reflexivity.
  - cbn [app lstrip]. destruct (mem_chr y cs); [exact IH | reflexivity].
Qed.

Lemma rstrip_cons_out cs c t : mem_chr c cs = false -> exists t', rstrip cs (c :: t) = c :: t'.
Proof.
  intros H. unfold rstrip. cbn [rev]. rewrite (lstrip_snoc_out _ _ _ H), rev_app_distr.
  cbn [rev app]. eexists; reflexivity.
Qed.

(* ------------------------------------------------------------------ the shape of a header line *)
Lemma header_of_unfold l rest :
  lstrip ws_chars l = 91 :: rest ->
  header_of l =
    match sfind [93] rest with
    | Some j =>
        let inner := firstn j rest in
        let after := lstrip ws_chars (skipn (S j) rest) in
        if (Nat.ltb 0 j) && negb (existsb (fun c => N.eqb c 91 || N.eqb c 34 || N.eqb c 39 || N.eqb c 61) inner)
           && match after with [] => true | c :: _ => N.eqb c 35 || N.eqb c 59 end
        then Some (91 :: inner ++ [93]) else None
    | None => None
    end.
Proof. intros H. unfold header_of. rewrite H. reflexivity. Qed.

(* a header line starts (after blanks) with an opening bracket *)
Lemma header_of_Some_bracket l h : header_of l = Some h -> exists r, lstrip ws_chars l = 91 :: r.
Proof.
  unfold header_of. destruct (lstrip ws_chars l) as [|c r]; [discriminate|].
  set (F := match sfind [93] r with Some j => _ | None => None end). clearbody F.
  intros H. destruct c as [|p]; [discriminate|].
  do 7 (try (destruct p as [p|p|]; try discriminate)).
  exists r. reflexivity.
Qed.

(* ... hence a header line is never a current_version line *)
Lemma header_not_current_version l h :
  header_of l = Some h -> prefixb s_current_version (strip_ws l) = false.
Proof.
  intros H. destruct (header_of_Some_bracket _ _ H) as [r Hr].
  unfold strip_ws, strip. rewrite Hr.
  destruct (rstrip_cons_out ws_chars 91 r eq_refl) as [t' Ht]. rewrite Ht.
  reflexivity.
Qed.

(* ------------------------------------------------------------------ single steps of the scan *)
Lemma self_pattern_go_step_header line t b cv vp h :
  header_of line = Some h ->
  self_pattern_go (line :: t) b cv vp = self_pattern_go t (mem_str h cfg_section_names) cv vp.
Proof.
  intros H. cbn [self_pattern_go].
  rewrite (header_not_current_version _ _ H), andb_false_r, H. reflexivity.
Qed.

Lemma self_pattern_go_step_plain line t b cv vp :
  header_of line = None -> is_section_line line = false ->
  b = false \/ prefixb s_current_version (strip_ws line) = false ->
  self_pattern_go (line :: t) b cv vp = self_pattern_go t b cv vp.
Proof.
  intros Hh Hs Hb. cbn [self_pattern_go].
  assert (E : b && prefixb s_current_version (strip_ws line) = false).
  { destruct Hb as [-> | ->]; [reflexivity | apply andb_false_r]. }
  rewrite E, Hh, Hs. reflexivity.
Qed.

Lemma self_pattern_go_step_found line t cv vp :
  prefixb s_current_version (strip_ws line) = true ->
  self_pattern_go (line :: t) true cv vp = Some (sreplace (strip_q cv) (strip_q vp) (strip_ws line)).
Proof. intros H. cbn [self_pattern_go]. rewrite H. reflexivity. Qed.

(* inside a section, lines that are not headers, not section lines and not current_version lines are skipped *)
Lemma self_pattern_go_skip_in_section mid rest cv vp :
  (forall l, In l mid ->
     header_of l = None /\ is_section_line l = false /\ prefixb s_current_version (strip_ws l) = false) ->
  self_pattern_go (mid ++ rest) true cv vp = self_pattern_go rest true cv vp.
Proof.
  induction mid as [|l mid IH]; intros H; [reflexivity|].
  destruct (H l (or_introl eq_refl)) as (Hh & Hs & Hp).
  rewrite <- app_comm_cons, self_pattern_go_step_plain by auto.
  apply IH. intros l' Hl'. apply H. right. exact Hl'.
Qed.

(* ------------------------------------------------------------------ (1) *)
(* The hypothesis that the header line itself is not a current_version line (in the requested statement) is
   not needed: it follows from [header_of hdr = Some h] (header_not_current_version). *)
Theorem self_pattern_go_found :
  forall (hdr h : list N) (mid : list (list N)) (cvline : list N) (post : list (list N)) (cv vp : list N) (b : bool),
    header_of hdr = Some h -> mem_str h cfg_section_names = true ->
    (forall l, In l mid ->
       header_of l = None /\ is_section_line l = false /\ prefixb s_current_version (strip_ws l) = false) ->
    prefixb s_current_version (strip_ws cvline) = true ->
    self_pattern_go (hdr :: mid ++ cvline :: post) b cv vp
    = Some (sreplace (strip_q cv) (strip_q vp) (strip_ws cvline)).
Proof.
  intros hdr h mid cvline post cv vp b Hh Hm Hmid Hcv.
  rewrite (self_pattern_go_step_header _ _ _ _ _ _ Hh), Hm.
  rewrite (self_pattern_go_skip_in_section _ _ _ _ Hmid).
  apply self_pattern_go_step_found. exact Hcv.
Qed.

(* the statement exactly as requested (with the redundant hypothesis) *)
Corollary self_pattern_go_found' :
  forall (hdr h : list N) (mid : list (list N)) (cvline : list N) (post : list (list N)) (cv vp : list N) (b : bool),
    header_of hdr = Some h -> mem_str h cfg_section_names = true ->
    (forall l, In l mid ->
       header_of l = None /\ is_section_line l = false /\ prefixb s_current_version (strip_ws l) = false) ->
    prefixb s_current_version (strip_ws hdr) = false ->
    prefixb s_current_version (strip_ws cvline) = true ->
    self_pattern_go (hdr :: mid ++ cvline :: post) b cv vp
    = Some (sreplace (strip_q cv) (strip_q vp) (strip_ws cvline)).
Proof. intros; eapply self_pattern_go_found; eauto. Qed.

(* ------------------------------------------------------------------ (2) *)
Theorem self_pattern_go_skip :
  forall (pre rest : list (list N)) (cv vp : list N),
    (forall l, In l pre -> header_of l = None /\ is_section_line l = false) ->
    self_pattern_go (pre ++ rest) false cv vp = self_pattern_go rest false cv vp.
Proof.
  induction pre as [|l pre IH]; intros rest cv vp H; [reflexivity|].
  destruct (H l (or_introl eq_refl)) as (Hh & Hs).
  rewrite <- app_comm_cons, self_pattern_go_step_plain by auto.
  apply IH. intros l' Hl'. apply H. right. exact Hl'.
Qed.

(* outside a section even bracketed lines that are not recognised as headers do not matter *)
Theorem self_pattern_go_skip_nonheaders :
  forall (pre rest : list (list N)) (cv vp : list N),
    (forall l, In l pre -> header_of l = None) ->
    self_pattern_go (pre ++ rest) false cv vp = self_pattern_go rest false cv vp.
Proof.
  induction pre as [|l pre IH]; intros rest cv vp H; [reflexivity|].
  rewrite <- app_comm_cons. cbn [self_pattern_go andb].
  rewrite (H l (or_introl eq_refl)).
  assert (E : self_pattern_go (pre ++ rest) false cv vp = self_pattern_go rest false cv vp).
  { apply IH. intros l' Hl'. apply H. right. exact Hl'. }
  rewrite E. destruct (is_section_line l); reflexivity.
Qed.

(* ------------------------------------------------------------------ (3) *)
(* The proviso [b = false \/ prefixb s_current_version (strip_ws hdr) = false] of the requested statement
   always holds for a header line, so it is dropped. *)
Theorem self_pattern_go_other_section :
  forall (hdr h : list N) (rest : list (list N)) (cv vp : list N) (b : bool),
    header_of hdr = Some h -> mem_str h cfg_section_names = false ->
    self_pattern_go (hdr :: rest) b cv vp = self_pattern_go rest false cv vp.
Proof.
  intros hdr h rest cv vp b Hh Hm.
  rewrite (self_pattern_go_step_header _ _ _ _ _ _ Hh), Hm. reflexivity.
Qed.

(* companion: a header of one of bumpver's sections switches the scan on, whatever the state before *)
Theorem self_pattern_go_own_section :
  forall (hdr h : list N) (rest : list (list N)) (cv vp : list N) (b : bool),
    header_of hdr = Some h -> mem_str h cfg_section_names = true ->
    self_pattern_go (hdr :: rest) b cv vp = self_pattern_go rest true cv vp.
Proof.
  intros hdr h rest cv vp b Hh Hm.
  rewrite (self_pattern_go_step_header _ _ _ _ _ _ Hh), Hm. reflexivity.
Qed.

(* ------------------------------------------------------------------ (4) *)
Theorem self_pattern_go_none :
  forall (lines : list (list N)) (cv vp : list N),
    (forall l h, In l lines -> header_of l = Some h -> mem_str h cfg_section_names = false) ->
    self_pattern_go lines false cv vp = None.
Proof.
  induction lines as [|l lines IH]; intros cv vp H; [reflexivity|].
  assert (E : self_pattern_go lines false cv vp = None).
  { apply IH. intros l' h' Hl'. apply H. right. exact Hl'. }
  cbn [self_pattern_go andb].
  destruct (header_of l) as [h|] eqn:Hh.
  - rewrite (H l h (or_introl eq_refl) Hh). exact E.
  - destruct (is_section_line l); exact E.
Qed.

(* ------------------------------------------------------------------ (5) header_of on concrete shapes *)
(* characters allowed in a section name: anything but brackets, single and double quotes and the equals sign *)
Definition name_char (c : N) : bool :=
  negb (N.eqb c 91 || N.eqb c 93 || N.eqb c 34 || N.eqb c 39 || N.eqb c 61).
(* what may follow the closing bracket (after optional blanks): nothing, or a comment starting with # or ; *)
Definition comment_tail (s : list N) : bool :=
  match s with [] => true | c :: _ => N.eqb c 35 || N.eqb c 59 end.

Lemma sfind_first_chr c a r :
  forallb (fun x => negb (N.eqb x c)) a = true -> sfind [c] (a ++ c :: r) = Some (length a).
Proof.
  induction a as [|x a IH]; intros H.
  - cbn [app sfind prefixb]. rewrite N.eqb_refl. reflexivity.
  - cbn [forallb] in H. apply andb_prop in H. destruct H as [Hx Ha].
    apply negb_true_iff in Hx.
    cbn [app sfind prefixb]. rewrite N.eqb_sym, Hx. cbn [andb].
    rewrite (IH Ha). reflexivity.
Qed.

Lemma firstn_length_app {A} (a b : list A) : firstn (length a) (a ++ b) = a.
Proof. induction a as [|x a IH]; [reflexivity|]. cbn [length app firstn]. rewrite IH. reflexivity. Qed.

Lemma skipn_S_length_app {A} (a : list A) x r : skipn (S (length a)) (a ++ x :: r) = r.
Proof. induction a as [|y a IH]; [reflexivity|]. cbn [length app]. exact IH. Qed.

Lemma name_char_no_rb name :
  forallb name_char name = true -> forallb (fun x => negb (N.eqb x 93)) name = true.
Proof.
  induction name as [|c name IH]; intros H; [reflexivity|].
  cbn [forallb] in *. apply andb_prop in H. destruct H as [Hc Hn].
  rewrite (IH Hn), andb_true_r. unfold name_char in Hc.
  destruct (N.eqb c 93); [|reflexivity].
  rewrite orb_true_r in Hc. exact Hc.
Qed.

Lemma name_char_no_forbidden name :
  forallb name_char name = true ->
  existsb (fun c => N.eqb c 91 || N.eqb c 34 || N.eqb c 39 || N.eqb c 61) name = false.
Proof.
  induction name as [|c name IH]; intros H; [reflexivity|].
  cbn [forallb existsb] in *. apply andb_prop in H. destruct H as [Hc Hn].
  rewrite (IH Hn), orb_false_r. unfold name_char in Hc.
  destruct (N.eqb c 91), (N.eqb c 93), (N.eqb c 34), (N.eqb c 39), (N.eqb c 61);
    try reflexivity; discriminate Hc.
Qed.

Lemma lstrip_comment_tail cmt : comment_tail cmt = true -> lstrip ws_chars cmt = cmt.
Proof.
  destruct cmt as [|c r]; intros H; [reflexivity|].
  apply lstrip_cons_out. cbn [comment_tail] in H.
  apply orb_prop in H. destruct H as [H|H]; apply N.eqb_eq in H; subst c; reflexivity.
Qed.

(* the general shape: blanks, opening bracket, name, closing bracket, blanks, optional # or ; comment *)
Theorem header_of_general :
  forall (ind name sp cmt : list N),
    forallb (fun c => mem_chr c ws_chars) ind = true ->
    name <> [] -> forallb name_char name = true ->
    forallb (fun c => mem_chr c ws_chars) sp = true ->
    comment_tail cmt = true ->
    header_of (ind ++ 91 :: name ++ 93 :: sp ++ cmt) = Some (91 :: name ++ [93]).
Proof.
  intros ind name sp cmt Hind Hne Hname Hsp Hcmt.
  rewrite (header_of_unfold _ (name ++ 93 :: sp ++ cmt)).
  2:{ rewrite (lstrip_app_in _ _ _ Hind). apply lstrip_cons_out. reflexivity. }
  rewrite (sfind_first_chr 93 name (sp ++ cmt) (name_char_no_rb _ Hname)).
  cbv zeta.
  rewrite firstn_length_app, skipn_S_length_app.
  rewrite (lstrip_app_in _ _ _ Hsp), (lstrip_comment_tail _ Hcmt).
  rewrite (name_char_no_forbidden _ Hname).
  fold (comment_tail cmt). rewrite Hcmt.
  destruct name as [|c name]; [contradiction Hne; reflexivity|].
  reflexivity.
Qed.

Theorem header_of_plain :
  forall name : list N,
    name <> [] -> forallb name_char name = true ->
    header_of (91 :: name ++ [93]) = Some (91 :: name ++ [93]).
Proof.
  intros name Hne Hname.
  exact (header_of_general [] name [] [] eq_refl Hne Hname eq_refl eq_refl).
Qed.

(* the three section names bumpver looks for are headers of themselves *)
Example header_of_cfg_section_names :
  forallb (fun h => match header_of h with Some h' => eqb_str h h' | None => false end) cfg_section_names = true.
Proof. vm_compute. reflexivity. Qed.

Example header_of_indented_comment :
  header_of (lit "    [tool.bumpver]  # managed by hand") = Some (lit "[tool.bumpver]")
  /\ header_of (lit "[bumpver]" ++ [9]) = Some (lit "[bumpver]")                 (* trailing tab *)
  /\ header_of (lit "[bumpver] ; note") = Some (lit "[bumpver]")
  /\ header_of (lit "[a=b]") = None
  /\ header_of (lit "x = [1]") = None
  /\ header_of (lit "[[array]]") = None
  /\ header_of (lit "[]") = None
  /\ header_of (lit "[bumpver] x") = None
  /\ header_of (lit "[tool.""bumpver""]") = None.
Proof. vm_compute. repeat split; reflexivity. Qed.

(* ------------------------------------------------------------------ (6) end to end *)
(* hand-formatted TOML: a comment after the header, indented keys; the raw values are what the toml
   library returns (already unquoted) *)
Example self_pattern_toml_by_hand :
  self_pattern (lit "1.2.3") (lit "MAJOR.MINOR.PATCH")
    (lit "[tool.bumpver] # by hand" ++ [10] ++
     lit "    current_version = ""1.2.3""" ++ [10] ++
     lit "    version_pattern = ""MAJOR.MINOR.PATCH""" ++ [10])
  = Some (lit "current_version = ""MAJOR.MINOR.PATCH""").
Proof. vm_compute. reflexivity. Qed.

(* another tool's section with its own current_version line comes first: bumpver's own line is found *)
Example self_pattern_after_other_section :
  self_pattern (lit "1.2.3") (lit "MAJOR.MINOR.PATCH")
    (lit "[tool.other]" ++ [10] ++
     lit "current_version = ""9""" ++ [10] ++
     [10] ++
     lit "[tool.bumpver]" ++ [10] ++
     lit "current_version = ""1.2.3""" ++ [10] ++
     lit "version_pattern = ""MAJOR.MINOR.PATCH""" ++ [10])
  = Some (lit "current_version = ""MAJOR.MINOR.PATCH""").
Proof. vm_compute. reflexivity. Qed.

(* the same file, through the general lemmas instead of computation on the whole text *)
Example self_pattern_after_other_section_by_lemmas :
  forall post cv vp,
    self_pattern_go
      (lit "[tool.other]" :: lit "current_version = ""9""" :: [] ::
       lit "[tool.bumpver]  # ours" :: lit "# a comment" :: lit "  current_version = ""1.2.3""" :: post) false cv vp
    = Some (sreplace (strip_q cv) (strip_q vp) (lit "current_version = ""1.2.3""")).
Proof.
  intros post cv vp.
  rewrite (self_pattern_go_other_section _ (lit "[tool.other]")) by (vm_compute; reflexivity).
  match goal with |- self_pattern_go (?a :: ?b :: ?r) _ _ _ = _ =>
    change (a :: b :: r) with ([a; b] ++ r) end.
  rewrite (self_pattern_go_skip [lit "current_version = ""9"""; []]).
  2:{ intros l [<-|[<-|[]]]; vm_compute; split; reflexivity. }
  match goal with |- self_pattern_go (?a :: ?b :: ?r) _ _ _ = _ =>
    change (a :: b :: r) with (a :: [b] ++ r) end.
  rewrite (self_pattern_go_found _ (lit "[tool.bumpver]") [lit "# a comment"]).
  - f_equal.
  - vm_compute; reflexivity.
  - vm_compute; reflexivity.
  - intros l [<-|[]]. vm_compute. repeat split; reflexivity.
  - vm_compute; reflexivity.
Qed.

(* no bumpver section at all: ValueError *)
Example self_pattern_no_section :
  self_pattern (lit "1.2.3") (lit "MAJOR.MINOR.PATCH")
    (lit "[tool.other]" ++ [10] ++ lit "current_version = ""1.2.3""" ++ [10]) = None.
Proof. vm_compute. reflexivity. Qed.
