(* C18 (config formats), C19 (config file selection and init), C08 (project histories), C20 (legacy
   pattern dispatch): proofs over Model/Config.v, Model/Project.v, Model/V1.v, Model/Cli.v. *)
From Coq Require Import List Bool NArith ZArith Arith Lia Sorted.
From BV Require Import Lib.PyStr Model.V2 Model.Cli Model.V1 Model.CliAll Model.Config Model.Project Gen.Tables.
Import ListNotations.
Local Open Scope N_scope.

(* ================================================================== C18 *)
(* ------------------------------------------------------------------ C18 *)
Theorem tag_push_require_commit : forall boolf c e, parse_config boolf c = Some e ->
  (e_tag e = true -> e_commit e = true) /\ (e_push e = true -> e_commit e = true).
Proof.
  intros boolf c e H. unfold parse_config in H.
  destruct (get_str s_commit_message c DEFAULT_COMMIT_MESSAGE); [|discriminate H].
  destruct (get_str s_tag_message c DEFAULT_TAG_MESSAGE); [|discriminate H].
  destruct (assoc s_current_version c) as [[cv|]|]; try discriminate H.
  destruct (assoc s_version_pattern c) as [[vp|]|]; try discriminate H.
  destruct (get_str s_tag_scope c s_default); [|discriminate H].
  destruct (get_str s_pre_hook c []); [|discriminate H].
  destruct (get_str s_post_hook c []); [|discriminate H].
  destruct (negb (mem_str l1 [s_default; s_global; s_branch])); [discriminate H|].
  cbv zeta in H.
  destruct (truthy_raw (boolf (assoc s_tag c) _)) eqn:Ht;
  destruct (truthy_raw (boolf (assoc s_push c) _)) eqn:Hp;
  destruct (truthy_raw (boolf (assoc s_commit c) _)) eqn:Hc;
  simpl in H; try discriminate H; injection H as <-; simpl; split; intros; congruence.
Qed.

Theorem ini_truthy_spellings : forall s, ini_bool (Some (RStr s)) None = Some (RBool (mem_str (lower_ascii s) INI_TRUTHY)).
Proof. reflexivity. Qed.

Theorem repo_truthy_table :
  INI_TRUTHY = [ [121;101;115]; [116;114;117;101]; [49]; [111;110] ] /\
  BOOL_OPTIONS = [ ([99;111;109;109;105;116], Some false); ([116;97;103], None); ([112;117;115;104], None) ].
Proof. split; reflexivity. Qed.

Record abscfg := mkabs {
  a_cv : list N; a_vp : list N; a_cm : option (list N); a_tm : option (list N); a_scope : option (list N);
  a_pre : option (list N); a_post : option (list N); a_commit : option bool; a_tag : option bool; a_push : option bool }.

Definition opt_entry {A} (k : list N) (f : A -> rawv) (o : option A) : rawcfg :=
  match o with Some x => [(k, f x)] | None => [] end.

Definition raw_of (fs : list N -> rawv) (fb : bool -> rawv) (a : abscfg) : rawcfg :=
  [(s_current_version, fs (a_cv a)); (s_version_pattern, fs (a_vp a))] ++
  opt_entry s_commit_message fs (a_cm a) ++ opt_entry s_tag_message fs (a_tm a) ++
  opt_entry s_tag_scope fs (a_scope a) ++ opt_entry s_pre_hook fs (a_pre a) ++ opt_entry s_post_hook fs (a_post a) ++
  opt_entry s_commit fb (a_commit a) ++ opt_entry s_tag fb (a_tag a) ++ opt_entry s_push fb (a_push a).

(* what the toml library delivers: typed values *)
Definition raw_toml (a : abscfg) : rawcfg := raw_of RStr RBool a.
(* what configparser delivers: every value is text; strings may carry quotes, booleans are spelled out *)
Definition raw_ini (spell : bool -> list N) (quote : list N -> list N) (a : abscfg) : rawcfg :=
  raw_of (fun s => RStr (quote s)) (fun b => RStr (spell b)) a.

Definition abs_str (k : list N) (a : abscfg) : option (list N) :=
  if eqb_str k s_current_version then Some (a_cv a) else
  if eqb_str k s_version_pattern then Some (a_vp a) else
  if eqb_str k s_commit_message then a_cm a else
  if eqb_str k s_tag_message then a_tm a else
  if eqb_str k s_tag_scope then a_scope a else
  if eqb_str k s_pre_hook then a_pre a else
  if eqb_str k s_post_hook then a_post a else None.
Definition abs_bool (k : list N) (a : abscfg) : option bool :=
  if eqb_str k s_commit then a_commit a else
  if eqb_str k s_tag then a_tag a else
  if eqb_str k s_push then a_push a else None.

Definition cfg_keys : list (list N) :=
  [s_current_version; s_version_pattern; s_commit_message; s_tag_message; s_tag_scope; s_pre_hook; s_post_hook; s_commit; s_tag; s_push].

Lemma assoc_app : forall {A} k (l1 l2 : list (list N * A)),
  assoc k (l1 ++ l2) = match assoc k l1 with Some v => Some v | None => assoc k l2 end.
Proof.
  intros A k l1 l2. induction l1 as [|[k' v] l1 IH]; simpl; [reflexivity|].
  destruct (eqb_str k k'); [reflexivity|exact IH].
Qed.

Lemma assoc_opt_entry : forall {A} k k' (f : A -> rawv) o,
  assoc k (opt_entry k' f o) = if eqb_str k k' then option_map f o else None.
Proof. intros A k k' f [x|]; simpl; destruct (eqb_str k k'); reflexivity. Qed.

Lemma assoc_raw_of : forall fs fb a k, In k cfg_keys ->
  assoc k (raw_of fs fb a) =
  match abs_str k a with Some s => Some (fs s) | None => match abs_bool k a with Some b => Some (fb b) | None => None end end.
Proof.
  intros fs fb [cv vp cm tm sc pre post co ta pu] k Hk.
  unfold raw_of. rewrite !assoc_app. rewrite !assoc_opt_entry.
  simpl in Hk.
  repeat (destruct Hk as [<-|Hk]); try contradiction; simpl;
    repeat match goal with |- context [option_map _ ?o] => is_var o; destruct o; simpl end; reflexivity.
Qed.

(* stripping quotes: wrapping a value in double quotes does not change what is read *)
Lemma lstrip_snoc_mem : forall cs c s, mem_chr c cs = true ->
  lstrip cs (s ++ [c]) = match lstrip cs s with [] => [] | l => l ++ [c] end.
Proof.
  intros cs c s Hc. induction s as [|x s IH]; simpl.
  - rewrite Hc. reflexivity.
  - destruct (mem_chr x cs); [exact IH|reflexivity].
Qed.

Lemma rstrip_snoc_mem : forall cs c s, mem_chr c cs = true -> rstrip cs (s ++ [c]) = rstrip cs s.
Proof.
  intros cs c s Hc. unfold rstrip. rewrite rev_app_distr. simpl. rewrite Hc. reflexivity.
Qed.

Theorem strip_q_dquote : forall s, strip_q ([34] ++ s ++ [34]) = strip_q s.
Proof.
  intros s. unfold strip_q, strip.
  change (lstrip [39; 34; 32] ([34] ++ s ++ [34])) with (lstrip [39; 34; 32] (s ++ [34])).
  rewrite lstrip_snoc_mem by reflexivity.
  destruct (lstrip [39; 34; 32] s) as [|x l] eqn:Hl; [reflexivity|].
  apply rstrip_snoc_mem. reflexivity.
Qed.

Local Opaque strip_q mem_str lower_ascii mem_chr.
(* step 1: the spelling of booleans does not matter (strings kept as they are) *)
Lemma formats_agree_bools : forall a spell fs,
  (forall b, mem_str (lower_ascii (spell b)) INI_TRUTHY = b) ->
  parse_config ini_bool (raw_of fs (fun b => RStr (spell b)) a) = parse_config toml_bool (raw_of fs RBool a).
Proof.
  intros a spell fs Hb. unfold parse_config, get_str.
  rewrite !assoc_raw_of by (simpl; tauto).
  destruct a as [cv vp cm tm sc pre post co ta pu].
  (destruct co, ta, pu; simpl; rewrite ?Hb; reflexivity).
Qed.

(* step 2: quoting of strings does not matter (booleans typed) *)
Lemma formats_agree_strings : forall a quote boolf,
  (forall s, strip_q (quote s) = strip_q s) ->
  parse_config boolf (raw_of (fun s => RStr (quote s)) RBool a) = parse_config boolf (raw_of RStr RBool a).
Proof.
  intros a quote boolf Hq. unfold parse_config, get_str.
  rewrite !assoc_raw_of by (simpl; tauto).
  destruct a as [cv vp cm tm sc pre post co ta pu].
  (destruct cm, tm, sc, pre, post; simpl; rewrite ?Hq; reflexivity).
Qed.
Local Transparent strip_q mem_str lower_ascii mem_chr.

Theorem formats_agree : forall a spell quote,
  (forall b, mem_str (lower_ascii (spell b)) INI_TRUTHY = b) ->
  (forall s, strip_q (quote s) = strip_q s) ->
  parse_config_ini (raw_ini spell quote a) = parse_config_toml (raw_toml a).
Proof.
  intros a spell quote Hb Hq. unfold parse_config_ini, parse_config_toml, raw_ini, raw_toml.
  rewrite (formats_agree_bools a spell _ Hb). apply formats_agree_strings. exact Hq.
Qed.

(* YES / off ; values wrapped in double quotes *)
Definition spell_yes_off (b : bool) : list N := if b then [89;69;83] else [111;102;102].
Definition quote_dq (s : list N) : list N := [34] ++ s ++ [34].

Theorem formats_agree_quoted : forall a, parse_config_ini (raw_ini spell_yes_off quote_dq a) = parse_config_toml (raw_toml a).
Proof.
  intros a. apply formats_agree.
  - intros [|]; reflexivity.
  - exact strip_q_dquote.
Qed.

(* a concrete configuration: current_version 1.2.3, version_pattern MAJOR.MINOR.PATCH, tag_scope global,
   commit and tag on, push off; the INI spelling (YES / off, values in double quotes) and the TOML
   spelling are both accepted and give the same effective configuration *)
Definition sample_cfg : abscfg :=
  mkabs [49;46;50;46;51] [77;65;74;79;82;46;77;73;78;79;82;46;80;65;84;67;72] None None (Some s_global) None None
        (Some true) (Some true) (Some false).

Example formats_agree_instance :
  parse_config_ini (raw_ini spell_yes_off quote_dq sample_cfg) = parse_config_toml (raw_toml sample_cfg) /\
  parse_config_toml (raw_toml sample_cfg) =
    Some (mkeff [49;46;50;46;51] [77;65;74;79;82;46;77;73;78;79;82;46;80;65;84;67;72] DEFAULT_COMMIT_MESSAGE DEFAULT_TAG_MESSAGE
                s_global [] [] true true false true).
Proof. vm_compute. split; reflexivity. Qed.

(* ================================================================== C19 *)
Lemma cf_eqb_str_eq : forall a b, eqb_str a b = true -> a = b.
Proof.
  induction a as [|x a IH]; intros [|y b] H; simpl in H; try discriminate H; [reflexivity|].
  apply andb_true_iff in H. destruct H as [Hxy H]. apply N.eqb_eq in Hxy. subst y. f_equal. apply IH. exact H.
Qed.

Lemma cf_eqb_str_refl : forall a, eqb_str a a = true.
Proof. induction a as [|x a IH]; simpl; [reflexivity|]. rewrite N.eqb_refl. exact IH. Qed.

Lemma prefixb_app : forall a b, prefixb a (a ++ b) = true.
Proof. induction a as [|x a IH]; intros b; simpl; [reflexivity|]. rewrite N.eqb_refl. apply IH. Qed.

(* ------------------------------------------------------------------ C19: file selection, for every directory *)
Definition cand_has_section (d : pdir) (f : list N) : bool :=
  match dir_get d f with Some data => has_bumpver_section data | None => false end.

Lemma filter_nil_existsb : forall {A} (p : A -> bool) l, filter p l = [] -> existsb p l = false.
Proof.
  intros A p. induction l as [|x l IH]; simpl; intros H; [reflexivity|].
  destruct (p x); [discriminate H|]. apply IH. exact H.
Qed.

Lemma filter_head_in : forall {A} (p : A -> bool) l x t, filter p l = x :: t -> In x l /\ p x = true.
Proof.
  intros A p l x t H. apply filter_In. rewrite H. left. reflexivity.
Qed.

Theorem prefers_section_file_any_dir : forall d,
  existsb (cand_has_section d) CONFIG_CANDIDATES = true ->
  In (pick_config d) CONFIG_CANDIDATES /\ cand_has_section d (pick_config d) = true.
Proof.
  intros d H. unfold pick_config. fold (cand_has_section d).
  destruct (filter (cand_has_section d) CONFIG_CANDIDATES) as [|f t] eqn:Hf.
  - apply filter_nil_existsb in Hf. rewrite Hf in H. discriminate H.
  - apply filter_head_in in Hf. exact Hf.
Qed.

Theorem picks_existing_any_dir : forall d,
  (existsb (dir_has d) CONFIG_CANDIDATES = true -> In (pick_config d) CONFIG_CANDIDATES /\ dir_has d (pick_config d) = true) /\
  (existsb (dir_has d) CONFIG_CANDIDATES = false -> pick_config d = CONFIG_FALLBACK).
Proof.
  intros d. unfold pick_config. fold (cand_has_section d).
  destruct (filter (cand_has_section d) CONFIG_CANDIDATES) as [|f t] eqn:Hf.
  - destruct (filter (dir_has d) CONFIG_CANDIDATES) as [|g u] eqn:Hg.
    + rewrite (filter_nil_existsb _ _ Hg). split; [intros H; discriminate H|reflexivity].
    + apply filter_head_in in Hg. split; [intros _; exact Hg|].
      intros He. assert (Ht : existsb (dir_has d) CONFIG_CANDIDATES = true) by (apply existsb_exists; exists g; exact Hg).
      rewrite Ht in He. discriminate He.
  - apply filter_head_in in Hf. destruct Hf as [Hin Hf].
    assert (Hd : dir_has d f = true).
    { unfold cand_has_section, dir_get in Hf. unfold dir_has, has_key. destruct (assoc f d); [reflexivity|discriminate Hf]. }
    split; [intros _; split; assumption|].
    intros He. assert (Ht : existsb (dir_has d) CONFIG_CANDIDATES = true) by (apply existsb_exists; exists f; split; assumption).
    rewrite Ht in He. discriminate He.
Qed.

Theorem init_appends_any_dir : forall d v f new, init_cmd d false false v = InitWrote f new ->
  f = pick_config d /\ match dir_get d f with Some old => prefixb old new = true | None => True end.
Proof.
  intros d v f new H. unfold init_cmd in H.
  destruct (default_config d (pick_config d) v) as [text|]; [|discriminate H].
  destruct (dir_get d (pick_config d)) as [old|] eqn:Hg; injection H as <- <-; split; try reflexivity; rewrite Hg.
  - apply prefixb_app.
  - exact I.
Qed.

Theorem refuses_when_configured_any_dir : forall d dry v, init_cmd d true dry v = InitRefused.
Proof. reflexivity. Qed.

(* the dry run shows exactly what the real run appends *)
Definition appended (d : pdir) (f text : list N) : list N :=
  match dir_get d f with Some old => old ++ [10] ++ text | None => text end.

Theorem dry_matches_real_any_dir : forall d v f text, init_cmd d false true v = InitDry f text ->
  f = pick_config d /\ init_cmd d false false v = InitWrote f (appended d f text).
Proof.
  intros d v f text H. unfold init_cmd in *.
  destruct (default_config d (pick_config d) v) as [t|]; [|discriminate H].
  injection H as <- <-. split; [reflexivity|]. unfold appended.
  destruct (dir_get d (pick_config d)); reflexivity.
Qed.

(* ------------------------------------------------------------------ C19: the layout space *)
Definition f_setup_cfg := [115;101;116;117;112;46;99;102;103].
Definition f_pyproject := [112;121;112;114;111;106;101;99;116;46;116;111;109;108].
Definition f_bumpver := [98;117;109;112;118;101;114;46;116;111;109;108].
Definition f_dot_bumpver := [46;98;117;109;112;118;101;114;46;116;111;109;108].
Definition f_pycalver := [112;121;99;97;108;118;101;114;46;116;111;109;108].
Definition f_readme_md := [82;69;65;68;77;69;46;109;100].
Definition f_readme_rst := [82;69;65;68;77;69;46;114;115;116].
Definition f_setup_py := [115;101;116;117;112;46;112;121].

(* [metadata] / name = x *)
Definition t_unrelated := [91;109;101;116;97;100;97;116;97;93;10;110;97;109;101;32;61;32;120;10].
(* [bumpver] / current_version = 1.2.3 (quoted) *)
Definition t_bumpver_section := [91;98;117;109;112;118;101;114;93;10;99;117;114;114;101;110;116;95;118;101;114;115;105;111;110;32;61;32;34;49;46;50;46;51;34;10].
(* [pycalver] / current_version = 1 (quoted) *)
Definition t_pycalver_section := [91;112;121;99;97;108;118;101;114;93;10;99;117;114;114;101;110;116;95;118;101;114;115;105;111;110;32;61;32;34;49;34;10].
(* 2026.1001-alpha *)
Definition layout_iv := [50;48;50;54;46;49;48;48;49;45;97;108;112;104;97].
(* current_version = (followed by an opening double quote) *)
Definition t_cv_assign := [99;117;114;114;101;110;116;95;118;101;114;115;105;111;110;32;61;32;34].

Definition cfg_states (section : list N) : list (option (list N)) := [None; Some []; Some t_unrelated; Some section].
Definition other_states : list (option (list N)) := [None; Some [120; 10]].

Definition layout_axes : list (list N * list (option (list N))) :=
  [ (f_setup_cfg, cfg_states t_bumpver_section); (f_pyproject, cfg_states t_bumpver_section);
    (f_bumpver, cfg_states t_bumpver_section); (f_dot_bumpver, cfg_states t_bumpver_section);
    (f_pycalver, cfg_states t_pycalver_section);
    (f_readme_md, other_states); (f_readme_rst, other_states); (f_setup_py, other_states) ].

Fixpoint layouts (axes : list (list N * list (option (list N)))) : list pdir :=
  match axes with
  | [] => [[]]
  | (f, states) :: t =>
      flat_map (fun rest => map (fun o => match o with Some c => (f, c) :: rest | None => rest end) states) (layouts t)
  end.
Definition all_layouts : list pdir := layouts layout_axes.

Definition mention_names : list (list N) := [f_setup_py; f_readme_md; f_readme_rst].

(* one evaluation of default_config per layout; the statements about init_cmd follow from it *)
Definition chk_all (d : pdir) : bool :=
  let f := pick_config d in
  match default_config d f layout_iv with
  | None => false
  | Some text =>
      let new := appended d f text in
      eqb_str (pick_config (dir_set d f new)) f && has_bumpver_section new &&
      forallb (fun n => implb (dir_has d n) (str_in n text)) mention_names && str_in (t_cv_assign ++ layout_iv) text
  end.

Lemma all_layouts_count : N.of_nat (length all_layouts) = 8192.
Proof. vm_compute. reflexivity. Qed.

Lemma all_layouts_checked : forallb chk_all all_layouts = true.
Proof. vm_cast_no_check (eq_refl true). Qed.

Lemma layout_facts : forall d, In d all_layouts ->
  exists text, default_config d (pick_config d) layout_iv = Some text /\
    pick_config (dir_set d (pick_config d) (appended d (pick_config d) text)) = pick_config d /\
    has_bumpver_section (appended d (pick_config d) text) = true /\
    (forall n, In n mention_names -> dir_has d n = true -> str_in n text = true) /\
    str_in (t_cv_assign ++ layout_iv) text = true.
Proof.
  intros d Hin. pose proof (proj1 (forallb_forall chk_all all_layouts) all_layouts_checked d Hin) as H.
  unfold chk_all in H. cbv zeta in H.
  destruct (default_config d (pick_config d) layout_iv) as [text|]; [|discriminate H].
  exists text. split; [reflexivity|].
  apply andb_true_iff in H. destruct H as [H H4].
  apply andb_true_iff in H. destruct H as [H H3].
  apply andb_true_iff in H. destruct H as [H1 H2].
  split; [apply cf_eqb_str_eq; exact H1|]. split; [exact H2|]. split; [|exact H4].
  intros n Hn Hd. rewrite forallb_forall in H3. specialize (H3 n Hn). rewrite Hd in H3. exact H3.
Qed.

Lemma init_real_of_default : forall d v text, default_config d (pick_config d) v = Some text ->
  init_cmd d false false v = InitWrote (pick_config d) (appended d (pick_config d) text).
Proof.
  intros d v text H. unfold init_cmd, appended. rewrite H. destruct (dir_get d (pick_config d)); reflexivity.
Qed.

Lemma init_dry_of_default : forall d v text, default_config d (pick_config d) v = Some text ->
  init_cmd d false true v = InitDry (pick_config d) text.
Proof. intros d v text H. unfold init_cmd. rewrite H. reflexivity. Qed.

Theorem prefers_section_file : forall d, In d all_layouts ->
  existsb (cand_has_section d) CONFIG_CANDIDATES = true ->
  In (pick_config d) CONFIG_CANDIDATES /\ cand_has_section d (pick_config d) = true.
Proof. intros d _. apply prefers_section_file_any_dir. Qed.

Theorem picks_existing : forall d, In d all_layouts ->
  (existsb (dir_has d) CONFIG_CANDIDATES = true -> In (pick_config d) CONFIG_CANDIDATES /\ dir_has d (pick_config d) = true) /\
  (existsb (dir_has d) CONFIG_CANDIDATES = false -> pick_config d = CONFIG_FALLBACK).
Proof. intros d _. apply picks_existing_any_dir. Qed.

Theorem init_appends : forall d, In d all_layouts -> forall f new, init_cmd d false false layout_iv = InitWrote f new ->
  f = pick_config d /\ match dir_get d f with Some old => prefixb old new = true | None => True end.
Proof. intros d _. apply init_appends_any_dir. Qed.

Theorem init_self_selecting : forall d, In d all_layouts -> forall f new, init_cmd d false false layout_iv = InitWrote f new ->
  pick_config (dir_set d f new) = f /\ has_bumpver_section new = true.
Proof.
  intros d Hin f new H. destruct (layout_facts d Hin) as [text [Hd [H1 [H2 _]]]].
  rewrite (init_real_of_default d layout_iv text Hd) in H. injection H as <- <-. split; assumption.
Qed.

Theorem init_never_errors : forall d, In d all_layouts -> init_cmd d false false layout_iv <> InitError.
Proof.
  intros d Hin. destruct (layout_facts d Hin) as [text [Hd _]].
  rewrite (init_real_of_default d layout_iv text Hd). discriminate.
Qed.

Theorem dry_writes_nothing : forall d, In d all_layouts ->
  exists text, init_cmd d false true layout_iv = InitDry (pick_config d) text /\
               init_cmd d false false layout_iv = InitWrote (pick_config d) (appended d (pick_config d) text).
Proof.
  intros d Hin. destruct (layout_facts d Hin) as [text [Hd _]]. exists text.
  split; [apply init_dry_of_default|apply init_real_of_default]; exact Hd.
Qed.

Theorem refuses_when_configured : forall d, In d all_layouts -> forall dry, init_cmd d true dry layout_iv = InitRefused.
Proof. reflexivity. Qed.

Theorem init_mentions_existing_files : forall d, In d all_layouts -> forall f text, init_cmd d false true layout_iv = InitDry f text ->
  (forall n, In n mention_names -> dir_has d n = true -> str_in n text = true) /\ str_in (t_cv_assign ++ layout_iv) text = true.
Proof.
  intros d Hin f text H. destruct (layout_facts d Hin) as [text' [Hd [_ [_ [H3 H4]]]]].
  rewrite (init_dry_of_default d layout_iv text' Hd) in H. injection H as <- <-. split; assumption.
Qed.

(* ================================================================== C08 *)
(* ------------------------------------------------------------------ C08 *)
Lemma fold_max_ge_init : forall l a, (a <= fold_left Nat.max l a)%nat.
Proof. induction l as [|x l IH]; intros a; simpl; [lia|]. specialize (IH (Nat.max a x)). lia. Qed.

Lemma fold_max_ge_in : forall l a t, In t l -> (t <= fold_left Nat.max l a)%nat.
Proof.
  induction l as [|x l IH]; intros a t Hin; simpl in *; [contradiction|].
  destruct Hin as [->|Hin]; [|apply IH; exact Hin].
  pose proof (fold_max_ge_init l (Nat.max a t)). lia.
Qed.

Lemma fold_max_le : forall l a b, (a <= b)%nat -> (forall t, In t l -> (t <= b)%nat) -> (fold_left Nat.max l a <= b)%nat.
Proof.
  induction l as [|x l IH]; intros a b Ha Hl; simpl; [exact Ha|].
  apply IH; [|intros t Ht; apply Hl; right; exact Ht].
  pose proof (Hl x (or_introl eq_refl)). lia.
Qed.

Lemma fold_max_eq : forall l a, (forall t, In t l -> (t <= a)%nat) -> fold_left Nat.max l a = a.
Proof.
  intros l a H. apply Nat.le_antisymm; [apply fold_max_le; [lia|exact H]|apply fold_max_ge_init].
Qed.

Lemma newest_ge_config : forall s, (ps_config s <= newest s)%nat.
Proof. intros s. apply fold_max_ge_init. Qed.

Lemma newest_ge_tag : forall s t, In t (ps_tags s) -> (t <= newest s)%nat.
Proof. intros s t. apply fold_max_ge_in. Qed.

Theorem step_preserves_consistent : forall s o, consistent s = true -> consistent (step s o) = true.
Proof.
  intros s o H. destruct o; unfold consistent in *; simpl; try exact H;
    rewrite Nat.eqb_refl; reflexivity.
Qed.

Theorem run_preserves_consistent : forall ops s, consistent s = true -> consistent (run_ops ops s) = true.
Proof.
  unfold run_ops. induction ops as [|o ops IH]; intros s H; simpl; [exact H|].
  apply IH. apply step_preserves_consistent. exact H.
Qed.

Theorem update_strictly_increases : forall s o, In o [OUpdate; OUpdateNoTag; OUpdateNoCommit] ->
  (newest s < ps_config (step s o))%nat /\ ps_config (step s o) = newest (step s o).
Proof.
  intros s o Ho. simpl in Ho.
  assert (Hv : ps_config (step s o) = S (newest s)) by (destruct Ho as [<-|[<-|[<-|[]]]]; reflexivity).
  split; [rewrite Hv; lia|].
  assert (Ht : forall t, In t (ps_tags (step s o)) -> (t <= ps_config (step s o))%nat).
  { rewrite Hv. intros t Ht.
    destruct Ho as [<-|[<-|[<-|[]]]]; simpl in Ht;
      try (apply newest_ge_tag in Ht; lia).
    apply in_app_or in Ht. destruct Ht as [Ht|[<-|[]]]; [apply newest_ge_tag in Ht; lia|].
    unfold next_version. lia. }
  unfold newest at 1. symmetry. apply fold_max_eq. exact Ht.
Qed.

Theorem fail_changes_nothing : forall s, step s OFail = s.
Proof. reflexivity. Qed.

(* invariant of every history: the tags strictly increase and none exceeds the config version *)
Definition tags_inv (s : pstate) : Prop :=
  StronglySorted lt (ps_tags s) /\ (forall t, In t (ps_tags s) -> (t <= ps_config s)%nat).

Lemma sorted_snoc : forall l v, StronglySorted lt l -> (forall t, In t l -> (t < v)%nat) -> StronglySorted lt (l ++ [v]).
Proof.
  induction l as [|x l IH]; intros v Hs Hl; simpl.
  - constructor; constructor.
  - inversion Hs as [|? ? Hs' Hx]; subst. constructor.
    + apply IH; [exact Hs'|]. intros t Ht. apply Hl. right. exact Ht.
    + apply Forall_app. split; [exact Hx|]. constructor; [|constructor]. apply Hl. left. reflexivity.
Qed.

Lemma step_preserves_tags_inv : forall s o, tags_inv s -> tags_inv (step s o).
Proof.
  intros s o [Hs Hl].
  assert (Hn : forall t, In t (ps_tags s) -> (t < next_version s)%nat).
  { intros t Ht. apply newest_ge_tag in Ht. unfold next_version. lia. }
  destruct o; unfold tags_inv; simpl; try (split; assumption).
  - split.
    + apply sorted_snoc; assumption.
    + intros t Ht. apply in_app_or in Ht. destruct Ht as [Ht|[<-|[]]]; [apply Hn in Ht; lia|lia].
  - split; [exact Hs|]. intros t Ht. apply Hn in Ht. lia.
  - split; [exact Hs|]. intros t Ht. apply Hn in Ht. lia.
Qed.

Lemma run_preserves_tags_inv : forall ops s, tags_inv s -> tags_inv (run_ops ops s).
Proof.
  unfold run_ops. induction ops as [|o ops IH]; intros s H; simpl; [exact H|].
  apply IH. apply step_preserves_tags_inv. exact H.
Qed.

Lemma init_tags_inv : tags_inv init_state.
Proof. split; simpl; [constructor|intros t []]. Qed.

Theorem tags_sorted : forall ops, StronglySorted lt (ps_tags (run_ops ops init_state)).
Proof. intros ops. apply (run_preserves_tags_inv ops init_state init_tags_inv). Qed.

Theorem tags_below_config : forall ops t, In t (ps_tags (run_ops ops init_state)) -> (t <= ps_config (run_ops ops init_state))%nat.
Proof. intros ops. apply (run_preserves_tags_inv ops init_state init_tags_inv). Qed.

Theorem one_commit_per_update : forall s,
  ps_commits (step s OUpdate) = S (ps_commits s) /\ ps_tags (step s OUpdate) = ps_tags s ++ [ps_config (step s OUpdate)].
Proof. intros s. split; reflexivity. Qed.

Theorem next_update_possible : forall ops, let s := run_ops ops init_state in ps_config (step s OUpdate) = S (ps_config s).
Proof.
  intros ops s. simpl. unfold next_version, newest. f_equal.
  apply fold_max_eq. apply tags_below_config.
Qed.

(* ================================================================== C20 *)
Lemma mem_chr_app : forall c a b, mem_chr c (a ++ b) = mem_chr c a || mem_chr c b.
Proof. intros. unfold mem_chr. apply existsb_app. Qed.

Lemma prefixb_mem_chr : forall c p s, prefixb p s = true -> mem_chr c p = true -> mem_chr c s = true.
Proof.
  intros c. induction p as [|x p IH]; intros s Hp Hm; simpl in *; [discriminate|].
  destruct s as [|y s]; [discriminate|].
  apply andb_true_iff in Hp. destruct Hp as [Hxy Hp]. apply N.eqb_eq in Hxy. subst y.
  simpl. apply orb_true_iff in Hm. destruct Hm as [Hm|Hm]; [rewrite Hm; reflexivity|].
  rewrite (IH s Hp Hm). apply orb_true_r.
Qed.

Lemma str_in_mem_chr : forall c needle s, str_in needle s = true -> mem_chr c needle = true -> mem_chr c s = true.
Proof.
  intros c needle s. unfold str_in. induction s as [|y s IH]; intros H Hm.
  - simpl in H. destruct (prefixb needle []) eqn:Hp; [|discriminate]. exact (prefixb_mem_chr c _ _ Hp Hm).
  - simpl in H. destruct (prefixb needle (y :: s)) eqn:Hp; [exact (prefixb_mem_chr c _ _ Hp Hm)|].
    destruct (sfind needle s) eqn:Hs; [|discriminate].
    simpl. rewrite (IH eq_refl Hm). apply orb_true_r.
Qed.

Lemma str_in_brace_has_braces : forall name raw, str_in (brace name) raw = true -> mem_chr 123 raw = true /\ mem_chr 125 raw = true.
Proof.
  intros name raw H. split; apply (str_in_mem_chr _ _ _ H); unfold brace.
  - reflexivity.
  - rewrite !mem_chr_app. simpl. rewrite orb_true_r. reflexivity.
Qed.

Theorem dispatch_consistent_v1 : forall raw, has_v1_part raw = true -> is_new_pattern raw = false.
Proof.
  intros raw H. unfold has_v1_part in H. apply existsb_exists in H. destruct H as [p [_ Hp]].
  apply str_in_brace_has_braces in Hp. destruct Hp as [Hl _].
  unfold is_new_pattern, has_brace_l. rewrite Hl. reflexivity.
Qed.

Theorem dispatch_consistent_v2 : forall raw, is_new_pattern raw = true -> has_v1_part raw = false.
Proof.
  intros raw H. destruct (has_v1_part raw) eqn:Hv; [|reflexivity].
  rewrite (dispatch_consistent_v1 raw Hv) in H. discriminate H.
Qed.

(* pycalver semver year month dom doy quarter build_no release MAJOR MINOR PATCH pep440_pycalver pep440_version *)
Definition repo_part_names : list (list N) :=
  [ [112;121;99;97;108;118;101;114]; [115;101;109;118;101;114]; [121;101;97;114]; [109;111;110;116;104]; [100;111;109]; [100;111;121];
    [113;117;97;114;116;101;114]; [98;117;105;108;100;95;110;111]; [114;101;108;101;97;115;101]; [77;65;74;79;82]; [77;73;78;79;82];
    [80;65;84;67;72]; [112;101;112;52;52;48;95;112;121;99;97;108;118;101;114]; [112;101;112;52;52;48;95;118;101;114;115;105;111;110] ].

Theorem repo_v1_parts_known : forallb (fun p => existsb (eqb_str p) v1_parts) repo_part_names = true.
Proof. vm_compute. reflexivity. Qed.

Definition v1_noflags : flags := mkflags false false false None false false false.
Definition s_pyc_pattern := [123;112;121;99;97;108;118;101;114;125].                       (* {pycalver} *)
Definition s_pyc_version := [118;50;48;49;55;49;50;46;48;48;51;51;45;98;101;116;97].      (* v201712.0033-beta *)
Definition s_sem_pattern := [123;115;101;109;118;101;114;125].                              (* {semver} *)

Definition s_123 := [49;46;50;46;51].                                                        (* 1.2.3 *)
(* 2018-06-01 as a day ordinal (days since 0001-01-01) *)
Definition d_2018_06_01 : Z := 736845%Z.

Definition pyc_info : v1info :=
  mkv1 (Some 2017%Z) (Some 4%Z) (Some 12%Z) None None None None 0%Z 0%Z 0%Z [48;48;51;51] [98;101;116;97].

(* v201712.0033-beta reads as year 2017, month 12, build 0033, tag beta and renders back to itself;
   incremented in June 2018 it becomes v201806.0034-beta *)
Example pycalver_roundtrip :
  v1_parse_version_info s_pyc_version s_pyc_pattern = POk pyc_info /\
  v1_format_version pyc_info s_pyc_pattern = Some s_pyc_version /\
  v1_incr s_pyc_version s_pyc_pattern v1_noflags d_2018_06_01 =
    INew [118;50;48;49;56;48;54;46;48;48;51;52;45;98;101;116;97].
Proof. vm_compute. repeat split; reflexivity. Qed.

(* 1.2.3 -> 1.2.4 (patch), 1.3.0 (minor), 2.0.0 (major); without a flag nothing changes *)
Example semver_bump :
  v1_incr s_123 s_sem_pattern (mkflags false false true None false false false) d_2018_06_01 = INew [49;46;50;46;52] /\
  v1_incr s_123 s_sem_pattern (mkflags false true false None false false false) d_2018_06_01 = INew [49;46;51;46;48] /\
  v1_incr s_123 s_sem_pattern (mkflags true false false None false false false) d_2018_06_01 = INew [50;46;48;46;48] /\
  v1_incr s_123 s_sem_pattern v1_noflags d_2018_06_01 = INone.
Proof. vm_compute. repeat split; reflexivity. Qed.
