(* Order-theoretic facts about the setuptools/packaging version comparison modelled in Model/Pep440.v:
   cmp_key is a total order on keys, lifted to all strings through version_key, and the
   ordering rules PEP 440 prescribes hold on parsed versions for all numbers. *)
From Coq Require Import List Bool NArith Arith Lia.
From BV Require Import Lib.PyStr Model.Pep440.
Import ListNotations.
Local Open Scope N_scope.

(* ------------------------------------------------------------------ total-order comparisons *)
Record ord {A} (cmp : A -> A -> comparison) : Prop := mk_ord {
  o_refl : forall a, cmp a a = Eq;
  o_anti : forall a b, cmp b a = CompOpp (cmp a b);
  o_eq : forall a b, cmp a b = Eq -> a = b;
  o_trans : forall a b c, cmp a b = Lt -> cmp b c = Lt -> cmp a c = Lt }.
Arguments o_refl {A cmp}.
Arguments o_anti {A cmp}.
Arguments o_eq {A cmp}.
Arguments o_trans {A cmp}.

Lemma ord_N : ord N.compare.
Proof.
  split.
  - apply N.compare_refl.
  - intros a b. apply N.compare_antisym.
  - apply N.compare_eq.
  - intros a b c H1 H2. rewrite N.compare_lt_iff in *. lia.
Qed.

Lemma ord_list {A} (cmp : A -> A -> comparison) : ord cmp -> ord (cmp_list cmp).
Proof.
  intros O. split.
  - intros a. induction a as [|x a IH]; simpl; auto. rewrite (o_refl O). exact IH.
  - intros a. induction a as [|x a IH]; intros [|y b]; simpl; auto.
    rewrite (o_anti O x y). destruct (cmp x y); simpl; auto.
  - intros a. induction a as [|x a IH]; intros [|y b]; simpl; try discriminate; auto.
    destruct (cmp x y) eqn:E; try discriminate. intros H.
    apply (o_eq O) in E. apply IH in H. subst. reflexivity.
  - intros a. induction a as [|x a IH]; intros [|y b] [|z c]; simpl; try discriminate; auto.
    destruct (cmp x y) eqn:E1; destruct (cmp y z) eqn:E2; try discriminate; intros H1 H2.
    + apply (o_eq O) in E1. apply (o_eq O) in E2. subst. rewrite (o_refl O). eapply IH; eauto.
    + apply (o_eq O) in E1. subst. rewrite E2. reflexivity.
    + apply (o_eq O) in E2. subst. rewrite E1. reflexivity.
    + rewrite (o_trans O _ _ _ E1 E2). reflexivity.
Qed.

(* lexicographic combination *)
Lemma lexc_anti {A} (cmp : A -> A -> comparison) (O : ord cmp) a b R R' :
  R' = CompOpp R -> lexc (cmp b a) R' = CompOpp (lexc (cmp a b) R).
Proof. intros ->. rewrite (o_anti O a b). destruct (cmp a b); reflexivity. Qed.

Lemma lexc_eq {A} (cmp : A -> A -> comparison) (O : ord cmp) a b R :
  lexc (cmp a b) R = Eq -> a = b /\ R = Eq.
Proof. destruct (cmp a b) eqn:E; simpl; try discriminate. intros H. split; auto. apply (o_eq O); auto. Qed.

Lemma lexc_trans {A} (cmp : A -> A -> comparison) (O : ord cmp) a b c R1 R2 R3 :
  (R1 = Lt -> R2 = Lt -> R3 = Lt) ->
  lexc (cmp a b) R1 = Lt -> lexc (cmp b c) R2 = Lt -> lexc (cmp a c) R3 = Lt.
Proof.
  intros HR. destruct (cmp a b) eqn:E1; destruct (cmp b c) eqn:E2; simpl; try discriminate; intros H1 H2.
  - apply (o_eq O) in E1. apply (o_eq O) in E2. subst. rewrite (o_refl O). simpl. auto.
  - apply (o_eq O) in E1. subst. rewrite E2. reflexivity.
  - apply (o_eq O) in E2. subst. rewrite E1. reflexivity.
  - rewrite (o_trans O _ _ _ E1 E2). reflexivity.
Qed.

(* ------------------------------------------------------------------ strings *)
Lemma cmp_str_list : forall a b, cmp_str a b = cmp_list N.compare a b.
Proof.
  induction a as [|x a IH]; intros [|y b]; try reflexivity.
  unfold cmp_str in *. simpl. destruct (N.compare_spec x y) as [E|L|G].
  - subst. rewrite N.ltb_irrefl, N.eqb_refl. simpl. apply IH.
  - assert (H : (x <? y) = true) by (apply N.ltb_lt; exact L). rewrite H. reflexivity.
  - assert (H1 : (x <? y) = false) by (apply N.ltb_ge; lia).
    assert (H2 : (x =? y) = false) by (apply N.eqb_neq; lia).
    assert (H3 : (y <? x) = true) by (apply N.ltb_lt; exact G).
    rewrite H1, H2, H3. reflexivity.
Qed.

Lemma ord_str : ord cmp_str.
Proof.
  pose proof (ord_list N.compare ord_N) as O. split.
  - intros a. rewrite cmp_str_list. apply (o_refl O).
  - intros a b. rewrite !cmp_str_list. apply (o_anti O).
  - intros a b. rewrite cmp_str_list. apply (o_eq O).
  - intros a b c. rewrite !cmp_str_list. apply (o_trans O).
Qed.

(* lt_str is a strict total order *)
Lemma cmp_str_lt : forall a b, cmp_str a b = Lt <-> lt_str a b = true.
Proof.
  intros a b. unfold cmp_str. destruct (lt_str a b); [tauto|].
  destruct (lt_str b a); split; discriminate.
Qed.
Lemma lt_str_irrefl : forall a, lt_str a a = false.
Proof.
  intros a. destruct (lt_str a a) eqn:E; auto.
  apply cmp_str_lt in E. rewrite (o_refl ord_str) in E. discriminate.
Qed.
Lemma lt_str_trans : forall a b c, lt_str a b = true -> lt_str b c = true -> lt_str a c = true.
Proof. intros a b c H1 H2. apply cmp_str_lt in H1, H2. apply cmp_str_lt. exact (o_trans ord_str _ _ _ H1 H2). Qed.
Lemma lt_str_asym : forall a b, lt_str a b = true -> lt_str b a = false.
Proof.
  intros a b H. destruct (lt_str b a) eqn:E; auto.
  pose proof (lt_str_trans _ _ _ H E) as H1. rewrite lt_str_irrefl in H1. discriminate.
Qed.
Lemma lt_str_trich : forall a b, lt_str a b = false -> lt_str b a = false -> a = b.
Proof. intros a b H1 H2. apply (o_eq ord_str). unfold cmp_str. rewrite H1, H2. reflexivity. Qed.

(* ------------------------------------------------------------------ key components *)
Lemma cmp_ppd_tag l n l' n' : cmp_ppd (PTag l n) (PTag l' n') = lexc (cmp_str l l') (N.compare n n').
Proof. simpl. destruct (cmp_str l l'); reflexivity. Qed.

Lemma ord_ppd : ord cmp_ppd.
Proof.
  split.
  - intros [|l n|]; try reflexivity. rewrite cmp_ppd_tag, (o_refl ord_str). apply N.compare_refl.
  - intros [|l n|] [|l' n'|]; try reflexivity. rewrite !cmp_ppd_tag.
    apply (lexc_anti _ ord_str). apply N.compare_antisym.
  - intros [|l n|] [|l' n'|]; try discriminate; auto. rewrite cmp_ppd_tag. intros H.
    apply (lexc_eq _ ord_str) in H. destruct H as [-> H]. apply N.compare_eq in H. subst. reflexivity.
  - intros [|l n|] [|l' n'|] [|l'' n''|]; try discriminate; auto. rewrite !cmp_ppd_tag.
    apply (lexc_trans _ ord_str). apply (o_trans ord_N).
Qed.

Lemma ord_lpart : ord cmp_lpart.
Proof.
  split.
  - intros [s|n]; simpl. apply (o_refl ord_str). apply N.compare_refl.
  - intros [s|n] [t|m]; simpl; auto. apply (o_anti ord_str). apply N.compare_antisym.
  - intros [s|n] [t|m]; simpl; try discriminate; intros H.
    + apply (o_eq ord_str) in H. subst; auto.
    + apply N.compare_eq in H. subst; auto.
  - intros [s|n] [t|m] [u|k]; simpl; try discriminate; auto.
    + apply (o_trans ord_str).
    + apply (o_trans ord_N).
Qed.

Lemma ord_local : ord cmp_local.
Proof.
  pose proof (ord_list _ ord_lpart) as O. split.
  - intros [x|]; simpl; auto. apply (o_refl O).
  - intros [x|] [y|]; simpl; auto. apply (o_anti O).
  - intros [x|] [y|]; simpl; try discriminate; auto. intros H. apply (o_eq O) in H. subst; auto.
  - intros [x|] [y|] [z|]; simpl; try discriminate; auto. apply (o_trans O).
Qed.

Lemma cmp_key_ver e r p po d l e' r' p' po' d' l' :
  cmp_key (KVer e r p po d l) (KVer e' r' p' po' d' l') =
  lexc (N.compare e e') (lexc (cmp_list N.compare r r') (lexc (cmp_ppd p p') (lexc (cmp_ppd po po') (lexc (cmp_ppd d d') (cmp_local l l'))))).
Proof. reflexivity. Qed.

Lemma ord_key : ord cmp_key.
Proof.
  pose proof (ord_list _ ord_str) as OL. pose proof (ord_list _ ord_N) as OR.
  split.
  - intros [x|e r p po d l].
    + apply (o_refl OL).
    + rewrite cmp_key_ver, N.compare_refl, (o_refl OR), !(o_refl ord_ppd). simpl. apply (o_refl ord_local).
  - intros [x|e r p po d l] [y|e' r' p' po' d' l']; try reflexivity.
    + apply (o_anti OL).
    + rewrite !cmp_key_ver.
      apply (lexc_anti _ ord_N). apply (lexc_anti _ OR).
      apply (lexc_anti _ ord_ppd). apply (lexc_anti _ ord_ppd). apply (lexc_anti _ ord_ppd).
      apply (o_anti ord_local).
  - intros [x|e r p po d l] [y|e' r' p' po' d' l']; try discriminate.
    + simpl. intros H. apply (o_eq OL) in H. subst; auto.
    + rewrite cmp_key_ver. intros H.
      apply (lexc_eq _ ord_N) in H. destruct H as [-> H].
      apply (lexc_eq _ OR) in H. destruct H as [-> H].
      apply (lexc_eq _ ord_ppd) in H. destruct H as [-> H].
      apply (lexc_eq _ ord_ppd) in H. destruct H as [-> H].
      apply (lexc_eq _ ord_ppd) in H. destruct H as [-> H].
      apply (o_eq ord_local) in H. subst. reflexivity.
  - intros [x|e r p po d l] [y|e' r' p' po' d' l'] [z|e'' r'' p'' po'' d'' l'']; try discriminate; auto.
    + apply (o_trans OL).
    + rewrite !cmp_key_ver.
      apply (lexc_trans _ ord_N). apply (lexc_trans _ OR).
      apply (lexc_trans _ ord_ppd). apply (lexc_trans _ ord_ppd). apply (lexc_trans _ ord_ppd).
      apply (o_trans ord_local).
Qed.

(* ------------------------------------------------------------------ cmp_key is a total order on keys *)
Theorem cmp_key_refl : forall a, cmp_key a a = Eq.
Proof. exact (o_refl ord_key). Qed.
Theorem cmp_key_antisym : forall a b, cmp_key b a = CompOpp (cmp_key a b).
Proof. exact (o_anti ord_key). Qed.
Theorem cmp_key_eq_iff : forall a b, cmp_key a b = Eq <-> a = b.
Proof. intros a b. split. apply (o_eq ord_key). intros ->. apply cmp_key_refl. Qed.
Theorem cmp_key_trans_lt : forall a b c, cmp_key a b = Lt -> cmp_key b c = Lt -> cmp_key a c = Lt.
Proof. exact (o_trans ord_key). Qed.

Theorem key_le_refl : forall a, key_le a a = true.
Proof. intros a. unfold key_le. rewrite cmp_key_refl. reflexivity. Qed.
Theorem key_le_trans : forall a b c, key_le a b = true -> key_le b c = true -> key_le a c = true.
Proof.
  intros a b c. unfold key_le.
  destruct (cmp_key a b) eqn:E1; destruct (cmp_key b c) eqn:E2; try discriminate; intros _ _.
  - apply cmp_key_eq_iff in E1. apply cmp_key_eq_iff in E2. subst. rewrite cmp_key_refl. reflexivity.
  - apply cmp_key_eq_iff in E1. subst. rewrite E2. reflexivity.
  - apply cmp_key_eq_iff in E2. subst. rewrite E1. reflexivity.
  - rewrite (cmp_key_trans_lt _ _ _ E1 E2). reflexivity.
Qed.
Theorem key_le_total : forall a b, key_le a b = true \/ key_le b a = true.
Proof.
  intros a b. unfold key_le. rewrite (cmp_key_antisym a b).
  destruct (cmp_key a b); simpl; auto.
Qed.
Theorem key_le_antisym : forall a b, key_le a b = true -> key_le b a = true -> a = b.
Proof.
  intros a b. unfold key_le. rewrite (cmp_key_antisym a b).
  destruct (cmp_key a b) eqn:E; simpl; try discriminate; intros _ _.
  apply cmp_key_eq_iff. exact E.
Qed.
Theorem legacy_below_pep440 : forall parts e r p po d l, cmp_key (KLegacy parts) (KVer e r p po d l) = Lt.
Proof. reflexivity. Qed.

Lemma key_lt_not_le : forall a b, key_lt a b = negb (key_le b a).
Proof.
  intros a b. unfold key_lt, key_le. rewrite (cmp_key_antisym a b).
  destruct (cmp_key a b); reflexivity.
Qed.

(* ------------------------------------------------------------------ lifted to ALL strings through version_key *)
Theorem ver_le_refl : forall s, ver_le s s = true.
Proof. intros s. apply key_le_refl. Qed.
Theorem ver_le_trans : forall a b c, ver_le a b = true -> ver_le b c = true -> ver_le a c = true.
Proof. intros a b c. apply key_le_trans. Qed.
Theorem ver_le_total : forall a b, ver_le a b = true \/ ver_le b a = true.
Proof. intros a b. apply key_le_total. Qed.
Theorem ver_eq_iff_key : forall a b, (ver_le a b = true /\ ver_le b a = true) <-> version_key a = version_key b.
Proof.
  intros a b. unfold ver_le. split.
  - intros [H1 H2]. apply key_le_antisym; assumption.
  - intros ->. split; apply key_le_refl.
Qed.
Theorem ver_lt_iff_not_le : forall a b, ver_lt a b = negb (ver_le b a).
Proof. intros a b. apply key_lt_not_le. Qed.
Theorem non_pep440_below : forall a b, is_pep440 a = false -> is_pep440 b = true -> ver_lt a b = true.
Proof.
  intros a b. unfold ver_lt, version_key, is_pep440.
  destruct (parse_pep440 a) as [v|]; [intros H; discriminate H|]. intros _.
  destruct (parse_pep440 b) as [w|]; [|intros H; discriminate H]. intros _.
  unfold legacy_key, cmpkey. reflexivity.
Qed.

(* ------------------------------------------------------------------ PEP 440 ordering rules on parsed versions *)
Definition base (e : N) (r : list N) pre post dev := mkpver e r pre post dev None.

(* two keys with the same epoch and release: decided by the suffix parts *)
Lemma key_lt_same_er e r p po d l p' po' d' l' :
  key_lt (KVer e r p po d l) (KVer e r p' po' d' l') =
  match lexc (cmp_ppd p p') (lexc (cmp_ppd po po') (lexc (cmp_ppd d d') (cmp_local l l'))) with Lt => true | _ => false end.
Proof.
  unfold key_lt. rewrite cmp_key_ver, N.compare_refl, (o_refl (ord_list _ ord_N)). reflexivity.
Qed.

Lemma cmpkey_eq e r pre post dev l :
  cmpkey (mkpver e r pre post dev l) =
  KVer e (drop_trailing_zeros r)
       (match pre, post, dev with
        | None, None, Some _ => PNegInf
        | None, _, _ => PPosInf
        | Some (l, n), _, _ => PTag l n
        end)
       (tag_of post PNegInf) (tag_of dev PPosInf) l.
Proof. reflexivity. Qed.

Theorem pep440_suffix_chain : forall e r n1 n2 n3 n4 n5,
  key_lt (cmpkey (base e r None None (Some (s_dev, n1)))) (cmpkey (base e r (Some (s_a, n2)) None None)) = true /\
  key_lt (cmpkey (base e r (Some (s_a, n2)) None None)) (cmpkey (base e r (Some (s_b, n3)) None None)) = true /\
  key_lt (cmpkey (base e r (Some (s_b, n3)) None None)) (cmpkey (base e r (Some (s_rc, n4)) None None)) = true /\
  key_lt (cmpkey (base e r (Some (s_rc, n4)) None None)) (cmpkey (base e r None None None)) = true /\
  key_lt (cmpkey (base e r None None None)) (cmpkey (base e r None (Some (s_post, n5)) None)) = true.
Proof.
  intros. unfold base. rewrite !cmpkey_eq, !key_lt_same_er. repeat split; reflexivity.
Qed.

Theorem pep440_number_order : forall e r l n m, (n < m)%N ->
  key_lt (cmpkey (base e r (Some (l, n)) None None)) (cmpkey (base e r (Some (l, m)) None None)) = true /\
  key_lt (cmpkey (base e r None (Some (l, n)) None)) (cmpkey (base e r None (Some (l, m)) None)) = true /\
  key_lt (cmpkey (base e r None None (Some (l, n)))) (cmpkey (base e r None None (Some (l, m)))) = true.
Proof.
  intros e r l n m H. apply N.compare_lt_iff in H.
  assert (T : cmp_ppd (PTag l n) (PTag l m) = Lt).
  { rewrite cmp_ppd_tag, (o_refl ord_str). exact H. }
  unfold base. rewrite !cmpkey_eq, !key_lt_same_er. unfold tag_of.
  repeat split.
  - rewrite T. reflexivity.
  - rewrite T. reflexivity.
  - rewrite T. reflexivity.
Qed.

Theorem pep440_dev_below_same : forall e r pre post n,
  key_lt (cmpkey (base e r pre post (Some (s_dev, n)))) (cmpkey (base e r pre post None)) = true.
Proof.
  intros e r pre post n. unfold base. rewrite !cmpkey_eq, key_lt_same_er.
  destruct pre as [[l k]|]; destruct post as [[l' k']|]; unfold tag_of;
    rewrite ?(o_refl ord_ppd); reflexivity.
Qed.

Lemma drop_trailing_zeros_snoc0 : forall r, drop_trailing_zeros (r ++ [0]) = drop_trailing_zeros r.
Proof. intros r. unfold drop_trailing_zeros. rewrite rev_unit. reflexivity. Qed.

Theorem pep440_trailing_zeros : forall e r pre post dev l,
  cmpkey (mkpver e (r ++ [0%N]) pre post dev l) = cmpkey (mkpver e r pre post dev l).
Proof. intros. rewrite !cmpkey_eq, drop_trailing_zeros_snoc0. reflexivity. Qed.

Theorem pep440_epoch_dominates : forall e e' r r' p p' po po' d d' l l', (e < e')%N ->
  key_lt (cmpkey (mkpver e r p po d l)) (cmpkey (mkpver e' r' p' po' d' l')) = true.
Proof.
  intros e e' r r' p p' po po' d d' l l' H. apply N.compare_lt_iff in H.
  rewrite !cmpkey_eq. unfold key_lt. rewrite cmp_key_ver, H. reflexivity.
Qed.

Theorem pep440_local_above_public : forall e r p po d l,
  key_lt (cmpkey (mkpver e r p po d None)) (cmpkey (mkpver e r p po d (Some l))) = true.
Proof.
  intros. rewrite !cmpkey_eq, key_lt_same_er, !(o_refl ord_ppd). reflexivity.
Qed.

Lemma pop_whileN_snoc : forall m x,
  pop_whileN (m ++ [x]) = match pop_whileN m with [] => if x =? 0 then [] else [x] | l' => l' ++ [x] end.
Proof.
  induction m as [|a m IH]; intros x; simpl.
  - destruct (x =? 0); reflexivity.
  - destruct (a =? 0). apply IH. reflexivity.
Qed.

Lemma drop_trailing_zeros_cons : forall x r,
  drop_trailing_zeros (x :: r) =
  match drop_trailing_zeros r with [] => if x =? 0 then [] else [x] | l => x :: l end.
Proof.
  intros x r. unfold drop_trailing_zeros. simpl rev. rewrite pop_whileN_snoc.
  destruct (pop_whileN (rev r)) as [|y l].
  - simpl. destruct (x =? 0); reflexivity.
  - rewrite rev_unit. simpl rev. destruct (rev l); reflexivity.
Qed.

Lemma release_first_decides : forall a b r r', (a < b)%N ->
  cmp_list N.compare (drop_trailing_zeros (a :: r)) (drop_trailing_zeros (b :: r')) = Lt.
Proof.
  intros a b r r' H. rewrite !drop_trailing_zeros_cons.
  assert (Hb : (b =? 0) = false) by (apply N.eqb_neq; lia).
  apply N.compare_lt_iff in H. rewrite Hb.
  destruct (drop_trailing_zeros r); destruct (drop_trailing_zeros r'); destruct (a =? 0); simpl; rewrite ?H; reflexivity.
Qed.

Theorem pep440_release_order : forall e a b r r' p p' po po' d d' l l', (a < b)%N ->
  key_lt (cmpkey (mkpver e (a :: r) p po d l)) (cmpkey (mkpver e (b :: r') p' po' d' l')) = true.
Proof.
  intros e a b r r' p p' po po' d d' l l' H.
  rewrite !cmpkey_eq. unfold key_lt. rewrite cmp_key_ver, N.compare_refl, (release_first_decides _ _ _ _ H). reflexivity.
Qed.
