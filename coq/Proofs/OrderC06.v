(* Call-order facts C06 rests on, over the call orders T1 extracts from the source (translate/t1_calls.py).
   Each states the relative order and multiplicity of exactly the steps that matter for the property;
   steps that do not matter may move without breaking it. *)
From Coq Require Import List NArith Strings.String.
From BV Require Import Lib.PyStr Lib.StrLit Gen.Tables.
Import ListNotations.
Local Open Scope string_scope.

(* in cli._update files are rewritten after the dirty check and before any VCS write *)
Theorem c06_order__update :
  restrict (lits ["vcs.assert_not_dirty"; "v2rewrite.rewrite_files"; "v1rewrite.rewrite_files"; "vcs.commit"]) ORDER_CLI__UPDATE
  = lits ["vcs.assert_not_dirty"; "v2rewrite.rewrite_files"; "v1rewrite.rewrite_files"; "vcs.commit"].
Proof. vm_compute. reflexivity. Qed.
