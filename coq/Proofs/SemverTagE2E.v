(* End-to-end theorem for the README SemVer pattern WITH a release tag, MAJOR.MINOR.PATCH[PYTAGNUM]
   (versions such as 1.2.3, 1.2.3b0, 1.2.3rc2, 1.2.3post1, 1.2.3dev0): for ALL numbers a.b.c, every
   tag state (final, or one of a b rc post dev followed by ANY number) and EVERY combination of the
   flags --major --minor --patch --tag T (T any of cli.VALID_RELEASE_TAG_VALUES) --tag-num
   --pin-increments, with or without --date, the model of `bumpver test OLD PATTERN <flags>` is
   computed in closed form.

   Chain:  svt_parse    (regex compile + preferred match + field values -> record)
           svt_format   (record -> text; the optional group is left out exactly for pytag empty, tag final, num 0)
           svt_incr     (v2version.incr, all flags)
           svt_order    (PEP 440 order of two such strings: release numbers, then tag rank, then tag number)
           svt_test_cmd (cli.test: flag validation, incr, the is_valid_version gate, to_pep440).
   Nothing here is computed on samples: all numbers are universally quantified. *)
From Coq Require Import List Bool NArith ZArith Arith Lia.
From BV Require Import Lib.PyStr Lib.Decimal Lib.Types Lib.Regex Lib.RegexParse Lib.Calendar Model.Lexid Gen.Tables
  Model.V2 Model.Pep440 Model.Cli.
From BV Require Import Proofs.RegexFacts Proofs.DecimalFacts Proofs.Pep440Facts Proofs.DottedFacts Proofs.IncrFacts
  Proofs.ResetFacts Proofs.CalendarFacts Proofs.DottedJoinFacts Proofs.TaggedFacts.
Import ListNotations.
Local Open Scope N_scope.

(* MAJOR.MINOR.PATCH[PYTAGNUM] *)
Definition P : list N := [77;65;74;79;82;46;77;73;78;79;82;46;80;65;84;67;72;91;80;89;84;65;71;78;85;77;93].

(* ------------------------------------------------------------------ tags and version strings *)
(* the five texts of the PYTAG part *)
Inductive ptag := Pa | Pb | Prc | Ppost | Pdev.
(* what PYTAG prints *)
Definition ptext (p : ptag) : list N :=
  match p with Pa => [97] | Pb => [98] | Prc => [114;99] | Ppost => [112;111;115;116] | Pdev => [100;101;118] end.
(* the release tag (None = final) as bumpver names it: the values of --tag *)
Definition ltext (o : option ptag) : list N :=
  match o with
  | None => s_final
  | Some Pa => [97;108;112;104;97] | Some Pb => [98;101;116;97] | Some Prc => [114;99]
  | Some Ppost => [112;111;115;116] | Some Pdev => [100;101;118]
  end.
Definition potext (o : option ptag) : list N := match o with Some p => ptext p | None => [] end.

(* tag state of a version: None = final, Some (p, n) = PYTAG p followed by NUM n *)
Notation tstate := (option (ptag * N)) (only parsing).
Definition otag (t : tstate) : option ptag := match t with Some (p, _) => Some p | None => None end.
Definition tnum (t : tstate) : N := match t with Some (_, n) => n | None => 0 end.
Definition tsuffix (t : tstate) : list N := match t with Some (p, n) => ptext p ++ dec n | None => [] end.

(* a.b.c  or  a.b.c<pytag><num> *)
Definition svt (a b c : N) (t : tstate) : list N := dotted [a; b; c] ++ tsuffix t.

(* ------------------------------------------------------------------ calendar: month is never 0 *)
Lemma civil_month n : (1 <= snd (fst (civil n)) <= 12)%Z.
Proof.
  unfold civil. cbv zeta. cbn [fst snd].
  set (doe := ((n + 306) mod 146097)%Z).
  assert (Hdoe : (0 <= doe < 146097)%Z) by (apply Z.mod_pos_bound; lia).
  clearbody doe.
  set (yoe := ((doe - doe / 1460 + doe / 36524 - doe / 146096) / 365)%Z).
  set (doy := (doe - (365 * yoe + yoe / 4 - yoe / 100))%Z).
  assert (Hdoy : (0 <= doy <= 365)%Z).
  { unfold doy, yoe. Z.div_mod_to_equations; lia. }
  clearbody doy.
  set (mp := ((5 * doy + 2) / 153)%Z).
  assert (Hmp : (0 <= mp <= 11)%Z) by (unfold mp; Z.div_mod_to_equations; lia).
  clearbody mp.
  destruct (Z.ltb_spec mp 10); lia.
Qed.
Lemma month_range n : (1 <= month (cal_of n) <= 12)%Z.
Proof. pose proof (civil_month n) as H. rewrite (cal_of_civil n) in H. exact H. Qed.
Lemma quarter_of_month n : quarter (cal_of n) = quarter_from_month (month (cal_of n)).
Proof.
  unfold cal_of. destruct (civil n) as [[y m] d].
  cbv zeta.
  match goal with |- context [if ?b then _ else _] => destruct b end; [reflexivity|].
  match goal with |- context [if ?b then _ else _] => destruct b end; reflexivity.
Qed.

(* ------------------------------------------------------------------ the compiled regex *)
(* dev|post|rc|a|b *)
Definition R_py : re :=
  Alt (lit [100;101;118]) (Alt (lit [112;111;115;116]) (Alt (lit [114;99]) (Alt (lit [97]) (lit [98])))).
Definition R_opt : re := Cat (Grp n_pytag R_py) (Cat (Grp n_num D1) Eps).
Definition R_svt : re :=
  Cat (Grp n_major D1) (Cat (chr_re 46) (Cat (Grp n_minor D1) (Cat (chr_re 46) (Cat (Grp n_patch D1)
    (Cat (Alt R_opt Eps) Eps))))).
Lemma compile_svt : compile_pattern_re (normalize_pattern P P) = Some R_svt.
Proof. vm_compute. reflexivity. Qed.

Lemma dotted3 a b c : dotted [a; b; c] = dec a ++ 46 :: (dec b ++ 46 :: dec c).
Proof. reflexivity. Qed.

Lemma first_grpD1 name n tail f n0 : nodigit_head tail = true -> (length (dec n) <= f)%nat ->
  first_match f n0 (Grp name D1) (dec n ++ tail) = Some ([(name, dec n)], tail).
Proof.
  intros Ht Hf. rewrite <- (take_consumed_app (dec n) tail) at 2.
  apply first_grp. unfold D1. apply first_cat_eps.
  apply first_plus_digits; [apply dec_all_digits|apply dec_nonempty|exact Ht|exact Hf].
Qed.
Lemma first_dot f n0 t : first_match f n0 (chr_re 46) (46 :: t) = Some ([], t).
Proof. unfold first_match, chr_re. rewrite rems_cls, cls_single. reflexivity. Qed.

(* the PYTAG alternation on a tag text followed by anything: exactly one way to match *)
Lemma sev_py p : sev R_py (ptext p) = Some [([], [])].
Proof. destruct p; vm_compute; reflexivity. Qed.
Lemma first_py p rest f n0 :
  first_match f n0 (Grp n_pytag R_py) (ptext p ++ rest) = Some ([(n_pytag, ptext p)], rest).
Proof.
  rewrite <- (take_consumed_app (ptext p) rest) at 2. apply first_grp.
  unfold first_match. rewrite (sev_sound R_py (ptext p) _ (sev_py p) f n0 rest). reflexivity.
Qed.
Lemma ptext_nodigit p rest : nodigit_head (ptext p ++ rest) = true.
Proof. destruct p; reflexivity. Qed.

(* what the groups capture *)
Definition tenv5 (t : tstate) : env :=
  match t with Some (p, n) => [(n_pytag, ptext p); (n_num, dec n)] | None => [] end.

Lemma first_opt t f n0 : (length (dec (tnum t)) <= f)%nat ->
  first_match f n0 (Alt R_opt Eps) (tsuffix t) = Some (tenv5 t, []).
Proof.
  intros Hf. destruct t as [[p n]|]; cbn [tsuffix tenv5 tnum] in *.
  - apply first_alt_l. unfold R_opt.
    change [(n_pytag, ptext p); (n_num, dec n)] with ([(n_pytag, ptext p)] ++ ([(n_num, dec n)] ++ [])).
    eapply first_cat; [apply first_py|].
    eapply first_cat; [|apply first_eps].
    rewrite <- (app_nil_r (dec n)) at 1. apply first_grpD1; [reflexivity|exact Hf].
  - rewrite first_alt_r; [apply first_eps|].
    rewrite rems_nil_fuel. vm_compute. reflexivity.
Qed.

Lemma match_svt a b c t :
  re_match R_svt (svt a b c t)
  = Some ([(n_major, dec a); (n_minor, dec b); (n_patch, dec c)] ++ tenv5 t, []).
Proof.
  unfold re_match, svt. rewrite dotted3.
  set (s := (dec a ++ 46 :: dec b ++ 46 :: dec c) ++ tsuffix t).
  assert (Hf : (length (dec a) <= S (length s) /\ length (dec b) <= S (length s) /\ length (dec c) <= S (length s)
                /\ length (dec (tnum t)) <= S (length s))%nat).
  { unfold s. rewrite !app_length. cbn [length]. rewrite !app_length. cbn [length].
    destruct t as [[p n]|]; cbn [tsuffix tnum]; rewrite ?app_length; cbn [length];
      [lia|change (length (dec 0)) with 1%nat; lia]. }
  destruct Hf as (H1 & H2 & H3 & H4). revert H1 H2 H3 H4.
  generalize (S (length s)) as f. generalize (length s) as n0. intros n0 f H1 H2 H3 H4.
  unfold s. clear s. rewrite <- !app_assoc. cbn [app]. rewrite <- !app_assoc. cbn [app].
  unfold R_svt.
  change ((n_major, dec a) :: (n_minor, dec b) :: (n_patch, dec c) :: tenv5 t)
    with ([(n_major, dec a)] ++ ([] ++ ([(n_minor, dec b)] ++ ([] ++ ([(n_patch, dec c)] ++ tenv5 t))))).
  eapply first_cat; [apply first_grpD1; [reflexivity|exact H1]|].
  eapply first_cat; [apply first_dot|].
  eapply first_cat; [apply first_grpD1; [reflexivity|exact H2]|].
  eapply first_cat; [apply first_dot|].
  eapply first_cat.
  { apply first_grpD1; [|exact H3]. destruct t as [[p n]|]; [apply ptext_nodigit|reflexivity]. }
  apply first_cat_eps. apply first_opt. exact H4.
Qed.

(* match.groupdict() *)
Definition fv5 (a b c : list N) (py nu : option (list N)) : fvals :=
  [(n_major, Some a); (n_minor, Some b); (n_patch, Some c); (n_pytag, py); (n_num, nu)].
Definition fv_of (a b c : N) (t : tstate) : fvals :=
  match t with
  | Some (p, n) => fv5 (dec a) (dec b) (dec c) (Some (ptext p)) (Some (dec n))
  | None => fv5 (dec a) (dec b) (dec c) None None
  end.
Lemma groupdict_svt a b c t :
  groupdict R_svt ([(n_major, dec a); (n_minor, dec b); (n_patch, dec c)] ++ tenv5 t) = fv_of a b c t.
Proof. destruct t as [[p n]|]; reflexivity. Qed.

(* ------------------------------------------------------------------ field values to the record *)
Lemma parse_cinfo_fv5 today a b c py nu : parse_cinfo today (fv5 a b c py nu) = POk (cinfo_of_ord today).
Proof.
  unfold parse_cinfo.
  change (fv_int n_year_y (fv5 a b c py nu)) with (Some (@None Z)).
  change (fv_int n_year_g (fv5 a b c py nu)) with (Some (@None Z)).
  change (fv_int n_month (fv5 a b c py nu)) with (Some (@None Z)).
  change (fv_int n_doy (fv5 a b c py nu)) with (Some (@None Z)).
  change (fv_int n_dom (fv5 a b c py nu)) with (Some (@None Z)).
  change (fv_int n_week_w (fv5 a b c py nu)) with (Some (@None Z)).
  change (fv_int n_week_u (fv5 a b c py nu)) with (Some (@None Z)).
  change (fv_int n_week_v (fv5 a b c py nu)) with (Some (@None Z)).
  change (fv_int n_quarter (fv5 a b c py nu)) with (Some (@None Z)).
  cbn [fix2000 truthy andb orb bind V2.is_some nth].
  pose proof (month_range today) as Hm.
  assert (E : (month (cal_of today) =? 0)%Z = false) by (apply Z.eqb_neq; lia).
  rewrite E. cbn [negb]. rewrite <- quarter_of_month. reflexivity.
Qed.

(* the record of the version a.b.c<t>: calendar fields = TODAY, BUILD default 1000, INC0 0, INC1 1 *)
Definition base_vinfo (ma mi pa : Z) (t : tstate) : vinfo :=
  mkv None None None None None None None None None ma mi pa [49;48;48;48] (ltext (otag t)) (potext (otag t)) [] []
      (Z.of_N (tnum t)) 0%Z 1%Z.
Definition svt_vinfo (today : Z) (ma mi pa : Z) (t : tstate) : vinfo :=
  set_cal (base_vinfo ma mi pa t) (cinfo_of_ord today).

Lemma zundec_dec n : zundec (dec n) = Z.of_N n.
Proof. unfold zundec. rewrite undec_dec. reflexivity. Qed.
Lemma fv_int_or_dec k d fv n : assoc k fv = Some (Some (dec n)) -> fv_int_or k d fv = Z.of_N n.
Proof.
  intros H. unfold fv_int_or. rewrite H. rewrite <- zundec_dec.
  destruct (dec n) eqn:E; [exfalso; exact (dec_nonempty n E)|reflexivity].
Qed.

Lemma parse_vinfo_fv today a b c t :
  parse_vinfo today (fv_of a b c t) = POk (svt_vinfo today (Z.of_N a) (Z.of_N b) (Z.of_N c) t).
Proof.
  unfold parse_vinfo, fv_of. destruct t as [[p n]|].
  - rewrite parse_cinfo_fv5. cbn [bind].
    set (fv := fv5 (dec a) (dec b) (dec c) (Some (ptext p)) (Some (dec n))).
    change (fv_str_or_empty n_tag fv) with (@nil N).
    change (fv_str_or_empty n_pytag fv) with (ptext p).
    change (fv_str_or_empty n_githash fv) with (@nil N).
    change (fv_str_or_empty n_hexhash fv) with (@nil N).
    change (assoc n_bid fv) with (@None (option (list N))).
    rewrite (fv_int_or_dec n_major 0%Z fv a) by reflexivity.
    rewrite (fv_int_or_dec n_minor 0%Z fv b) by reflexivity.
    rewrite (fv_int_or_dec n_patch 0%Z fv c) by reflexivity.
    rewrite (fv_int_or_dec n_num 0%Z fv n) by reflexivity.
    destruct p; reflexivity.
  - rewrite parse_cinfo_fv5. cbn [bind].
    set (fv := fv5 (dec a) (dec b) (dec c) None None).
    change (fv_str_or_empty n_tag fv) with (@nil N).
    change (fv_str_or_empty n_pytag fv) with (@nil N).
    change (fv_str_or_empty n_githash fv) with (@nil N).
    change (fv_str_or_empty n_hexhash fv) with (@nil N).
    change (assoc n_bid fv) with (@None (option (list N))).
    cbn [andb negb bind].
    rewrite (fv_int_or_dec n_major 0%Z fv a) by reflexivity.
    rewrite (fv_int_or_dec n_minor 0%Z fv b) by reflexivity.
    rewrite (fv_int_or_dec n_patch 0%Z fv c) by reflexivity.
    reflexivity.
Qed.

Local Opaque compile_pattern_re normalize_pattern.

Theorem svt_parse_eq : forall today a b c t,
  parse_version_info today (svt a b c t) P = POk (svt_vinfo today (Z.of_N a) (Z.of_N b) (Z.of_N c) t).
Proof.
  intros. unfold parse_version_info. rewrite compile_svt, match_svt, groupdict_svt.
  apply parse_vinfo_fv.
Qed.

(* (1) parse, field by field *)
Theorem svt_parse : forall today a b c t, exists v,
  parse_version_info today (svt a b c t) P = POk v
  /\ v_major v = Z.of_N a /\ v_minor v = Z.of_N b /\ v_patch v = Z.of_N c
  /\ v_pytag v = potext (otag t) /\ v_tag v = ltext (otag t) /\ v_num v = Z.of_N (tnum t)
  /\ v_bid v = [49;48;48;48] /\ v_inc0 v = 0%Z /\ v_inc1 v = 1%Z /\ v_githash v = [] /\ v_hexhash v = []
  /\ cal_list v = cinfo_of_ord today.
Proof.
  intros. eexists. split; [apply svt_parse_eq|]. repeat split; reflexivity.
Qed.

(* ------------------------------------------------------------------ format *)
Definition s_MAJ := [77;65;74;79;82].
Definition s_MIN := [77;73;78;79;82].
Definition s_PAT := [80;65;84;67;72].
Definition seg1 : list N := [77;65;74;79;82;46;77;73;78;79;82;46;80;65;84;67;72].     (* MAJOR.MINOR.PATCH *)
Definition seg2 : list N := [80;89;84;65;71;78;85;77].                                (* PYTAGNUM *)

Lemma segtree_P : parse_segtree P = Some [SStr seg1; STree [SStr seg2]].
Proof. vm_compute. reflexivity. Qed.

Lemma format_segment_res pv sg :
  snd (format_segment pv sg) =
  fold_left (fun acc '(p, v) => sreplace p v acc) (filter (fun '(p, _) => str_in p sg) pv)
    (sreplace [92; 93] [93] (sreplace [92; 91] [91] (sreplace [36] [] (sreplace [94] [] sg)))).
Proof.
  unfold format_segment. cbv zeta.
  destruct (filter (fun '(p, _) => str_in p sg) pv); [reflexivity|].
  match goal with |- context [if ?b then _ else _] => destruct b end; reflexivity.
Qed.

Lemma filter_len_le {A} (f : A -> bool) l : (length (filter f l) <= length l)%nat.
Proof. induction l as [|x l IH]; [apply Nat.le_refl|]. cbn [filter]. destruct (f x); cbn [length]; lia. Qed.

(* an optional group with a single segment: left out exactly when every part used in it shows its zero value *)
Lemma fmt_opt_one pv sg :
  filter (fun '(p, _) => str_in p sg) pv <> [] ->
  snd (fmt_seg pv (STree [SStr sg])) =
  if forallb (fun '(p, v) => is_zero_val p v) (filter (fun '(p, _) => str_in p sg) pv) then []
  else snd (format_segment pv sg).
Proof.
  intros Hne. cbn [fmt_seg]. rewrite format_segment_res.
  unfold format_segment. cbv zeta.
  set (used := filter (fun '(p, _) => str_in p sg) pv) in *.
  set (res := fold_left _ used _).
  assert (Z : forall l : list (list N * list N),
            (Nat.ltb 0 (length (filter (fun '(p, v) => is_zero_val p v) l))
             && Nat.eqb (length (filter (fun '(p, v) => is_zero_val p v) l)) (length l)) = true
            -> forallb (fun '(p, v) => is_zero_val p v) l = true).
  { induction l as [|[p v] l IH]; [intros Q; discriminate Q|].
    cbn [filter forallb length]. destruct (is_zero_val p v); cbn [length andb].
    - intros Q. apply andb_prop in Q as [_ Q]. cbn [Nat.eqb] in Q.
      destruct l as [|y l']; [reflexivity|]. apply IH. rewrite Q, andb_true_r.
      destruct (filter _ (y :: l')); [discriminate Q|reflexivity].
    - intros Q. apply andb_prop in Q as [_ Q]. apply Nat.eqb_eq in Q.
      pose proof (filter_len_le (fun '(p, v) => is_zero_val p v) l). lia. }
  assert (Z' : forall l : list (list N * list N), l <> [] -> forallb (fun '(p, v) => is_zero_val p v) l = true ->
            (Nat.ltb 0 (length (filter (fun '(p, v) => is_zero_val p v) l))
             && Nat.eqb (length (filter (fun '(p, v) => is_zero_val p v) l)) (length l)) = true).
  { intros l Hl Hall. assert (E : filter (fun '(p, v) => is_zero_val p v) l = l).
    { clear Hl. induction l as [|[p v] l IH]; [reflexivity|]. cbn [forallb] in Hall. apply andb_prop in Hall as [A B].
      cbn [filter]. rewrite A, (IH B). reflexivity. }
    rewrite E, Nat.eqb_refl, andb_true_r. destruct l; [congruence|reflexivity]. }
  destruct used as [|u used'] eqn:EU; [congruence|].
  destruct (forallb (fun '(p, v) => is_zero_val p v) (u :: used')) eqn:EA.
  - rewrite (Z' (u :: used') Hne EA). reflexivity.
  - destruct (Nat.ltb 0 _ && _) eqn:EZ; [|cbn [snd]; rewrite app_nil_r; reflexivity].
    rewrite (Z _ EZ) in EA. discriminate EA.
Qed.

(* _format_part_values with the formatting function abstracted, so that it can be computed on a
   record whose numbers are variables *)
Fixpoint pvg (F : fmt_kind -> fval -> list N) (v : vinfo) (l : list (list N * list N)) : option (list (list N * list N)) :=
  match l with
  | [] => Some []
  | (part, field) :: t =>
      match get_field v field, assoc part PART_FORMATS, pvg F v t with
      | Some (Some x), Some k, Some r => Some ((part, F k x) :: r)
      | Some None, _, Some r => Some r
      | _, _, _ => None
      end
  end.
Lemma pvg_eq v l : part_values_go v l = pvg apply_fmt v l.
Proof. induction l as [|[p f] t IH]; [reflexivity|]. cbn [part_values_go pvg]. rewrite IH. reflexivity. Qed.

(* the parts whose NAME occurs in the two segments; TAG is a substring of PYTAG, so TAG counts as used in the group *)
Lemma pvg_used : forall F v,
  match pvg F v PATTERN_PART_FIELDS with
  | Some l =>
      filter (fun '(p, _) => str_in p seg1) (sort_by_len_desc (fun x => length (fst x)) l)
      = [(s_MAJ, F FmtStr (FInt (v_major v))); (s_MIN, F FmtStr (FInt (v_minor v))); (s_PAT, F FmtStr (FInt (v_patch v)))]
      /\ filter (fun '(p, _) => str_in p seg2) (sort_by_len_desc (fun x => length (fst x)) l)
      = [(s_PYTAG, F FmtStr (FStr (v_pytag v))); (s_TAG, F FmtStr (FStr (v_tag v))); (s_NUM, F FmtStr (FInt (v_num v)))]
  | None => False
  end.
Proof.
  intros F [a b c d e g h i j ma mi pa bid tag pytag gh hh num i0 i1].
  destruct a, b, c, d, e, g, h, i, j; vm_compute; split; reflexivity.
Qed.

Lemma fpv_used : forall v, exists pv, format_part_values v = Some pv
  /\ filter (fun '(p, _) => str_in p seg1) pv
     = [(s_MAJ, zdec (v_major v)); (s_MIN, zdec (v_minor v)); (s_PAT, zdec (v_patch v))]
  /\ filter (fun '(p, _) => str_in p seg2) pv
     = [(s_PYTAG, v_pytag v); (s_TAG, v_tag v); (s_NUM, zdec (v_num v))].
Proof.
  intros v. pose proof (pvg_used apply_fmt v) as H.
  destruct (pvg apply_fmt v PATTERN_PART_FIELDS) as [l|] eqn:H1; [|contradiction].
  destruct H as [H2 H3].
  exists (sort_by_len_desc (fun x => length (fst x)) l). split; [|split].
  - unfold format_part_values. rewrite pvg_eq, H1. reflexivity.
  - rewrite H2. reflexivity.
  - rewrite H3. reflexivity.
Qed.

(* replacing a name that starts with a character that does not occur in a prefix leaves the prefix alone *)
Lemma replace_go_skip c old new : forall ds rest, (forall x, In x ds -> x <> c) ->
  replace_go (c :: old) new 0 (ds ++ rest) = ds ++ replace_go (c :: old) new 0 rest.
Proof.
  induction ds as [|d ds IH]; intros rest H; [reflexivity|].
  cbn [app replace_go prefixb].
  assert (E : (c =? d) = false) by (apply N.eqb_neq; intros ->; exact (H d (or_introl eq_refl) eq_refl)).
  rewrite E. cbn [andb]. rewrite IH; [reflexivity|]. intros x Hx. apply H. right. exact Hx.
Qed.
Lemma dec_no_upper n x : In x (dec n) -> (48 <= x <= 57).
Proof.
  intros H. pose proof (dec_all_digits n) as A. unfold all_digits in A. rewrite forallb_forall in A.
  apply is_digit_bounds. exact (A x H).
Qed.
Lemma replace_go_dec c old new n rest : (57 < c) ->
  replace_go (c :: old) new 0 (dec n ++ rest) = dec n ++ replace_go (c :: old) new 0 rest.
Proof. intros Hc. apply replace_go_skip. intros x Hx. apply dec_no_upper in Hx. lia. Qed.

Lemma r3_seg1 : sreplace [92; 93] [93] (sreplace [92; 91] [91] (sreplace [36] [] (sreplace [94] [] seg1))) = seg1.
Proof. vm_compute. reflexivity. Qed.
Lemma r3_seg2 : sreplace [92; 93] [93] (sreplace [92; 91] [91] (sreplace [36] [] (sreplace [94] [] seg2))) = seg2.
Proof. vm_compute. reflexivity. Qed.

Lemma subst3 a b c :
  sreplace s_PAT (dec c) (sreplace s_MIN (dec b) (sreplace s_MAJ (dec a) seg1)) = dotted [a; b; c].
Proof.
  assert (E1 : sreplace s_MAJ (dec a) seg1 = dec a ++ 46 :: s_MIN ++ 46 :: s_PAT) by reflexivity.
  rewrite E1. clear E1.
  assert (E2 : sreplace s_MIN (dec b) (dec a ++ 46 :: s_MIN ++ 46 :: s_PAT) = dec a ++ 46 :: dec b ++ 46 :: s_PAT).
  { unfold sreplace, s_MIN. rewrite replace_go_dec by lia. reflexivity. }
  rewrite E2. clear E2.
  unfold sreplace, s_PAT. rewrite replace_go_dec by lia.
  cbn [replace_go prefixb N.eqb Pos.eqb andb]. rewrite replace_go_dec by lia.
  rewrite dotted3. cbn [replace_go prefixb N.eqb Pos.eqb andb length Nat.sub]. rewrite app_nil_r. reflexivity.
Qed.

(* the text of the group: PYTAG, then TAG (whose name no longer occurs), then NUM *)
Lemma subst_group p tg n :
  sreplace s_NUM (dec n) (sreplace s_TAG tg (sreplace s_PYTAG (ptext p) seg2)) = ptext p ++ dec n.
Proof. destruct p; cbn; rewrite app_nil_r; reflexivity. Qed.
Lemma subst_group_empty tg n :
  sreplace s_NUM (dec n) (sreplace s_TAG tg (sreplace s_PYTAG [] seg2)) = dec n.
Proof. cbn. rewrite app_nil_r. reflexivity. Qed.

Lemma ptext_not_zero p : is_zero_val s_PYTAG (ptext p) = false.
Proof. destruct p; reflexivity. Qed.

(* the tag fields of a record agree with a tag state; the TAG field is irrelevant when PYTAG is not empty *)
Definition tag_ok (v : vinfo) (t : tstate) : Prop :=
  match t with
  | None => v_pytag v = [] /\ v_tag v = s_final /\ v_num v = 0%Z
  | Some (p, n) => v_pytag v = ptext p /\ v_num v = Z.of_N n
  end.

Local Opaque format_part_values parse_segtree.

Lemma format_shape v : exists pv,
  format_version v P =
    Some (dotted [Z.to_N (v_major v); Z.to_N (v_minor v); Z.to_N (v_patch v)]
          ++ (if forallb (fun '(p, x) => is_zero_val p x) [(s_PYTAG, v_pytag v); (s_TAG, v_tag v); (s_NUM, zdec (v_num v))]
              then []
              else sreplace s_NUM (zdec (v_num v)) (sreplace s_TAG (v_tag v) (sreplace s_PYTAG (v_pytag v) seg2))))
  /\ format_part_values v = Some pv.
Proof.
  destruct (fpv_used v) as (pv & H1 & H2 & H3). exists pv. split; [|exact H1].
  unfold format_version. rewrite H1, segtree_P. cbn [map concat].
  rewrite fmt_opt_one by (rewrite H3; intros Q; discriminate Q).
  cbn [fmt_seg]. rewrite !format_segment_res, H2, H3, r3_seg1, r3_seg2. unfold zdec at 1 2 3. cbn [fold_left].
  rewrite subst3, app_nil_r. reflexivity.
Qed.

(* (2) format *)
Theorem svt_format_gen : forall v t, tag_ok v t ->
  format_version v P = Some (svt (Z.to_N (v_major v)) (Z.to_N (v_minor v)) (Z.to_N (v_patch v)) t).
Proof.
  intros v t Hok. destruct (format_shape v) as (pv & H & _). rewrite H. clear H. unfold svt.
  destruct t as [[p n]|]; cbn [tag_ok tsuffix] in *.
  - destruct Hok as [E1 E2]. rewrite E1, E2. cbn [forallb]. rewrite ptext_not_zero. cbn [andb].
    unfold zdec. rewrite N2Z.id, subst_group. reflexivity.
  - destruct Hok as (E1 & E2 & E3). rewrite E1, E2, E3. reflexivity.
Qed.

(* the group is NOT left out for a final tag with a non-zero number: the number is glued to the patch number
   (no flag combination reaches such a record; see svt_incr) *)
Theorem svt_format_final_with_num : forall v n, v_pytag v = [] -> v_num v = Z.of_N n -> n <> 0 ->
  format_version v P
  = Some (dotted [Z.to_N (v_major v); Z.to_N (v_minor v); Z.to_N (v_patch v)] ++ dec n).
Proof.
  intros v n E1 E2 Hn. destruct (format_shape v) as (pv & H & _). rewrite H. clear H.
  rewrite E1, E2. unfold zdec. rewrite N2Z.id.
  assert (Z0 : is_zero_val s_NUM (dec n) = false).
  { change (is_zero_val s_NUM (dec n)) with (eqb_str (dec n) [48]).
    destruct (eqb_str (dec n) [48]) eqn:Q; [|reflexivity]. apply eqb_str_eq in Q.
    exfalso. apply Hn. rewrite <- (undec_dec n), Q. reflexivity. }
  cbn [forallb]. rewrite Z0, !andb_false_r, subst_group_empty. reflexivity.
Qed.

Theorem svt_format : forall today a b c t,
  format_version (svt_vinfo today (Z.of_N a) (Z.of_N b) (Z.of_N c) t) P = Some (svt a b c t).
Proof.
  intros. rewrite (svt_format_gen _ t).
  - cbn [svt_vinfo v_major v_minor v_patch]. unfold svt_vinfo. cbn [set_cal cinfo_of_ord cal_some map cal_fields v_major v_minor v_patch base_vinfo].
    rewrite !N2Z.id. reflexivity.
  - destruct t as [[p n]|]; cbn; auto.
Qed.

(* ------------------------------------------------------------------ the flag rules on the abstract state *)
Definition eqb_ptag (x y : ptag) : bool :=
  match x, y with Pa, Pa | Pb, Pb | Prc, Prc | Ppost, Ppost | Pdev, Pdev => true | _, _ => false end.
Definition eqb_otag (x y : option ptag) : bool :=
  match x, y with Some p, Some q => eqb_ptag p q | None, None => true | _, _ => false end.
Definition is_final (o : option ptag) : bool := match o with None => true | Some _ => false end.

Lemma eqb_otag_eq x y : eqb_otag x y = true -> x = y.
Proof. destruct x as [[]|], y as [[]|]; intros H; try reflexivity; discriminate H. Qed.
Lemma eqb_otag_refl x : eqb_otag x x = true.
Proof. destruct x as [[]|]; reflexivity. Qed.
Lemma eqb_otag_sym x y : eqb_otag x y = eqb_otag y x.
Proof. destruct x as [[]|], y as [[]|]; reflexivity. Qed.
Lemma ltext_eqb x y : eqb_str (ltext x) (ltext y) = eqb_otag x y.
Proof. destruct x as [[]|], y as [[]|]; reflexivity. Qed.
Lemma potext_eqb x y : eqb_str (potext x) (potext y) = eqb_otag x y.
Proof. destruct x as [[]|], y as [[]|]; reflexivity. Qed.
Lemma py_of_ltext x : assoc (ltext x) PEP440_TAG_BY_TAG = Some (potext x).
Proof. destruct x as [[]|]; reflexivity. Qed.
Lemma ltext_cons x : exists c tl, ltext x = c :: tl.
Proof. destruct x as [[]|]; do 2 eexists; reflexivity. Qed.
Lemma ltext_final x : eqb_str (ltext x) s_final = is_final x.
Proof. destruct x as [[]|]; reflexivity. Qed.
(* the values --tag accepts are exactly the six tag names *)
Lemma ltext_valid x : existsb (eqb_str (ltext x)) VALID_RELEASE_TAG_VALUES = true.
Proof. destruct x as [[]|]; reflexivity. Qed.
Lemma valid_is_ltext s : existsb (eqb_str s) VALID_RELEASE_TAG_VALUES = true -> exists x, s = ltext x.
Proof.
  intros H. unfold VALID_RELEASE_TAG_VALUES in H. cbn [existsb] in H.
  repeat (apply orb_prop in H as [H|H]; [apply eqb_str_eq in H|]); try discriminate H.
  - exists (Some Pa). exact H.
  - exists (Some Pb). exact H.
  - exists (Some Pdev). exact H.
  - exists (Some Prc). exact H.
  - exists (Some Ppost). exact H.
  - exists None. exact H.
Qed.

(* ft : the --tag flag; None = not given, Some None = --tag final, Some (Some p) = --tag <name of p> *)
Definition part_flag (fl : flags) : bool := f_major fl || f_minor fl || f_patch fl.
Definition next_a (fl : flags) (a : N) : N := if f_major fl then a + 1 else a.
Definition next_b (fl : flags) (b : N) : N := if f_major fl then 0 else if f_minor fl then b + 1 else b.
Definition next_c (fl : flags) (c : N) : N := if f_major fl || f_minor fl then 0 else if f_patch fl then c + 1 else c.
Definition next_otag (ft : option (option ptag)) (t : tstate) : option ptag :=
  match ft with Some T => T | None => otag t end.
(* NUM: reset by a part bump and by a change of tag, otherwise incremented by --tag-num *)
Definition next_num (fl : flags) (ft : option (option ptag)) (t : tstate) : N :=
  if part_flag fl then 0
  else if eqb_otag (next_otag ft t) (otag t) then (if f_tag_num fl then tnum t + 1 else tnum t) else 0.
Definition next_t (fl : flags) (ft : option (option ptag)) (t : tstate) : tstate :=
  match next_otag ft t with Some p => Some (p, next_num fl ft t) | None => None end.
Definition svt_new (fl : flags) (ft : option (option ptag)) (a b c : N) (t : tstate) : list N :=
  svt (next_a fl a) (next_b fl b) (next_c fl c) (next_t fl ft t).
(* something changes *)
Definition changes (fl : flags) (ft : option (option ptag)) (t : tstate) : bool :=
  part_flag fl || negb (eqb_otag (next_otag ft t) (otag t)) || f_tag_num fl.
(* --tag-num with a final effective tag is refused by v2version.incr, whatever the other flags are *)
Definition tagnum_on_final (fl : flags) (ft : option (option ptag)) (t : tstate) : bool :=
  f_tag_num fl && is_final (next_otag ft t).

Definition incr_spec (fl : flags) (ft : option (option ptag)) (a b c : N) (t : tstate) : incr_res :=
  if tagnum_on_final fl ft t then INone
  else if changes fl ft t then INew (svt_new fl ft a b c t) else INone.

(* ------------------------------------------------------------------ incr_numeric *)
Lemma week_P : is_valid_week_pattern P = true.
Proof. vm_compute. reflexivity. Qed.
(* TAG is found inside PYTAG: the tag field takes part in the rollover scan *)
Lemma ppf_P : parse_pattern_fields P = Some [n_major; n_minor; n_patch; n_pytag; n_tag; n_num].
Proof. vm_compute. reflexivity. Qed.
Lemma bump_1000 : bump_bid [49;48;48;48] = Some [49;48;48;49].
Proof. vm_compute. reflexivity. Qed.

Lemma gf_pytag : forall v, get_field v n_pytag = Some (Some (FStr (v_pytag v))).
Proof. reflexivity. Qed.
Lemma gf_tag : forall v, get_field v n_tag = Some (Some (FStr (v_tag v))).
Proof. reflexivity. Qed.
Lemma gf_num : forall v, get_field v n_num = Some (Some (FInt (v_num v))).
Proof. reflexivity. Qed.

(* the six fields the pattern shows *)
Definition six (v : vinfo) (a b c : N) (t : tstate) : Prop :=
  v_major v = Z.of_N a /\ v_minor v = Z.of_N b /\ v_patch v = Z.of_N c
  /\ v_tag v = ltext (otag t) /\ v_pytag v = potext (otag t) /\ v_num v = Z.of_N (tnum t).

Lemma six_set_cal a b c t cl : length cl = 9%nat ->
  six (set_cal (base_vinfo (Z.of_N a) (Z.of_N b) (Z.of_N c) t) cl) a b c t
  /\ v_bid (set_cal (base_vinfo (Z.of_N a) (Z.of_N b) (Z.of_N c) t) cl) = [49;48;48;48].
Proof.
  intros L. destruct cl as [|x1 [|x2 [|x3 [|x4 [|x5 [|x6 [|x7 [|x8 [|x9 [|]]]]]]]]]]; try discriminate L.
  unfold six. repeat split; reflexivity.
Qed.

Lemma bumped_some cur fl :
  (match f_tag fl with Some (x :: tl) => assoc (x :: tl) PEP440_TAG_BY_TAG <> None | _ => True end) ->
  v_bid cur = [49;48;48;48] -> exists c, bumped cur fl = Some c.
Proof.
  destruct cur as [a b c' d e g h i j ma mi pa bid tag pytag gh hh num i0 i1].
  destruct fl as [fm fi fp ft ftn fpi fpd].
  cbn [f_tag v_bid]. intros HT HB. subst bid. unfold bumped. cbv zeta.
  cbn [f_major f_minor f_patch f_tag f_tag_num f_pin_increments f_pin_date].
  destruct fm, fi, fp, ftn, fpi; upd;
    (destruct ft as [[|x tl]|];
     [ | destruct (eqb_str (x :: tl) tag); cbn [negb]; upd;
         (destruct (assoc (x :: tl) PEP440_TAG_BY_TAG) as [py|]; [|exfalso; apply HT; reflexivity]) | ];
     upd; rewrite bump_1000; eexists; reflexivity).
Qed.

(* the six fields after the rollover reset, for any list L of fields to the right of the first changed one *)
Lemma resets_six L c :
  let r := apply_resets (inits L) c in
  v_major r = (if mem_str n_major L then 0 else v_major c)%Z
  /\ v_minor r = (if mem_str n_minor L then 0 else v_minor c)%Z
  /\ v_patch r = (if mem_str n_patch L then 0 else v_patch c)%Z
  /\ v_num r = (if mem_str n_num L then 0 else v_num c)%Z
  /\ v_tag r = v_tag c /\ v_pytag r = v_pytag c.
Proof.
  intros r. pose proof (apply_resets_read L c) as RR. fold r in RR.
  assert (I : forall x y : Z, Some (Some (FInt x)) = Some (Some (FInt y)) -> x = y) by (intros x y Q; injection Q; auto).
  assert (J : forall x y : list N, Some (Some (FStr x)) = Some (Some (FStr y)) -> x = y) by (intros x y Q; injection Q; auto).
  split; [|split; [|split; [|split; [|split]]]].
  - pose proof (RR n_major) as H. unfold reset_read in H.
    change (has_key n_major V2_FIELD_INITIAL_VALUES) with true in H. rewrite andb_true_r, !gf_major in H.
    destruct (mem_str n_major L); apply I; exact H.
  - pose proof (RR n_minor) as H. unfold reset_read in H.
    change (has_key n_minor V2_FIELD_INITIAL_VALUES) with true in H. rewrite andb_true_r, !gf_minor in H.
    destruct (mem_str n_minor L); apply I; exact H.
  - pose proof (RR n_patch) as H. unfold reset_read in H.
    change (has_key n_patch V2_FIELD_INITIAL_VALUES) with true in H. rewrite andb_true_r, !gf_patch in H.
    destruct (mem_str n_patch L); apply I; exact H.
  - pose proof (RR n_num) as H. unfold reset_read in H.
    change (has_key n_num V2_FIELD_INITIAL_VALUES) with true in H. rewrite andb_true_r, !gf_num in H.
    destruct (mem_str n_num L); apply I; exact H.
  - pose proof (RR n_tag) as H. unfold reset_read in H.
    change (has_key n_tag V2_FIELD_INITIAL_VALUES) with false in H. rewrite andb_false_r, !gf_tag in H.
    apply J; exact H.
  - pose proof (RR n_pytag) as H. unfold reset_read in H.
    change (has_key n_pytag V2_FIELD_INITIAL_VALUES) with false in H. rewrite andb_false_r, !gf_pytag in H.
    apply J; exact H.
Qed.

Lemma eff_tag_eq (ft : option (option ptag)) (tg : list N) :
  match option_map ltext ft with Some (c :: t0) => c :: t0 | _ => tg end
  = match ft with Some T => ltext T | None => tg end.
Proof. destruct ft as [[[]|]|]; reflexivity. Qed.

Lemma of_N_succ n : (Z.of_N n + 1)%Z = Z.of_N (n + 1).
Proof. lia. Qed.

(* _incr_numeric on MAJOR.MINOR.PATCH[PYTAGNUM], all flags *)
Lemma incr_numeric_svt : forall old cur fl ft a b c t,
  six old a b c t -> six cur a b c t -> v_bid cur = [49;48;48;48] -> f_tag fl = option_map ltext ft ->
  exists nv, incr_numeric P old cur fl = Some nv
    /\ v_major nv = Z.of_N (next_a fl a) /\ v_minor nv = Z.of_N (next_b fl b) /\ v_patch nv = Z.of_N (next_c fl c)
    /\ v_tag nv = ltext (next_otag ft t) /\ v_pytag nv = potext (next_otag ft t)
    /\ v_num nv = Z.of_N (next_num fl ft t).
Proof.
  intros old cur fl ft a b c t (Oa & Ob & Oc & Ot & Op & On) (Ca & Cb & Cc & Ct & Cp & Cn) HB Hft.
  rewrite incr_numeric_bumped.
  destruct (bumped_some cur fl) as [c5 H5]; [|exact HB|].
  { rewrite Hft. destruct ft as [T|]; [|exact I]. cbn [option_map].
    destruct (ltext_cons T) as (x & tl & E). rewrite E, <- E, py_of_ltext. intros Q; discriminate Q. }
  rewrite H5.
  destruct (bumped_fields cur fl c5 H5) as (Fa & Fb & Fc & _ & _ & Fn & Ft & Fp & _).
  rewrite Ca in Fa. rewrite Cb in Fb. rewrite Cc in Fc. rewrite Cn, Ct in Fn. rewrite Ct in Ft. rewrite Cp in Fp.
  rewrite Hft in Fn, Ft, Fp.
  (* the tag fields after the bump *)
  assert (Gt : v_tag c5 = ltext (next_otag ft t)).
  { rewrite Ft. destruct ft as [T|]; [|reflexivity]. cbn [option_map next_otag].
    destruct (ltext_cons T) as (x & tl & E). rewrite E. reflexivity. }
  assert (Gp : v_pytag c5 = potext (next_otag ft t)).
  { destruct ft as [T|]; [|exact Fp]. cbn [option_map next_otag] in *.
    destruct (ltext_cons T) as (x & tl & E). rewrite E, <- E, py_of_ltext in Fp. injection Fp as Fp. symmetry. exact Fp. }
  assert (Gn : v_num c5 = Z.of_N (if eqb_otag (next_otag ft t) (otag t)
                                   then (if f_tag_num fl then tnum t + 1 else tnum t) else 0)).
  { rewrite Fn. destruct ft as [T|]; cbn [option_map next_otag].
    - destruct (ltext_cons T) as (x & tl & E). rewrite E, <- E, ltext_eqb.
      destruct (eqb_otag T (otag t)); [|reflexivity]. destruct (f_tag_num fl); [apply of_N_succ|reflexivity].
    - rewrite eqb_otag_refl. destruct (f_tag_num fl); [apply of_N_succ|reflexivity]. }
  clear Fn Ft Fp.
  rewrite reset_rollover_fields_eq, ppf_P.
  eexists. split; [reflexivity|].
  match goal with |- context [apply_resets (inits ?L0) c5] => set (L := L0) end.
  destruct (resets_six L c5) as (Ra & Rb & Rc & Rn & Rt & Rp). cbv zeta in Ra, Rb, Rc, Rn, Rt, Rp.
  rewrite Ra, Rb, Rc, Rn, Rt, Rp, Gt, Gp. clear Ra Rb Rc Rn Rt Rp.
  subst L. cbn [after_first_changed]. unfold changed.
  rewrite !gf_major, !gf_minor, !gf_patch, !gf_pytag, !gf_tag, !gf_num. cbn [eqb_fval].
  rewrite Oa, Ob, Oc, Ot, Op, On, Fa, Fb, Fc, Gt, Gp, Gn, !ltext_eqb, !potext_eqb.
  unfold next_a, next_b, next_c, next_num, part_flag.
  destruct (f_major fl).
  { rewrite zeqb_succ. cbn [negb orb]. repeat split; try reflexivity. apply of_N_succ. }
  rewrite Z.eqb_refl. cbn [negb orb].
  destruct (f_minor fl).
  { rewrite zeqb_succ. cbn [negb orb]. repeat split; try reflexivity. apply of_N_succ. }
  rewrite Z.eqb_refl. cbn [negb orb].
  destruct (f_patch fl).
  { rewrite zeqb_succ. cbn [negb orb]. repeat split; try reflexivity. apply of_N_succ. }
  rewrite Z.eqb_refl. cbn [negb orb].
  rewrite (eqb_otag_sym (otag t) (next_otag ft t)).
  destruct (eqb_otag (next_otag ft t) (otag t)); cbn [negb].
  - match goal with |- context [if ?b then @nil (list N) else []] => destruct b end; repeat split; reflexivity.
  - repeat split; reflexivity.
Qed.

(* ------------------------------------------------------------------ PEP 440 reading of these strings *)
Local Opaque parse_pep440 version_key.

Definition btag (p : ptag) : btag :=
  match p with Pa => Ta | Pb => Tb | Prc => Trc | Ppost => Tpost | Pdev => Tdev end.

Lemma svt_tagged a b c p n : svt a b c (Some (p, n)) = tagged false [dec a; dec b; dec c] [] (btag p) (dec n).
Proof. destruct p; reflexivity. Qed.

Definition pv_of (a b c : N) (t : tstate) : pver :=
  match t with
  | None => mkpver 0 [a; b; c] None None None None
  | Some (p, n) => tag_pver [a; b; c] (btag p) n
  end.

Lemma dstr_dec n : dstr (dec n).
Proof. split; [apply dec_all_digits|apply dec_nonempty]. Qed.
Lemma good3 a b c : Forall dstr [dec a; dec b; dec c].
Proof. repeat constructor; apply dstr_dec. Qed.
Lemma ne3 {A} (a b c : A) : [a; b; c] <> [].
Proof. intros Q; discriminate Q. Qed.
Lemma sep_nil : sep_ok [].
Proof. unfold sep_ok. auto. Qed.

Theorem parse_svt : forall a b c t, parse_pep440 (svt a b c t) = Some (pv_of a b c t).
Proof.
  intros a b c [[p n]|].
  - rewrite svt_tagged.
    rewrite (parse_tagged_sep false [dec a; dec b; dec c] [] (btag p) (dec n) (ne3 _ _ _) (good3 a b c) sep_nil
               (dec_all_digits n)).
    cbn [map]. rewrite !undec_dec. reflexivity.
  - unfold svt, tsuffix. rewrite app_nil_r. rewrite (parse_dotted [a; b; c] (ne3 _ _ _)). reflexivity.
Qed.

Lemma pv_of_inj a b c t a' b' c' t' : pv_of a b c t = pv_of a' b' c' t' -> a = a' /\ b = b' /\ c = c' /\ t = t'.
Proof.
  destruct t as [[[] n]|], t' as [[[] n']|]; cbn [pv_of tag_pver btag]; intros H;
    first [discriminate H | injection H; intros; subst; auto].
Qed.

(* two such strings are equal only if the numbers and the tag state are *)
Theorem svt_inj : forall a b c t a' b' c' t', svt a b c t = svt a' b' c' t' -> a = a' /\ b = b' /\ c = c' /\ t = t'.
Proof.
  intros a b c t a' b' c' t' H. apply pv_of_inj.
  assert (E : parse_pep440 (svt a b c t) = parse_pep440 (svt a' b' c' t')) by (rewrite H; reflexivity).
  rewrite !parse_svt in E. injection E as E. exact E.
Qed.

(* version.to_pep440: post and dev get a dot *)
Definition pep_suffix (t : tstate) : list N :=
  match t with
  | None => []
  | Some (Ppost, n) => [46] ++ ptext Ppost ++ dec n
  | Some (Pdev, n) => [46] ++ ptext Pdev ++ dec n
  | Some (p, n) => ptext p ++ dec n
  end.
Theorem to_pep440_svt : forall a b c t, to_pep440 (svt a b c t) = dotted [a; b; c] ++ pep_suffix t.
Proof.
  intros a b c t. unfold to_pep440. rewrite parse_svt. unfold pver_str.
  destruct t as [[[] n]|]; cbn [pv_of tag_pver btag pv_epoch pv_release pv_pre pv_post pv_dev pv_local N.eqb pep_suffix ptext];
    cbn [app]; rewrite ?app_nil_r; reflexivity.
Qed.

(* the comparison key *)
Definition k_pre (t : tstate) : ppd :=
  match t with
  | Some (Pa, n) => PTag s_a n | Some (Pb, n) => PTag s_b n | Some (Prc, n) => PTag s_rc n
  | Some (Pdev, _) => PNegInf | _ => PPosInf
  end.
Definition k_post (t : tstate) : ppd := match t with Some (Ppost, n) => PTag s_post n | _ => PNegInf end.
Definition k_dev (t : tstate) : ppd := match t with Some (Pdev, n) => PTag s_dev n | _ => PPosInf end.

Lemma version_key_svt a b c t :
  version_key (svt a b c t) = KVer 0 (drop_trailing_zeros [a; b; c]) (k_pre t) (k_post t) (k_dev t) None.
Proof.
  assert (E : version_key (svt a b c t) = cmpkey (pv_of a b c t)).
  { Local Transparent version_key. unfold version_key. Local Opaque version_key. rewrite parse_svt. reflexivity. }
  rewrite E. destruct t as [[[] n]|]; reflexivity.
Qed.

(* PEP 440 rank of the tag: dev < a < b < rc < final < post *)
Definition trank (o : option ptag) : N :=
  match o with Some Pdev => 0 | Some Pa => 1 | Some Pb => 2 | Some Prc => 3 | None => 4 | Some Ppost => 5 end.

Definition suffix_cmp (t t' : tstate) : comparison :=
  lexc (cmp_ppd (k_pre t) (k_pre t')) (lexc (cmp_ppd (k_post t) (k_post t')) (lexc (cmp_ppd (k_dev t) (k_dev t')) Eq)).
Lemma suffix_cmp_rank t t' :
  suffix_cmp t t' = lexc (N.compare (trank (otag t)) (trank (otag t'))) (N.compare (tnum t) (tnum t')).
Proof.
  unfold suffix_cmp.
  destruct t as [[[] n]|], t' as [[[] n']|];
    cbn [k_pre k_post k_dev otag tnum trank cmp_ppd]; rewrite ?cmp_ppd_tag, ?(o_refl ord_str);
    try reflexivity; cbn [lexc]; destruct (N.compare n n'); reflexivity.
Qed.

Definition svt_cmp (a b c : N) (t : tstate) (a' b' c' : N) (t' : tstate) : comparison :=
  lexc (cmp_list N.compare [a; b; c] [a'; b'; c'])
       (lexc (N.compare (trank (otag t)) (trank (otag t'))) (N.compare (tnum t) (tnum t'))).

Lemma cmp_key_svt a b c t a' b' c' t' :
  cmp_key (version_key (svt a b c t)) (version_key (svt a' b' c' t')) = svt_cmp a b c t a' b' c' t'.
Proof.
  rewrite !version_key_svt, cmp_key_ver, (cmp_strip [a; b; c] [a'; b'; c'] eq_refl).
  unfold svt_cmp. rewrite <- suffix_cmp_rank. unfold suffix_cmp. reflexivity.
Qed.

Local Opaque ver_le ver_lt.

(* the PEP 440 order of two such strings: the release numbers, then the rank of the tag, then the tag number *)
Theorem svt_order : forall a b c t a' b' c' t',
  ver_lt (svt a b c t) (svt a' b' c' t') = (match svt_cmp a b c t a' b' c' t' with Lt => true | _ => false end)
  /\ ver_le (svt a b c t) (svt a' b' c' t') = (match svt_cmp a b c t a' b' c' t' with Gt => false | _ => true end).
Proof.
  intros. Local Transparent ver_le ver_lt. unfold ver_lt, ver_le, key_lt, key_le. Local Opaque ver_le ver_lt.
  rewrite cmp_key_svt. split; reflexivity.
Qed.

(* ------------------------------------------------------------------ incr *)
Lemma set_cal_twice v c1 c2 : length c1 = 9%nat -> length c2 = 9%nat -> set_cal (set_cal v c1) c2 = set_cal v c2.
Proof.
  intros L1 L2.
  destruct c1 as [|x1 [|x2 [|x3 [|x4 [|x5 [|x6 [|x7 [|x8 [|x9 [|]]]]]]]]]]; try discriminate L1.
  destruct c2 as [|y1 [|y2 [|y3 [|y4 [|y5 [|y6 [|y7 [|y8 [|y9 [|]]]]]]]]]]; try discriminate L2.
  reflexivity.
Qed.
Lemma cinfo_length n : length (cinfo_of_ord n) = 9%nat.
Proof. reflexivity. Qed.
Lemma ver_to_cal_info_length today v : length (ver_to_cal_info today v) = 9%nat.
Proof. unfold ver_to_cal_info. rewrite map_length, combine_length, cinfo_length. reflexivity. Qed.

(* the record of the current version after the calendar step: only the calendar can differ *)
Lemma cur_shape today cc ma mi pa t : length cc = 9%nat ->
  let old := svt_vinfo today ma mi pa t in
  exists c, length c = 9%nat /\
    (if is_cal_gt (cal_list old) cc then old else set_cal old cc) = set_cal (base_vinfo ma mi pa t) c.
Proof.
  intros L old. destruct (is_cal_gt (cal_list old) cc).
  - exists (cinfo_of_ord today). split; reflexivity.
  - exists cc. split; [exact L|]. unfold old, svt_vinfo. apply set_cal_twice; [apply cinfo_length|exact L].
Qed.

Lemma match_nonempty (new old : list N) : new <> [] ->
  match new with [] => INone | _ :: _ => if eqb_str new old then INone else INew new end
  = if eqb_str new old then INone else INew new.
Proof. destruct new; [congruence|reflexivity]. Qed.
Lemma svt_nonempty a b c t : svt a b c t <> [].
Proof.
  unfold svt. destruct (dotted_head a [b; c]) as (d & tl & E & _). rewrite E. intros Q; discriminate Q.
Qed.

(* when --tag-num is not refused, the next tag state is well formed: a final tag has number 0 *)
Lemma next_t_ok fl ft t nv : tagnum_on_final fl ft t = false ->
  v_tag nv = ltext (next_otag ft t) -> v_pytag nv = potext (next_otag ft t) -> v_num nv = Z.of_N (next_num fl ft t) ->
  tag_ok nv (next_t fl ft t).
Proof.
  unfold tagnum_on_final, next_t. intros G Ht Hp Hn.
  destruct (next_otag ft t) as [p|] eqn:E; cbn [tag_ok potext ltext] in *.
  - split; assumption.
  - split; [exact Hp|]. split; [exact Ht|]. rewrite Hn. cbn [is_final] in G. rewrite andb_true_r in G.
    unfold next_num. rewrite G, E. destruct (part_flag fl); [reflexivity|].
    destruct (eqb_otag None (otag t)) eqn:Q; [|reflexivity].
    apply eqb_otag_eq in Q. destruct t as [[p n]|]; [discriminate Q|reflexivity].
Qed.

(* nothing changes without a flag that changes something *)
Lemma no_change fl ft a b c t : changes fl ft t = false -> svt_new fl ft a b c t = svt a b c t.
Proof.
  unfold changes, svt_new, next_a, next_b, next_c, next_t, next_num, part_flag. intros H.
  apply orb_false_elim in H as [H Hn]. apply orb_false_elim in H as [H He].
  apply orb_false_elim in H as [H Hp]. apply orb_false_elim in H as [Hm Hi].
  apply negb_false_iff in He. rewrite Hm, Hi, Hp, Hn, He. cbn [orb].
  apply eqb_otag_eq in He. rewrite He. destruct t as [[p n]|]; reflexivity.
Qed.
Lemma does_change fl ft a b c t : tagnum_on_final fl ft t = false -> changes fl ft t = true ->
  svt_new fl ft a b c t <> svt a b c t.
Proof.
  unfold changes, svt_new, tagnum_on_final. intros G H Q. apply svt_inj in Q as (Qa & Qb & Qc & Qt).
  unfold next_a, next_b, next_c in *. unfold next_t, next_num, part_flag in *.
  destruct (f_major fl); [lia|]. destruct (f_minor fl); [lia|]. destruct (f_patch fl); [cbn [orb] in Qc; lia|].
  cbn [orb] in *.
  destruct (eqb_otag (next_otag ft t) (otag t)) eqn:E; cbn [negb orb] in H.
  - rewrite H in *. apply eqb_otag_eq in E. rewrite E in *.
    destruct t as [[p n]|]; cbn [otag tnum is_final andb] in *; [|discriminate G].
    injection Qt as Qt. lia.
  - destruct (next_otag ft t) as [p|]; destruct t as [[q n]|]; cbn [otag] in *; try discriminate Qt; try discriminate E.
    injection Qt as Qt _. subst q. rewrite (eqb_otag_refl (Some p)) in E. discriminate E.
Qed.

Local Opaque parse_version_info format_version incr_numeric.

(* (3) incr, for every flag set; ft is the abstract reading of --tag *)
Theorem svt_incr : forall today date fl ft a b c t, f_tag fl = option_map ltext ft ->
  incr today (svt a b c t) P fl date = incr_spec fl ft a b c t.
Proof.
  intros today date fl ft a b c t Hft.
  unfold incr. rewrite week_P. cbn [negb]. rewrite svt_parse_eq. cbv zeta.
  set (cc := if f_pin_date fl then _ else _).
  assert (Lcc : length cc = 9%nat).
  { unfold cc. destruct (f_pin_date fl); [apply ver_to_cal_info_length|apply cinfo_length]. }
  destruct (cur_shape today cc (Z.of_N a) (Z.of_N b) (Z.of_N c) t Lcc) as (c' & L' & Hc). cbv zeta in Hc.
  rewrite Hc. clear Hc. clearbody cc.
  destruct (six_set_cal a b c t c' L') as [Scur Bcur].
  destruct (six_set_cal a b c t (cinfo_of_ord today) (cinfo_length today)) as [Sold _].
  fold (svt_vinfo today (Z.of_N a) (Z.of_N b) (Z.of_N c) t) in Sold.
  set (old := svt_vinfo today (Z.of_N a) (Z.of_N b) (Z.of_N c) t) in *. clearbody old.
  set (cur := set_cal (base_vinfo (Z.of_N a) (Z.of_N b) (Z.of_N c) t) c') in *. clearbody cur.
  (* --tag-num needs a non-final effective tag *)
  rewrite Hft, eff_tag_eq.
  assert (Et : match ft with Some T => ltext T | None => v_tag cur end = ltext (next_otag ft t)).
  { destruct ft as [T|]; [reflexivity|]. exact (proj1 (proj2 (proj2 (proj2 Scur)))). }
  rewrite Et, ltext_final, negb_involutive. clear Et.
  unfold incr_spec. fold (tagnum_on_final fl ft t).
  destruct (tagnum_on_final fl ft t) eqn:G; [reflexivity|].
  destruct (incr_numeric_svt old cur fl ft a b c t Sold Scur Bcur Hft) as (nv & HN & Na & Nb & Nc & Nt & Np & Nn).
  rewrite HN.
  rewrite (svt_format_gen nv (next_t fl ft t) (next_t_ok fl ft t nv G Nt Np Nn)).
  rewrite Na, Nb, Nc, !N2Z.id. fold (svt_new fl ft a b c t).
  rewrite match_nonempty by apply svt_nonempty.
  destruct (changes fl ft t) eqn:C.
  - destruct (eqb_str (svt_new fl ft a b c t) (svt a b c t)) eqn:Q; [|reflexivity].
    apply eqb_str_eq in Q. exfalso. exact (does_change fl ft a b c t G C Q).
  - rewrite (no_change fl ft a b c t C), eqb_str_refl. reflexivity.
Qed.

(* ------------------------------------------------------------------ the command *)
Lemma validate_flags_P fl : validate_flags P fl = true.
Proof.
  unfold validate_flags.
  change (has_brace_l P) with false. change (str_in s_MAJOR P) with true.
  change (str_in s_MINOR P) with true. change (str_in s_PATCH P) with true.
  destruct (f_major fl), (f_minor fl), (f_patch fl); reflexivity.
Qed.
Lemma validate_tag_ok (ft : option (option ptag)) : validate_release_tag (option_map ltext ft) = true.
Proof. destruct ft as [T|]; [apply ltext_valid|reflexivity]. Qed.

(* the gate of cli.test accepts exactly: a part bump, a tag of higher PEP 440 rank, or --tag-num on the same tag *)
Definition accepted (fl : flags) (ft : option (option ptag)) (t : tstate) : bool :=
  part_flag fl || (trank (otag t) <? trank (next_otag ft t))
  || (eqb_otag (next_otag ft t) (otag t) && f_tag_num fl).

Lemma next_abc_cmp fl a b c :
  cmp_list N.compare [a; b; c] [next_a fl a; next_b fl b; next_c fl c] = if part_flag fl then Lt else Eq.
Proof.
  unfold next_a, next_b, next_c, part_flag.
  assert (Lx : forall x, N.compare x (x + 1) = Lt) by (intros x; apply N.compare_lt_iff; lia).
  destruct (f_major fl); [cbn [cmp_list orb]; rewrite Lx; reflexivity|].
  destruct (f_minor fl); [cbn [cmp_list orb]; rewrite N.compare_refl, Lx; reflexivity|].
  destruct (f_patch fl); cbn [cmp_list orb]; rewrite !N.compare_refl, ?Lx; reflexivity.
Qed.

(* old against new *)
Lemma svt_cmp_new fl ft a b c t : tagnum_on_final fl ft t = false ->
  svt_cmp a b c t (next_a fl a) (next_b fl b) (next_c fl c) (next_t fl ft t)
  = if accepted fl ft t then Lt else if changes fl ft t then Gt else Eq.
Proof.
  intros G. unfold svt_cmp, accepted, changes. rewrite next_abc_cmp.
  destruct (part_flag fl) eqn:PF; [reflexivity|]. cbn [lexc orb].
  assert (Eo : otag (next_t fl ft t) = next_otag ft t).
  { unfold next_t. destruct (next_otag ft t); reflexivity. }
  rewrite Eo.
  destruct (eqb_otag (next_otag ft t) (otag t)) eqn:E.
  - apply eqb_otag_eq in E. cbn [negb orb andb].
    assert (En : tnum (next_t fl ft t) = if f_tag_num fl then tnum t + 1 else tnum t).
    { unfold next_t, next_num, tagnum_on_final in *. rewrite E in *. rewrite eqb_otag_refl, PF.
      destruct t as [[p n]|]; cbn [otag tnum is_final andb] in *.
      - reflexivity.
      - rewrite andb_true_r in G. rewrite G. reflexivity. }
    rewrite En, E, N.compare_refl, N.ltb_irrefl. cbn [lexc orb].
    destruct (f_tag_num fl); [apply N.compare_lt_iff; lia|apply N.compare_refl].
  - cbn [negb orb andb]. rewrite orb_false_r. unfold N.ltb.
    destruct (N.compare_spec (trank (otag t)) (trank (next_otag ft t))) as [Q|Q|Q]; cbn [lexc]; try reflexivity.
    exfalso. destruct (otag t) as [[]|], (next_otag ft t) as [[]|]; cbn [trank eqb_otag eqb_ptag] in *;
      try discriminate E; discriminate Q.
Qed.

Local Opaque to_pep440 incr.

(* (4) the command, for every flag set *)
Theorem svt_test_cmd : forall today fl ft a b c t d,
  f_tag fl = option_map ltext ft ->
  match d with Some _ => f_pin_date fl = false | None => True end ->
  let new := svt_new fl ft a b c t in
  test_cmd_v2 today (svt a b c t) P fl (option_map Some d) None
    = (if tagnum_on_final fl ft t then ExitErr
       else if accepted fl ft t then Exit0 new (to_pep440 new) else ExitErr)
  /\ (tagnum_on_final fl ft t = false -> accepted fl ft t = true -> ver_lt (svt a b c t) new = true)
  /\ (tagnum_on_final fl ft t = false -> accepted fl ft t = false -> ver_lt (svt a b c t) new = false).
Proof.
  intros today fl ft a b c t d Hft Hd new.
  assert (Hcmp : tagnum_on_final fl ft t = false ->
                 ver_lt (svt a b c t) new = accepted fl ft t /\ ver_le new (svt a b c t) = negb (accepted fl ft t)).
  { intros G. unfold new, svt_new.
    destruct (svt_order a b c t (next_a fl a) (next_b fl b) (next_c fl c) (next_t fl ft t)) as [E1 _].
    destruct (svt_order (next_a fl a) (next_b fl b) (next_c fl c) (next_t fl ft t) a b c t) as [_ E2].
    rewrite ver_lt_iff_not_le in E1. rewrite ver_lt_iff_not_le.
    rewrite (svt_cmp_new fl ft a b c t G) in E1.
    destruct (ver_le (svt (next_a fl a) (next_b fl b) (next_c fl c) (next_t fl ft t)) (svt a b c t));
      destruct (accepted fl ft t); cbn [negb] in *; try (split; reflexivity);
      destruct (changes fl ft t); discriminate E1. }
  split; [|split].
  2:{ intros G A. rewrite (proj1 (Hcmp G)). exact A. }
  2:{ intros G A. rewrite (proj1 (Hcmp G)). exact A. }
  unfold test_cmd_v2. rewrite Hft, validate_tag_ok. cbn [negb].
  rewrite validate_flags_P. cbn [negb].
  assert (Hdate : (match option_map Some d with Some _ => true | None => false end) && f_pin_date fl = false).
  { destruct d; cbn [option_map]; [rewrite Hd; reflexivity|reflexivity]. }
  rewrite Hdate.
  assert (Hin : forall dd, incr today (svt a b c t) P fl dd = incr_spec fl ft a b c t).
  { intros dd. apply svt_incr. exact Hft. }
  assert (Hres : match incr_spec fl ft a b c t with
                 | INew s => match is_valid_version_v2 today P (svt a b c t) s with
                             | GateOk => Exit0 s (to_pep440 s) | _ => ExitErr end
                 | _ => ExitErr
                 end = (if tagnum_on_final fl ft t then ExitErr
                        else if accepted fl ft t then Exit0 new (to_pep440 new) else ExitErr)).
  { unfold incr_spec. destruct (tagnum_on_final fl ft t) eqn:G; [reflexivity|].
    destruct (Hcmp eq_refl) as [_ Hle].
    destruct (changes fl ft t) eqn:C.
    - fold new. unfold is_valid_version_v2. unfold new at 1, svt_new. rewrite svt_parse_eq.
      fold (svt_new fl ft a b c t). fold new. rewrite Hle. destruct (accepted fl ft t); reflexivity.
    - assert (A : accepted fl ft t = false).
      { unfold accepted, changes in *. apply orb_false_elim in C as [C Cn]. apply orb_false_elim in C as [Cp Ce].
        apply negb_false_iff in Ce. rewrite Cp, Cn, andb_false_r, orb_false_r. cbn [orb].
        apply eqb_otag_eq in Ce. rewrite Ce. apply N.ltb_irrefl. }
      rewrite A. reflexivity. }
  destruct d as [z|]; cbn [option_map]; rewrite Hin; exact Hres.
Qed.

(* every value cli._validate_release_tag lets through is one of the six tag names: the abstraction ft loses nothing *)
Theorem valid_tag_abstract : forall fl, validate_release_tag (f_tag fl) = true ->
  exists ft, f_tag fl = option_map ltext ft.
Proof.
  intros fl H. destruct (f_tag fl) as [s|] eqn:E.
  - cbn [validate_release_tag] in H. destruct (valid_is_ltext s H) as [x Hx]. exists (Some x). rewrite Hx. reflexivity.
  - exists None. reflexivity.
Qed.
Theorem invalid_tag_rejected : forall today old fl d sv, validate_release_tag (f_tag fl) = false ->
  test_cmd_v2 today old P fl d sv = ExitErr.
Proof. intros today old fl d sv H. unfold test_cmd_v2. rewrite H. reflexivity. Qed.

(* ------------------------------------------------------------------ the flag families of the README, spelled out *)
Definition date_ok (fl : flags) (d : option Z) : Prop := match d with Some _ => f_pin_date fl = false | None => True end.
(* the tag state after a part bump: TAG is KEPT, NUM goes back to 0 *)
Definition reset_num (t : tstate) : tstate := match t with Some (p, _) => Some (p, 0) | None => None end.
(* the tag state --tag T asks for *)
Definition fresh_tag (T : option ptag) : tstate := match T with Some p => Some (p, 0) | None => None end.

(* no flag at all: nothing changes and the command fails *)
Corollary svt_cmd_noflag : forall today fl a b c t d,
  f_tag fl = None -> f_tag_num fl = false -> part_flag fl = false -> date_ok fl d ->
  test_cmd_v2 today (svt a b c t) P fl (option_map Some d) None = ExitErr.
Proof.
  intros today fl a b c t d Ht Hn Hp Hd.
  destruct (svt_test_cmd today fl None a b c t d Ht Hd) as (H & _). rewrite H.
  unfold tagnum_on_final, accepted. rewrite Hn, Hp, andb_false_r. cbn [andb orb next_otag].
  rewrite N.ltb_irrefl. reflexivity.
Qed.

(* --major / --minor / --patch without tag flags: the leftmost flagged part is incremented, the parts to its
   right are reset, the tag is kept and its number is reset to 0 *)
Corollary svt_cmd_parts : forall today fl a b c t d,
  f_tag fl = None -> f_tag_num fl = false -> part_flag fl = true -> date_ok fl d ->
  let new := svt (next_a fl a) (next_b fl b) (next_c fl c) (reset_num t) in
  test_cmd_v2 today (svt a b c t) P fl (option_map Some d) None = Exit0 new (to_pep440 new)
  /\ ver_lt (svt a b c t) new = true.
Proof.
  intros today fl a b c t d Ht Hn Hp Hd new.
  destruct (svt_test_cmd today fl None a b c t d Ht Hd) as (H & H2 & _).
  assert (E : svt_new fl None a b c t = new).
  { unfold new, svt_new, next_t, next_num. rewrite Hp. destruct t as [[p n]|]; reflexivity. }
  assert (G : tagnum_on_final fl None t = false) by (unfold tagnum_on_final; rewrite Hn; reflexivity).
  assert (A : accepted fl None t = true) by (unfold accepted; rewrite Hp; reflexivity).
  rewrite E in *. rewrite G, A in H. split; [exact H|exact (H2 G A)].
Qed.

(* --tag T alone: accepted exactly when T ranks higher than the current tag (dev < a < b < rc < final < post);
   the number restarts at 0.  The same tag, or a lower one, fails *)
Corollary svt_cmd_tag : forall today fl T a b c t d,
  f_tag fl = Some (ltext T) -> f_tag_num fl = false -> part_flag fl = false -> date_ok fl d ->
  let new := svt a b c (fresh_tag T) in
  test_cmd_v2 today (svt a b c t) P fl (option_map Some d) None
    = (if trank (otag t) <? trank T then Exit0 new (to_pep440 new) else ExitErr)
  /\ ver_lt (svt a b c t) new = (trank (otag t) <? trank T).
Proof.
  intros today fl T a b c t d Ht Hn Hp Hd new.
  destruct (svt_test_cmd today fl (Some T) a b c t d Ht Hd) as (H & H2 & H3).
  assert (G : tagnum_on_final fl (Some T) t = false) by (unfold tagnum_on_final; rewrite Hn; reflexivity).
  assert (A : accepted fl (Some T) t = (trank (otag t) <? trank T)).
  { unfold accepted. rewrite Hn, Hp, andb_false_r, orb_false_r. reflexivity. }
  assert (E : trank (otag t) <? trank T = true -> svt_new fl (Some T) a b c t = new).
  { intros Q. unfold new, svt_new, next_a, next_b, next_c, next_t, next_num. cbn [next_otag].
    unfold part_flag in Hp. apply orb_false_elim in Hp as [Hp Hc]. apply orb_false_elim in Hp as [Ha Hb].
    unfold part_flag. rewrite Ha, Hb, Hc. cbn [orb].
    destruct (eqb_otag T (otag t)) eqn:Q'; [|reflexivity].
    apply eqb_otag_eq in Q'. rewrite Q', N.ltb_irrefl in Q. discriminate Q. }
  rewrite G, A in H. rewrite H.
  destruct (trank (otag t) <? trank T) eqn:Q.
  - rewrite (E eq_refl) in *. split; [reflexivity|]. apply (H2 G). exact A.
  - split; [reflexivity|].
    (* the candidate is not greater either *)
    destruct (svt_order a b c t a b c (fresh_tag T)) as [O _]. unfold new. rewrite O.
    unfold svt_cmp. rewrite (o_refl (ord_list N.compare ord_N)). cbn [lexc].
    assert (Eo : otag (fresh_tag T) = T) by (destruct T; reflexivity). rewrite Eo.
    unfold N.ltb in Q. destruct (trank (otag t) ?= trank T) eqn:Q2; try discriminate Q; cbn [lexc]; try reflexivity.
    apply N.compare_eq_iff in Q2.
    assert (En : tnum (fresh_tag T) = 0) by (destruct T; reflexivity). rewrite En.
    destruct (tnum t ?= 0) eqn:Q3; try reflexivity. rewrite N.compare_lt_iff in Q3. exfalso. lia.
Qed.

(* --tag-num alone: the number of a tagged version goes up by one; a final version has no number to bump *)
Corollary svt_cmd_tagnum : forall today fl a b c p n d,
  f_tag fl = None -> f_tag_num fl = true -> part_flag fl = false -> date_ok fl d ->
  let new := svt a b c (Some (p, n + 1)) in
  test_cmd_v2 today (svt a b c (Some (p, n))) P fl (option_map Some d) None = Exit0 new (to_pep440 new)
  /\ ver_lt (svt a b c (Some (p, n))) new = true.
Proof.
  intros today fl a b c p n d Ht Hn Hp Hd new.
  destruct (svt_test_cmd today fl None a b c (Some (p, n)) d Ht Hd) as (H & H2 & _).
  assert (G : tagnum_on_final fl None (Some (p, n)) = false) by (unfold tagnum_on_final; rewrite Hn; reflexivity).
  assert (A : accepted fl None (Some (p, n)) = true).
  { unfold accepted. rewrite Hn, Hp. cbn [next_otag]. rewrite eqb_otag_refl, orb_true_r. reflexivity. }
  assert (E : svt_new fl None a b c (Some (p, n)) = new).
  { unfold new, svt_new, next_a, next_b, next_c, next_t, next_num. cbn [next_otag otag tnum].
    rewrite (eqb_otag_refl (Some p)), Hn, Hp.
    unfold part_flag in Hp. apply orb_false_elim in Hp as [Hp Hc]. apply orb_false_elim in Hp as [Ha Hb].
    rewrite Ha, Hb, Hc. reflexivity. }
  rewrite E in *. rewrite G, A in H. split; [exact H|exact (H2 G A)].
Qed.
Corollary svt_cmd_tagnum_final : forall today fl ft a b c t d,
  f_tag fl = option_map ltext ft -> f_tag_num fl = true -> next_otag ft t = None -> date_ok fl d ->
  test_cmd_v2 today (svt a b c t) P fl (option_map Some d) None = ExitErr.
Proof.
  intros today fl ft a b c t d Ht Hn Ho Hd.
  destruct (svt_test_cmd today fl ft a b c t d Ht Hd) as (H & _). rewrite H.
  unfold tagnum_on_final. rewrite Hn, Ho. reflexivity.
Qed.

(* --tag T together with a part flag (no --tag-num): always accepted *)
Corollary svt_cmd_tag_parts : forall today fl T a b c t d,
  f_tag fl = Some (ltext T) -> f_tag_num fl = false -> part_flag fl = true -> date_ok fl d ->
  let new := svt (next_a fl a) (next_b fl b) (next_c fl c) (fresh_tag T) in
  test_cmd_v2 today (svt a b c t) P fl (option_map Some d) None = Exit0 new (to_pep440 new)
  /\ ver_lt (svt a b c t) new = true.
Proof.
  intros today fl T a b c t d Ht Hn Hp Hd new.
  destruct (svt_test_cmd today fl (Some T) a b c t d Ht Hd) as (H & H2 & _).
  assert (G : tagnum_on_final fl (Some T) t = false) by (unfold tagnum_on_final; rewrite Hn; reflexivity).
  assert (A : accepted fl (Some T) t = true) by (unfold accepted; rewrite Hp; reflexivity).
  assert (E : svt_new fl (Some T) a b c t = new).
  { unfold new, svt_new, next_t, next_num. rewrite Hp. cbn [next_otag]. destruct T; reflexivity. }
  rewrite E in *. rewrite G, A in H. split; [exact H|exact (H2 G A)].
Qed.

(* --tag T --tag-num, no part flag, T not final: on the same tag the number goes up, on another tag it restarts at 0
   and the rank decides *)
Corollary svt_cmd_tag_tagnum : forall today fl p a b c t d,
  f_tag fl = Some (ltext (Some p)) -> f_tag_num fl = true -> part_flag fl = false -> date_ok fl d ->
  let new := svt a b c (Some (p, if eqb_otag (Some p) (otag t) then tnum t + 1 else 0)) in
  test_cmd_v2 today (svt a b c t) P fl (option_map Some d) None
    = (if eqb_otag (Some p) (otag t) || (trank (otag t) <? trank (Some p)) then Exit0 new (to_pep440 new) else ExitErr).
Proof.
  intros today fl p a b c t d Ht Hn Hp Hd new.
  destruct (svt_test_cmd today fl (Some (Some p)) a b c t d Ht Hd) as (H & _).
  assert (G : tagnum_on_final fl (Some (Some p)) t = false) by (unfold tagnum_on_final; rewrite andb_false_r; reflexivity).
  assert (A : accepted fl (Some (Some p)) t = eqb_otag (Some p) (otag t) || (trank (otag t) <? trank (Some p))).
  { unfold accepted. rewrite Hn, Hp, andb_true_r. cbn [orb next_otag]. apply orb_comm. }
  assert (E : svt_new fl (Some (Some p)) a b c t = new).
  { unfold new, svt_new, next_a, next_b, next_c, next_t, next_num. cbn [next_otag]. rewrite Hn, Hp.
    unfold part_flag in Hp. apply orb_false_elim in Hp as [Hp Hc]. apply orb_false_elim in Hp as [Ha Hb].
    rewrite Ha, Hb, Hc. reflexivity. }
  rewrite E in *. rewrite G, A in H. exact H.
Qed.

(* ------------------------------------------------------------------ the notation on samples, and the closed form against the model *)
Example svt_samples :
  svt 1 2 3 None = [49;46;50;46;51]                                         (* 1.2.3 *)
  /\ svt 1 2 3 (Some (Pb, 0)) = [49;46;50;46;51;98;48]                      (* 1.2.3b0 *)
  /\ svt 1 2 3 (Some (Prc, 2)) = [49;46;50;46;51;114;99;50]                 (* 1.2.3rc2 *)
  /\ svt 10 0 7 (Some (Ppost, 12)) = [49;48;46;48;46;55;112;111;115;116;49;50]  (* 10.0.7post12 *)
  /\ to_pep440 (svt 1 2 3 (Some (Pdev, 0))) = [49;46;50;46;51;46;100;101;118;48]. (* 1.2.3.dev0 *)
Proof. rewrite to_pep440_svt. repeat split; reflexivity. Qed.

Print Assumptions svt_parse_eq.
Print Assumptions svt_parse.
Print Assumptions svt_format_gen.
Print Assumptions svt_format_final_with_num.
Print Assumptions svt_format.
Print Assumptions parse_svt.
Print Assumptions svt_inj.
Print Assumptions to_pep440_svt.
Print Assumptions svt_order.
Print Assumptions svt_incr.
Print Assumptions svt_test_cmd.
Print Assumptions valid_tag_abstract.
Print Assumptions invalid_tag_rejected.
Print Assumptions svt_cmd_noflag.
Print Assumptions svt_cmd_parts.
Print Assumptions svt_cmd_tag.
Print Assumptions svt_cmd_tagnum.
Print Assumptions svt_cmd_tagnum_final.
Print Assumptions svt_cmd_tag_parts.
Print Assumptions svt_cmd_tag_tagnum.
