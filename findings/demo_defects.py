"""Demonstrations of genuine defects found in bumpver (run: PYTHONPATH=/repo/src /venv/bin/python demo_defects.py).
Each function returns True when the defect is PRESENT."""
import os, sys, tempfile, subprocess, shutil, datetime as dt
from bumpver import v2version, v1version, v2patterns, v2rewrite, v1rewrite, v1patterns, version, vcs, parse

def f2_c03_same_line():
    vp = "MAJOR.MINOR.PATCH"
    pats = v2patterns.compile_patterns(vp, ["{version}", "Copyright YYYY"])
    nv = v2version.parse_version_info("1.2.4", vp)._replace(year_y=2031)
    rfd = v2rewrite.rfd_from_content(pats, nv, "v 1.2.3 Copyright 2020\n")
    return rfd.new_lines[0] != "v 1.2.4 Copyright 2031"

def f3_c05_pin_week0():
    version.TODAY = dt.date(2020, 9, 30)
    new = v2version.incr("2020.0.1", "YYYY.WW.PATCH", patch=False, major=False, pin_date=True, maybe_date=None, pin_increments=False, tag=None, tag_num=False, minor=False)
    # pinned date: week must stay 0; only change possible is none -> expect None (no change) ; defect: week replaced by today's
    return new is not None and not new.startswith("2020.0.")

def f4_c06_partial_write():
    d = tempfile.mkdtemp()
    try:
        os.chdir(d)
        open("a.txt", "w").write("ver 1.2.3\n"); open("b.txt", "w").write("nothing here\n")
        vp = "MAJOR.MINOR.PATCH"
        fp = {"a.txt": v2patterns.compile_patterns(vp, ["ver {version}"]), "b.txt": v2patterns.compile_patterns(vp, ["ver {version}"])}
        nv = v2version.parse_version_info("1.2.4", vp)
        try:
            v2rewrite.rewrite_files(fp, nv)
        except Exception:
            pass
        return open("a.txt").read() != "ver 1.2.3\n"
    finally:
        os.chdir("/"); shutil.rmtree(d)

def f5_c07_pipe():
    p = v2patterns.compile_pattern("MAJOR", "a|b")
    return p.regexp.search("a") is not None

def f7_c09_impossible_date():
    try:
        v2version.is_valid("2020.02.30", "YYYY.0M.0D")
        return False
    except ValueError:
        return True

def f8_c01_v1_prefix():
    return v1version.is_valid("v201801.0002.5", "{pycalver}")

def f9_c11_status_split():
    api = vcs.VCSAPI("git")
    api.__class__.__call__, old = (lambda self, cmd, env=None, **kw: " M a.txt\n"), api.__class__.__call__
    try:
        return api.status({"a.txt"}) != ["a.txt"]
    finally:
        api.__class__.__call__ = old

def f10_c12_requote():
    import shlex
    seen = []
    import subprocess as sp
    old = sp.check_output
    sp.check_output = lambda parts, **kw: (seen.append(parts), b"")[1]
    try:
        try:
            vcs.VCSAPI("git")("commit", message="a 'b' c")
        except ValueError:
            return True
        return seen[-1][-1] != "a 'b' c"
    finally:
        sp.check_output = old

if __name__ == "__main__":
    rc = 0
    for name, fn in sorted(globals().items()):
        if name.startswith("f") and callable(fn) and name[1].isdigit():
            print(name, "DEFECT PRESENT" if fn() else "ok")
