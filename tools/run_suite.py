#!/usr/bin/env python3
"""usage: run_suite.py <worktree>  -- run the pinned test suite in <worktree> (its own src on PYTHONPATH)
and compare with /root/.vp/BASELINE.json's stable_pass set.  Exit 0 iff every stable test still passes."""
import json, os, subprocess, sys, tempfile, xml.etree.ElementTree as ET
wt = os.path.abspath(sys.argv[1])
xml = tempfile.mktemp(suffix=".xml")
env = dict(os.environ, PYTHONPATH=os.path.join(wt, "src"))
env.pop("BUMPVER_VERIF", None)
subprocess.run(["/venv/bin/python", "-m", "pytest", "-q", "-p", "no:cacheprovider", "--timeout=900",
                "--continue-on-collection-errors", "--junitxml=" + xml], cwd=wt, env=env,
               stdout=subprocess.DEVNULL, stderr=subprocess.DEVNULL, timeout=3000)
import re
def norm(name):
    # some test ids embed the current month (v<YYYYMM>.1001-alpha-<YYYYMM>.1001a0): compare them independently of the day the suite runs
    return re.sub(r"v\d{6}\.1001-alpha-\d{6}\.1001a0", "v<YYYYMM>.1001-alpha-<YYYYMM>.1001a0", name)
b = json.load(open("/root/.vp/BASELINE.json"))
b["stable_pass"] = sorted(set(norm(x) for x in b["stable_pass"]))
passed = set()
for tc in ET.parse(xml).iter("testcase"):
    name = (tc.get("classname") or "") + "::" + tc.get("name")
    if not any(c.tag in ("failure", "error", "skipped") for c in tc):
        passed.add(norm(name))
os.unlink(xml)
missing = sorted(set(b["stable_pass"]) - passed)
print("stable tests passing: %d/%d" % (len(b["stable_pass"]) - len(missing), len(b["stable_pass"])))
for m in missing[:20]:
    print("  NOW FAILING:", m)
sys.exit(1 if missing else 0)
