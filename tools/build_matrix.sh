#!/bin/sh
# For every seeded change: which T1 sections fail and which Props/*.vo no longer build (proof-side effect only,
# no harness).  Shows which properties' obligations a change touches -- used to find alarms on properties the
# change does not violate.  Works in its own copies (/tmp/verif_bm, /tmp/bm_repo); /repo and /verif are untouched.
bm=/tmp/verif_bm; wt=/tmp/bm_repo; out=${1:-/verif/seeded/BUILD_MATRIX.md}
mkdir -p $bm; rsync -a --delete --exclude .git --exclude replays --exclude 'coq/Cases' /verif/ $bm/
[ -d $wt ] || git -C /repo worktree add -q --detach $wt HEAD
echo "# Proof obligations touched by each seeded change (tools/build_matrix.sh, $(date -u +%F))" > $out
echo "" >> $out; echo "| seed | T1 sections that fail | Props that no longer build |" >> $out; echo "|---|---|---|" >> $out
for d in /verif/seeded/C*-*; do
  name=$(basename $d)
  git -C $wt checkout -q -- . ; git -C $wt clean -fdq
  (cd $wt && git apply $d/patch.diff) || { echo "| $name | patch does not apply | |" >> $out; continue; }
  (cd $bm && /venv/bin/python translate/t1_tables.py $wt coq/Gen >/tmp/bm_t1.log 2>&1)
  secs=$(grep -o "section [a-z_]*" /tmp/bm_t1.log | cut -d' ' -f2 | tr '\n' ' ')
  (cd $bm/coq && timeout 2400 make -k -j16 > /tmp/bm_make.log 2>&1)
  bad2=""
  for f in $bm/coq/Props/C*.v; do t=Props/$(basename ${f%.v}).vo; (cd $bm/coq && make -q $t >/dev/null 2>&1) || bad2="$bad2 $(basename ${f%.v})"; done
  firsterr=$(grep -B1 -A0 "^Error" /tmp/bm_make.log | grep -o 'File "[^"]*"' | sort -u | tr '\n' ' ' | sed 's#File "./##g; s#"##g')
  echo "| $name | $secs | $bad2 (first errors in: $firsterr) |" >> $out
done
git -C $wt checkout -q -- . ; git -C $wt clean -fdq
git -C /repo worktree remove --force $wt; rm -rf $bm
echo done
