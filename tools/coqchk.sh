#!/bin/sh
# Re-checks every compiled property file (and everything it depends on) with Coq's independent checker
# and records the axioms it reports.  Takes a few minutes and several GB of memory; not part of the per-property checks.
cd /verif/coq || exit 2
mkdir -p /verif/reports
mods=$(ls Props/C*.v | sed 's/\.v$//; s#/#.#; s#^#BV.#')
( echo "# coqchk -o on $(echo $mods | wc -w) property modules, $(date -u +%FT%TZ), $(coqchk --version 2>/dev/null | head -1)";
  timeout 3600 coqchk -silent -o -Q . BV $mods 2>&1 | tail -40 ) > /verif/reports/coqchk.txt
tail -25 /verif/reports/coqchk.txt
