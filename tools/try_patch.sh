#!/bin/sh
# usage: try_patch.sh <patch.diff> <ID> [ID...]   -- apply a seeded change to /repo, run the checks, always undo.
patch="$1"; shift
cd /repo || exit 2
git diff --quiet || { echo "/repo is dirty"; exit 2; }
git apply "$patch" || { echo "patch does not apply"; exit 2; }
trap 'git -C /repo checkout -- . ; git -C /repo clean -fdq src' EXIT
for id in "$@"; do
  echo "=== $id with $(basename $(dirname $patch))/$(basename $patch)"
  (cd /verif && ./check $id quick 2>&1 | grep -E "^(VIOLATION|OK|KNOWN|  )" | cut -c1-300 | head -6)
done
