#!/usr/bin/env python3
"""usage: restate.py <ID> <Module e.g. Proofs.DottedFacts> <imports, comma separated> name1 name2 ...
Appends to coq/Props/<ID>.v restatements `Theorem <ID>_<name> : <type as printed by Check>. Proof. exact <name>. Qed.`
followed by Print Assumptions.  The type is obtained from Coq itself (Check), so the statement is the theorem's own."""
import subprocess, sys, os, re, tempfile
args = sys.argv[1:]
typed = "--by-type" in args          # state the theorem as `type of <name>` (robust against notation scopes); the printed type goes into a comment
if typed:
    args.remove("--by-type")
pid, module, imports = args[0], args[1], args[2]
names = args[3:]
coq = "/verif/coq"
hdr = "From Coq Require Import List Bool NArith ZArith Arith.\nFrom BV Require Import %s %s.\nImport ListNotations.\n" % (" ".join(x for x in imports.split(",") if x), module)
src = hdr + "Set Printing Width 160.\nSet Printing Depth 1000.\n" + "".join("Check %s.\n" % n for n in names)
d = tempfile.mkdtemp()
open(os.path.join(d, "q.v"), "w").write(src)
out = subprocess.run(["coqc", "-Q", coq, "BV", os.path.join(d, "q.v")], capture_output=True, text=True)
if out.returncode != 0:
    print(out.stderr); sys.exit(1)
blocks = re.split(r"\n(?=\S)", out.stdout.strip())
types = {}
for b in blocks:
    m = re.match(r"(\w+)\s*\n?\s*:\s*(.*)", b, re.S)
    if m:
        types[m.group(1)] = " ".join(m.group(2).split())
add = ["", "(* ---- %s ---- *)" % module, hdr.strip()]
for n in names:
    if n not in types:
        print("no type for", n); sys.exit(1)
    if typed:
        add.append("(* %s :\n   %s *)\nTheorem %s_%s : ltac:(let t := type of %s in exact t).\nProof. exact %s. Qed.\nPrint Assumptions %s_%s.\n"
                   % (n, types[n].replace("(*", "( *").replace("*)", "* )").replace('"', "'"), pid, n, n, n, pid, n))
    else:
        add.append("Theorem %s_%s : %s.\nProof. exact %s. Qed.\nPrint Assumptions %s_%s.\n" % (pid, n, types[n], n, pid, n))
p = os.path.join(coq, "Props", pid + ".v")
s = open(p).read()
open(p, "w").write(s.rstrip("\n") + "\n" + "\n".join(add))
print("appended %d theorems to %s" % (len(names), p))
