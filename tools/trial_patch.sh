#!/bin/sh
# usage: trial_patch.sh <patch file> <ID> [ID...]   (like trial.sh, for an arbitrary patch)
# Runs checks against a seeded change WITHOUT touching /repo or /verif's build: a copy of /verif under
# /tmp/verif_mut and a scratch worktree /tmp/mut_repo with the patch applied (VERIF_REPO points there).
name="$1"; shift  # path of a patch file
mut=/tmp/verif_mut; wt=/tmp/mut_repo
mkdir -p $mut
rsync -a --delete --exclude .git --exclude replays --exclude 'coq/Cases' /verif/ $mut/
[ -d $wt ] || git -C /repo worktree add -q --detach $wt HEAD
git -C $wt checkout -q --detach $(git -C /repo rev-parse HEAD); git -C $wt checkout -q -- . ; git -C $wt clean -fdq
(cd $wt && git apply $name) || { echo "patch does not apply"; exit 2; }
for id in "$@"; do
  out=$(cd $mut && VERIF_REPO=$wt VERIF_SCRATCH=/tmp ./check $id quick 2>&1 | grep -E "^(VIOLATION|OK|  )" | grep -v "^  broken: harness" | cut -c1-260 | head -4)
  echo "--- $name vs $id"; echo "$out"
done
git -C $wt checkout -q -- . ; git -C $wt clean -fdq
