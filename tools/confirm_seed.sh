#!/bin/sh
# usage: confirm_seed.sh <dir with patch.diff demo.py meta.json> <name>
# Confirms in a fresh scratch worktree: demo passes without the change, suite passes with it, demo fails with it.
# On success copies the seed to /verif/seeded/<name>/ (meta.json gets a "confirmed" record).
src="$1"; name="$2"
wt=/tmp/confirm_$$
git -C /repo worktree add -q --detach $wt HEAD || exit 2
trap 'git -C /repo worktree remove --force '$wt' 2>/dev/null; rm -rf '$wt' /tmp/confirm_run_$$' EXIT
mkdir -p /tmp/confirm_run_$$
run_demo() { (cd /tmp/confirm_run_$$ && PYTHONPATH=$wt/src timeout 600 /venv/bin/python "$src/demo.py" >/tmp/confirm_run_$$/out.txt 2>&1; echo $?); }
base=$(run_demo)
(cd $wt && git apply "$src/patch.diff") || { echo "patch does not apply"; exit 2; }
suite=$(python3 /verif/tools/run_suite.py $wt | head -1)
(cd $wt && git checkout -q -- README.md 2>/dev/null)
with=$(run_demo)
echo "$name: demo_without=$base demo_with=$with suite='$suite'"
if [ "$base" = "0" ] && [ "$with" = "1" ] && echo "$suite" | grep -q "500/500"; then
  mkdir -p /verif/seeded/$name
  cp "$src/patch.diff" "$src/demo.py" /verif/seeded/$name/
  python3 - "$src/meta.json" /verif/seeded/$name/meta.json "$suite" <<'PY'
import json, sys
m = json.load(open(sys.argv[1]))
m["confirmed"] = {"demo_exit_without_change": 0, "demo_exit_with_change": 1, "suite": sys.argv[3],
                  "how": "tools/confirm_seed.sh: fresh worktree of /repo HEAD under /tmp, run_suite.py, demo.py with PYTHONPATH=<worktree>/src"}
json.dump(m, open(sys.argv[2], "w"), indent=1)
PY
  echo "CONFIRMED -> /verif/seeded/$name"
else
  echo "NOT CONFIRMED"; tail -5 /tmp/confirm_run_$$/out.txt
fi
