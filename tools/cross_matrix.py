#!/usr/bin/env python3
"""Runs EVERY property check (quick) against EVERY seeded change, in isolated copies, to see which checks raise an alarm
for a change seeded against another property.  usage: cross_matrix.py [workers] [seed-name ...]
Each worker owns /tmp/xm_<k>/verif (copy of /verif) and /tmp/xm_<k>/repo (scratch worktree of /repo HEAD).
Writes /verif/seeded/CROSS_MATRIX.json and .md.  /repo and /verif are not touched (except the two output files)."""
import os, sys, json, subprocess, glob, queue, threading, time, re

args = [a for a in sys.argv[1:] if not a.startswith("--")]
workers = int(args[0]) if args and args[0].isdigit() else 6
names = args[1:] if len(args) > 1 else sorted(os.path.basename(d) for d in glob.glob("/verif/seeded/C*-*"))
PROPS = ["C%02d" % i for i in range(1, 21)]
OWN_ONLY = "--own-only" in sys.argv        # only the check of the seed's own property (a regression run of the detection table)
q = queue.Queue()
for n in names:
    q.put(n)
results, lock = {}, threading.Lock()
OUT = "/verif/seeded/CROSS_MATRIX.json"
# stored changes that do not violate the property they were seeded against (DESIGN.md section 9 says why)
NOT_OWN = {"C07-9": "outside the claim: needs a literal 0 directly in front of a part name (0Y, 0M), which the escaping rules do not cover",
           "C20-13": "outside the claim: legacy week parts are not among the parts the property lists (C20 assumptions)",
           "C17-13": "how the config file is read is C18's subject (a TOML number is not a version): caught by C18",
           "C20-11": "the seeding agent's own verdict; bytes outside the matched spans under the legacy engine: caught by C04 and C13",
           "C20-12": "the seeding agent's own verdict; symlinks / neighbour files under the legacy engine: caught by C04"}
if os.path.exists(OUT) and "--resume" in sys.argv:
    results = json.load(open(OUT))


def sh(cmd, **kw):
    return subprocess.run(cmd, shell=True, capture_output=True, text=True, **kw)


def worker(k):
    base = "/tmp/xm_%d" % k
    v, wt = base + "/verif", base + "/repo"
    os.makedirs(base, exist_ok=True)
    sh("rsync -a --delete --exclude .git --exclude replays --exclude coq/Cases /verif/ %s/" % v)
    if not os.path.isdir(wt):
        sh("git -C /repo worktree add -q --detach %s HEAD" % wt)
    while True:
        try:
            name = q.get_nowait()
        except queue.Empty:
            break
        if name in results and len(results[name]) == len(PROPS):
            continue
        sh("git -C %s checkout -q -- . ; git -C %s clean -fdq" % (wt, wt))
        if sh("cd %s && git apply /verif/seeded/%s/patch.diff" % (wt, name)).returncode != 0:
            with lock:
                results[name] = {"error": "patch does not apply"}
            continue
        row = {}
        for pid in ([name.split("-")[0]] if OWN_ONLY else PROPS):
            t0 = time.time()
            p = sh("cd %s && VERIF_REPO=%s VERIF_SCRATCH=%s timeout 1800 ./check %s quick" % (v, wt, base, pid))
            lines = [l for l in p.stdout.splitlines() if re.match(r"^(VIOLATION|OK|  )", l)]
            first = next((l for l in lines if l.startswith(("VIOLATION", "OK"))), "ERROR rc=%s %s" % (p.returncode, (p.stdout + p.stderr)[-200:]))
            detail = next((l.strip() for l in lines if l.startswith("  ")), "")
            row[pid] = dict(verdict="OK" if first.startswith("OK") else ("NOINPUT" if "no-failing-input-found" in first else ("VIOLATION" if first.startswith("VIOLATION") else "ERROR")),
                            detail=detail[:400], wall=round(time.time() - t0, 1))
        with lock:
            results[name] = row
            json.dump(results, open(OUT, "w"), indent=1, ensure_ascii=False)
    sh("git -C %s checkout -q -- . ; git -C %s clean -fdq" % (wt, wt))
    sh("git -C /repo worktree remove --force %s" % wt)
    sh("rm -rf %s" % base)


ts = [threading.Thread(target=worker, args=(k,)) for k in range(workers)]
[t.start() for t in ts]
[t.join() for t in ts]
with open("/verif/seeded/CROSS_MATRIX.md", "w") as f:
    f.write("# Every quick check against every seeded change (tools/cross_matrix.py)\n\nV = violation with failing input, N = obligation/correspondence broken without failing input, . = OK\n\n")
    f.write("| seed | " + " | ".join(p[1:] for p in PROPS) + " |\n|---|" + "---|" * len(PROPS) + "\n")
    for n in sorted(results):
        row = results[n]
        if "error" in row:
            f.write("| %s | %s |\n" % (n, row["error"]))
            continue
        f.write("| %s | " % n + " | ".join({"OK": ".", "VIOLATION": "V", "NOINPUT": "N", "ERROR": "E"}[row[p]["verdict"]] if p in row else " " for p in PROPS) + " |\n")
    f.write("\n## Alarms of checks other than the seed's own property\n\n")
    for n in sorted(results):
        row = results[n]
        if "error" in row:
            continue
        for p in PROPS:
            if p in row and row[p]["verdict"] != "OK" and p != n.split("-")[0]:
                f.write("* %s -> %s %s: %s\n" % (n, p, row[p]["verdict"], row[p]["detail"]))
with open("/verif/seeded/DETECTION.md", "w") as f:
    f.write("# Detection of the seeded changes by the check of their own property (from tools/cross_matrix.py, %s)\n\n" % time.strftime("%Y-%m-%d"))
    f.write("| seed | own check | what it reported |\n|------|-----------|------------------|\n")
    for n in sorted(results):
        row = results[n]
        if "error" in row:
            f.write("| %s | error | %s |\n" % (n, row["error"]))
            continue
        own = n.split("-")[0]
        v = row[own]
        if v["verdict"] == "OK" and n in NOT_OWN:
            f.write("| %s | not a violation of %s | %s |\n" % (n, own, NOT_OWN[n]))
            continue
        others = [p for p in PROPS if p != own and p in row and row[p]["verdict"] != "OK"]
        f.write("| %s | %s | %s%s |\n" % (n, {"OK": "MISSED", "VIOLATION": "caught (failing input)", "NOINPUT": "caught (obligation/correspondence, no failing input)", "ERROR": "error"}[v["verdict"]],
                                       v["detail"][:160].replace("|", "\\|"), ("; also reported by " + " ".join(others)) if others else ""))
print("done")
