"""Further T1 generators (registered into t1_tables.EXTRA_GENERATORS)."""
import ast
from t1_tables import (EXTRA_GENERATORS, parse_file, top_assign, top_func, cstr, dict_items, pair_list, str_seq,
                       emit_pairs, emit_strs, emit_str, die, q, comment)


def flag_names(node):
    """re.A | re.B  ->  ['A', 'B']"""
    if isinstance(node, ast.BinOp) and isinstance(node.op, ast.BitOr):
        return flag_names(node.left) + flag_names(node.right)
    if isinstance(node, ast.Attribute) and isinstance(node.value, ast.Name) and node.value.id == "re":
        return [node.attr]
    die("unsupported regex flag expression: " + ast.dump(node)[:80])


def gen_pep440(repo, out):
    mod = parse_file(repo, "setuptools_v65_version.py")
    emit_str(out, "VERSION_PATTERN", cstr(top_assign(mod, "VERSION_PATTERN")), "setuptools_v65_version.VERSION_PATTERN")
    # class Version: _regex = re.compile(r"^\s*" + VERSION_PATTERN + r"\s*$", re.VERBOSE | re.IGNORECASE)
    cls = [n for n in mod.body if isinstance(n, ast.ClassDef) and n.name == "Version"]
    if len(cls) != 1:
        die("class Version not found")
    rx = [n.value for n in cls[0].body if isinstance(n, ast.Assign) and len(n.targets) == 1
          and isinstance(n.targets[0], ast.Name) and n.targets[0].id == "_regex"]
    if len(rx) != 1:
        die("Version._regex not found")
    call = rx[0]
    ok = (isinstance(call, ast.Call) and isinstance(call.func, ast.Attribute) and call.func.attr == "compile" and len(call.args) == 2
          and not call.keywords)
    if not ok:
        die("Version._regex: expected re.compile(<expr>, <flags>)")
    e = call.args[0]
    ok = (isinstance(e, ast.BinOp) and isinstance(e.op, ast.Add) and isinstance(e.left, ast.BinOp) and isinstance(e.left.op, ast.Add)
          and isinstance(e.left.right, ast.Name) and e.left.right.id == "VERSION_PATTERN")
    if not ok:
        die("Version._regex: expected prefix + VERSION_PATTERN + suffix")
    emit_str(out, "VERSION_RE_PREFIX", cstr(e.left.left), "prefix of Version._regex")
    emit_str(out, "VERSION_RE_SUFFIX", cstr(e.right), "suffix of Version._regex")
    emit_strs(out, "VERSION_RE_FLAGS", sorted(flag_names(call.args[1])), "flags of Version._regex")
    # which regex method is used on it
    init = top_func(mod, "__init__", cls="Version")
    meths = [n.func.attr for n in ast.walk(init) if isinstance(n, ast.Call) and isinstance(n.func, ast.Attribute)
             and isinstance(n.func.value, ast.Attribute) and n.func.value.attr == "_regex"]
    if meths != ["search"]:
        die("Version.__init__: expected exactly one self._regex.search(...) call, got %r" % meths)
    lc = top_assign(mod, "_legacy_version_component_re")
    ok = isinstance(lc, ast.Call) and isinstance(lc.func, ast.Attribute) and lc.func.attr == "compile" and len(lc.args) == 2
    if not ok:
        die("_legacy_version_component_re: expected re.compile(pattern, flags)")
    emit_str(out, "LEGACY_COMPONENT_RE", cstr(lc.args[0]), "_legacy_version_component_re pattern")
    emit_strs(out, "LEGACY_COMPONENT_FLAGS", sorted(flag_names(lc.args[1])), "its flags")
    emit_pairs(out, "LEGACY_REPLACEMENT_MAP", dict_items(top_assign(mod, "_legacy_version_replacement_map")), "_legacy_version_replacement_map")


EXTRA_GENERATORS.append(gen_pep440)
