"""Further T1 generators (registered into t1_tables.EXTRA_GENERATORS)."""
import ast
from t1_tables import (EXTRA_GENERATORS, parse_file, top_assign, top_func, cstr, dict_items, pair_list, str_seq,
                       emit_pairs, emit_strs, emit_str, die, q, comment)


def flag_names(node):
    """re.A | re.B  ->  ['A', 'B']"""
    if isinstance(node, ast.BinOp) and isinstance(node.op, ast.BitOr):
        return flag_names(node.left) + flag_names(node.right)
    if isinstance(node, ast.Attribute) and isinstance(node.value, ast.Name) and node.value.id == "re":
        return [node.attr]
    die("unsupported regex flag expression: " + ast.dump(node)[:80])


def gen_pep440(repo, out):
    mod = parse_file(repo, "setuptools_v65_version.py")
    emit_str(out, "VERSION_PATTERN", cstr(top_assign(mod, "VERSION_PATTERN")), "setuptools_v65_version.VERSION_PATTERN")
    # class Version: _regex = re.compile(r"^\s*" + VERSION_PATTERN + r"\s*$", re.VERBOSE | re.IGNORECASE)
    cls = [n for n in mod.body if isinstance(n, ast.ClassDef) and n.name == "Version"]
    if len(cls) != 1:
        die("class Version not found")
    rx = [n.value for n in cls[0].body if isinstance(n, ast.Assign) and len(n.targets) == 1
          and isinstance(n.targets[0], ast.Name) and n.targets[0].id == "_regex"]
    if len(rx) != 1:
        die("Version._regex not found")
    call = rx[0]
    ok = (isinstance(call, ast.Call) and isinstance(call.func, ast.Attribute) and call.func.attr == "compile" and len(call.args) == 2
          and not call.keywords)
    if not ok:
        die("Version._regex: expected re.compile(<expr>, <flags>)")
    e = call.args[0]
    ok = (isinstance(e, ast.BinOp) and isinstance(e.op, ast.Add) and isinstance(e.left, ast.BinOp) and isinstance(e.left.op, ast.Add)
          and isinstance(e.left.right, ast.Name) and e.left.right.id == "VERSION_PATTERN")
    if not ok:
        die("Version._regex: expected prefix + VERSION_PATTERN + suffix")
    emit_str(out, "VERSION_RE_PREFIX", cstr(e.left.left), "prefix of Version._regex")
    emit_str(out, "VERSION_RE_SUFFIX", cstr(e.right), "suffix of Version._regex")
    emit_strs(out, "VERSION_RE_FLAGS", sorted(flag_names(call.args[1])), "flags of Version._regex")
    # which regex method is used on it
    init = top_func(mod, "__init__", cls="Version")
    meths = [n.func.attr for n in ast.walk(init) if isinstance(n, ast.Call) and isinstance(n.func, ast.Attribute)
             and isinstance(n.func.value, ast.Attribute) and n.func.value.attr == "_regex"]
    if meths != ["search"]:
        die("Version.__init__: expected exactly one self._regex.search(...) call, got %r" % meths)
    lc = top_assign(mod, "_legacy_version_component_re")
    ok = isinstance(lc, ast.Call) and isinstance(lc.func, ast.Attribute) and lc.func.attr == "compile" and len(lc.args) == 2
    if not ok:
        die("_legacy_version_component_re: expected re.compile(pattern, flags)")
    emit_str(out, "LEGACY_COMPONENT_RE", cstr(lc.args[0]), "_legacy_version_component_re pattern")
    emit_strs(out, "LEGACY_COMPONENT_FLAGS", sorted(flag_names(lc.args[1])), "its flags")
    emit_pairs(out, "LEGACY_REPLACEMENT_MAP", dict_items(top_assign(mod, "_legacy_version_replacement_map")), "_legacy_version_replacement_map")


EXTRA_GENERATORS.append(("pep440", gen_pep440))


# ---------------------------------------------------------------- rewrite: open() arguments and generator consumption
def open_calls(fn):
    out = []
    for n in ast.walk(fn):
        if isinstance(n, ast.Call) and isinstance(n.func, ast.Attribute) and n.func.attr == "open":
            kw = {}
            for k in n.keywords:
                if k.arg is None or not isinstance(k.value, ast.Constant):
                    die("open() call with non-constant keyword at line %d" % n.lineno)
                kw[k.arg] = k.value.value
            extra = set(kw) - {"mode", "newline", "encoding"}
            if extra:
                die("open() call with unexpected keywords %s at line %d" % (sorted(extra), n.lineno))
            # positional mode (second positional of io.open / first of Path.open) is not used by bumpver
            npos = len(n.args)
            is_io = isinstance(n.func.value, ast.Name) and n.func.value.id == "io"
            if npos > (1 if is_io else 0):
                die("open() call with positional mode at line %d" % n.lineno)
            out.append(kw)
    return out


def ostr(v):
    return "None" if v is None else "(Some %s)" % q(v)


def gen_rewrite(repo, out):
    out.write("(* open() keyword arguments in v1rewrite/v2rewrite: (where, mode, newline, encoding); None = keyword absent *)\n")
    rows = []
    eager = []
    for modname in ("v2rewrite.py", "v1rewrite.py"):
        mod = parse_file(repo, modname)
        for fname in ("iter_rewritten", "diff", "rewrite_files"):
            fn = top_func(mod, fname)
            calls = open_calls(fn)
            if len(calls) != 1:
                die("%s.%s: expected exactly one open() call, found %d" % (modname, fname, len(calls)))
            kw = calls[0]
            for key in ("mode", "newline", "encoding"):
                if key in kw and not isinstance(kw[key], str):
                    die("%s.%s: open(%s=...) is not a string" % (modname, fname, key))
            rows.append("  (%s, %s, %s, %s) (* %s.%s: %r *)" % (q(modname[:-3] + "." + fname), ostr(kw.get("mode")), ostr(kw.get("newline")),
                                                             ostr(kw.get("encoding")), modname, fname, kw))
        # rewrite_files: for file_data in list(iter_rewritten(...)) | iter_rewritten(...)
        fn = top_func(mod, "rewrite_files")
        loops = [n for n in fn.body if isinstance(n, ast.For)]
        if len(loops) != 1:
            die("%s.rewrite_files: expected exactly one for loop" % modname)
        it = loops[0].iter
        def is_iter_call(x):
            return isinstance(x, ast.Call) and isinstance(x.func, ast.Name) and x.func.id == "iter_rewritten"
        if is_iter_call(it):
            eager.append((modname, False))
        elif isinstance(it, ast.Call) and isinstance(it.func, ast.Name) and it.func.id in ("list", "tuple") and len(it.args) == 1 and is_iter_call(it.args[0]):
            eager.append((modname, True))
        else:
            die("%s.rewrite_files: unrecognised loop iterable %s" % (modname, ast.unparse(it)))
        # everything before the write loop must not write; the loop body must be: join, open(...), write
        body_calls = [n.func.attr for n in ast.walk(loops[0]) if isinstance(n, ast.Call) and isinstance(n.func, ast.Attribute)
                      and not (isinstance(n.func.value, ast.Name) and n.func.value.id == "logger")]
        if sorted(body_calls) != ["join", "open", "write"]:
            die("%s.rewrite_files: unexpected calls in the write loop: %s" % (modname, sorted(body_calls)))
    out.write("Definition OPEN_CALLS : list (list N * option (list N) * option (list N) * option (list N)) := [\n" + ";\n".join(rows) + "\n].\n\n")
    for modname, e in eager:
        out.write("(* %s.rewrite_files iterates over %s *)\nDefinition REWRITE_FILES_EAGER_%s : bool := %s.\n\n"
                  % (modname, "list(iter_rewritten(...))" if e else "the lazy generator iter_rewritten(...)", modname[:2].upper(), "true" if e else "false"))


EXTRA_GENERATORS.append(("rewrite", gen_rewrite))


# ---------------------------------------------------------------- legacy (v1) tables
def gen_v1(repo, out):
    mod = parse_file(repo, "v1patterns.py")
    emit_pairs(out, "V1_COMPOSITE_PART_PATTERNS", dict_items(top_assign(mod, "COMPOSITE_PART_PATTERNS")), "v1patterns.COMPOSITE_PART_PATTERNS")
    emit_pairs(out, "V1_PART_PATTERNS", dict_items(top_assign(mod, "PART_PATTERNS")), "v1patterns.PART_PATTERNS before _init_composite_patterns()")
    emit_pairs(out, "V1_PATTERN_PART_FIELDS", dict_items(top_assign(mod, "PATTERN_PART_FIELDS")), "v1patterns.PATTERN_PART_FIELDS")
    emit_pairs(out, "V1_FULL_PART_FORMATS", dict_items(top_assign(mod, "FULL_PART_FORMATS")), "v1patterns.FULL_PART_FORMATS")
    # _init_composite_patterns must be called at module level exactly once
    calls = [n for n in mod.body if isinstance(n, ast.Expr) and isinstance(n.value, ast.Call) and isinstance(n.value.func, ast.Name)
             and n.value.func.id == "_init_composite_patterns"]
    if len(calls) != 1:
        die("v1patterns: expected exactly one module-level call of _init_composite_patterns()")
    ver = parse_file(repo, "v1version.py")
    emit_pairs(out, "V1_ID_FIELDS_BY_PART", dict_items(top_assign(ver, "ID_FIELDS_BY_PART")), "v1version.ID_FIELDS_BY_PART")
    # the _normalized_pattern chain: version_pattern == <const>  ->  replace {pep440_version} by <const>
    fn = top_func(mod, "_normalized_pattern")
    chain = []
    node = next((s for s in fn.body if isinstance(s, ast.If)), None)
    while isinstance(node, ast.If):
        t = node.test
        if (isinstance(t, ast.Compare) and len(t.ops) == 1 and isinstance(t.ops[0], ast.Eq) and isinstance(t.left, ast.Name)
                and t.left.id == "version_pattern"):
            call = node.body[0].value if (len(node.body) == 1 and isinstance(node.body[0], ast.Assign)) else None
            ok = (isinstance(call, ast.Call) and isinstance(call.func, ast.Attribute) and call.func.attr == "replace" and len(call.args) == 2
                  and cstr(call.args[0]) == "{pep440_version}")
            if not ok:
                die("_normalized_pattern: unexpected branch body")
            chain.append((cstr(t.comparators[0]), cstr(call.args[1])))
        elif isinstance(t, ast.Compare) and isinstance(t.ops[0], ast.In):
            pass  # the final warning branch
        else:
            die("_normalized_pattern: unexpected test " + ast.unparse(t))
        node = node.orelse[0] if (len(node.orelse) == 1 and isinstance(node.orelse[0], ast.If)) else None
    emit_pairs(out, "V1_PEP440_MAPPING", chain, "v1patterns._normalized_pattern: version_pattern -> replacement of {pep440_version}")


EXTRA_GENERATORS.append(("v1", gen_v1))


# ---------------------------------------------------------------- vcs command templates
def gen_vcs(repo, out):
    mod = parse_file(repo, "vcs.py")
    node = top_assign(mod, "VCS_SUBCOMMANDS_BY_NAME")
    if not isinstance(node, ast.Dict):
        die("VCS_SUBCOMMANDS_BY_NAME: expected a dict literal")
    names = []
    for k, v in zip(node.keys, node.values):
        name = cstr(k)
        names.append(name)
        emit_pairs(out, "VCS_SUBCOMMANDS_%s" % name.upper(), dict_items(v), "vcs.VCS_SUBCOMMANDS_BY_NAME[%r]" % name)
    emit_strs(out, "VCS_NAMES", names, "order of vcs.VCS_SUBCOMMANDS_BY_NAME (get_vcs_api tries them in this order)")
    # VCSAPI.__call__: argv = [part.format(**kwargs) for part in shlex.split(cmd_tmpl)]  (split first, then format)
    fn = top_func(mod, "__call__", cls="VCSAPI")

    def is_split(n):
        return (isinstance(n, ast.Call) and isinstance(n.func, ast.Attribute) and n.func.attr == "split"
                and isinstance(n.func.value, ast.Name) and n.func.value.id == "shlex" and len(n.args) == 1)

    def has_format_of(node, name):
        return any(isinstance(c, ast.Call) and isinstance(c.func, ast.Attribute) and c.func.attr == "format"
                   and isinstance(c.func.value, ast.Name) and c.func.value.id == name for c in ast.walk(node))
    formatted_names = set()      # locals bound to the result of <something>.format(...)
    for n in ast.walk(fn):
        if isinstance(n, ast.Assign) and isinstance(n.value, ast.Call) and isinstance(n.value.func, ast.Attribute) and n.value.func.attr == "format":
            formatted_names |= {t.id for t in n.targets if isinstance(t, ast.Name)}
    split_then_format = format_then_split = False
    for n in ast.walk(fn):
        if isinstance(n, (ast.ListComp, ast.GeneratorExp)) and len(n.generators) == 1 and is_split(n.generators[0].iter) \
                and isinstance(n.generators[0].target, ast.Name) and has_format_of(n.elt, n.generators[0].target.id):
            split_then_format = True      # [part.format(**values) for part in shlex.split(template)]
        if is_split(n):
            a = n.args[0]
            if (isinstance(a, ast.Name) and a.id in formatted_names) or (isinstance(a, ast.Call) and isinstance(a.func, ast.Attribute) and a.func.attr == "format"):
                format_then_split = True  # shlex.split(template.format(**values))
    if split_then_format == format_then_split:
        die("VCSAPI.__call__: cannot tell whether the template is split before or after formatting")
    out.write("(* VCSAPI.__call__ splits the command template with shlex before substituting the values *)\n"
              "Definition VCS_SPLIT_BEFORE_FORMAT : bool := %s.\n\n" % ("true" if split_then_format else "false"))
    cfg = parse_file(repo, "config.py")
    emit_str(out, "DEFAULT_COMMIT_MESSAGE", cstr(top_assign(cfg, "DEFAULT_COMMIT_MESSAGE")), "config.DEFAULT_COMMIT_MESSAGE")
    emit_str(out, "DEFAULT_TAG_MESSAGE", cstr(top_assign(cfg, "DEFAULT_TAG_MESSAGE")), "config.DEFAULT_TAG_MESSAGE")


EXTRA_GENERATORS.append(("vcs", gen_vcs))


# ---------------------------------------------------------------- config: formats, candidates, defaults, init templates
def gen_config_pick(repo, out):
    mod = parse_file(repo, "config.py")
    emit_strs(out, "SUPPORTED_CONFIGS", str_seq(top_assign(mod, "SUPPORTED_CONFIGS")), "config.SUPPORTED_CONFIGS")
    # _pick_config_filepath: config_candidates = [path / "<name>", ...]
    fn = top_func(mod, "_pick_config_filepath")
    cand = None
    for n in fn.body:
        if isinstance(n, ast.AnnAssign) and isinstance(n.target, ast.Name) and n.target.id == "config_candidates":
            cand = n.value
        if isinstance(n, ast.Assign) and isinstance(n.targets[0], ast.Name) and n.targets[0].id == "config_candidates":
            cand = n.value
    if not isinstance(cand, ast.List):
        die("_pick_config_filepath: config_candidates list not found")
    names = []
    for e in cand.elts:
        if not (isinstance(e, ast.BinOp) and isinstance(e.op, ast.Div) and isinstance(e.left, ast.Name) and e.left.id == "path"):
            die("_pick_config_filepath: unexpected candidate " + ast.unparse(e))
        names.append(cstr(e.right))
    emit_strs(out, "CONFIG_CANDIDATES", names, "config._pick_config_filepath: candidate order")
    # the section test: (b"bumpver]" in data or b"pycalver]" in data) and b"current_version" in data ; fallback name
    import re as _re
    src = ast.unparse(fn)
    m = _re.search(r"b'bumpver\]' in (\w+)", src)
    if m:   # the name of the local holding the file's bytes does not matter
        src = _re.sub(r"\b%s\b" % _re.escape(m.group(1)), "data", src)
    want = "(b'bumpver]' in data or b'pycalver]' in data) and b'current_version' in data"
    if want not in src:
        die("_pick_config_filepath: the has_bumpver_section test changed: expected %s" % want)
    loops = [n for n in fn.body if isinstance(n, ast.For)]
    if len(loops) != 2:
        die("_pick_config_filepath: expected two loops over the candidates")
    ret = fn.body[-1]
    if not (isinstance(ret, ast.Return) and isinstance(ret.value, ast.BinOp) and isinstance(ret.value.right, ast.Constant)):
        die("_pick_config_filepath: unexpected fallback")
    emit_str(out, "CONFIG_FALLBACK", cstr(ret.value.right), "config._pick_config_filepath: fallback file name")


def gen_config_bool(repo, out):
    mod = parse_file(repo, "config.py")
    # BOOL_OPTIONS = {'commit': False, 'tag': None, 'push': None}
    bo = top_assign(mod, "BOOL_OPTIONS")
    if not isinstance(bo, ast.Dict):
        die("BOOL_OPTIONS: expected dict literal")
    rows = []
    for k, v in zip(bo.keys, bo.values):
        if not (isinstance(v, ast.Constant) and v.value in (False, None, True)):
            die("BOOL_OPTIONS: unexpected default")
        rows.append("  (%s, %s) (* %s: %r *)" % (q(cstr(k)), "None" if v.value is None else "(Some %s)" % ("true" if v.value else "false"), cstr(k), v.value))
    out.write("(* config.BOOL_OPTIONS: option -> default (None = decided later) *)\nDefinition BOOL_OPTIONS : list (list N * option bool) := [\n" + ";\n".join(rows) + "\n].\n\n")
    # truthy spellings in _parse_cfg: val.lower() in ("yes", "true", "1", "on")
    pc = top_func(mod, "_parse_cfg")
    tup = None
    for n in ast.walk(pc):
        if isinstance(n, ast.Compare) and len(n.ops) == 1 and isinstance(n.ops[0], ast.In) and isinstance(n.comparators[0], ast.Tuple):
            left = n.left
            if isinstance(left, ast.Call) and isinstance(left.func, ast.Attribute) and left.func.attr == "lower":
                tup = n.comparators[0]
    if tup is None:
        die("_parse_cfg: truthy spellings tuple not found")
    emit_strs(out, "INI_TRUTHY", str_seq(tup), "config._parse_cfg: val.lower() in (...)")


def gen_config_templates(repo, out):
    mod = parse_file(repo, "config.py")
    # string constants
    for name in ("DEFAULT_CONFIGPARSER_BASE_TMPL", "DEFAULT_CONFIGPARSER_SETUP_CFG_STR", "DEFAULT_CONFIGPARSER_SETUP_PY_STR", "DEFAULT_CONFIGPARSER_README_RST_STR",
                 "DEFAULT_CONFIGPARSER_README_MD_STR", "DEFAULT_PYPROJECT_TOML_BASE_TMPL", "DEFAULT_BUMPVER_TOML_BASE_TMPL", "DEFAULT_TOML_PYCALVER_STR",
                 "DEFAULT_TOML_BUMPVER_STR", "DEFAULT_TOML_DOT_BUMPVER_STR", "DEFAULT_TOML_PYPROJECT_STR", "DEFAULT_TOML_SETUP_PY_STR", "DEFAULT_TOML_README_RST_STR",
                 "DEFAULT_TOML_README_MD_STR"):
        node = top_assign(mod, name)
        # """...""".lstrip()
        if not (isinstance(node, ast.Call) and isinstance(node.func, ast.Attribute) and node.func.attr == "lstrip" and not node.args):
            die("%s: expected a string literal with .lstrip()" % name)
        emit_str(out, name, cstr(node.func.value).lstrip(), "config.%s (after .lstrip())" % name)
    # default_config: the two dicts filename -> template name, in order
    dc = top_func(mod, "default_config")
    dicts = [n.value for n in ast.walk(dc) if isinstance(n, ast.Assign) and isinstance(n.targets[0], ast.Name)
             and n.targets[0].id == "default_pattern_strs_by_filename" and isinstance(n.value, ast.Dict)]
    if len(dicts) != 2:
        die("default_config: expected two default_pattern_strs_by_filename dicts")
    for label, dnode in zip(("CFG", "TOML"), dicts):
        rows = []
        for k, v in zip(dnode.keys, dnode.values):
            if not isinstance(v, ast.Name):
                die("default_config: template is not a name")
            rows.append("  (%s, %s) (* %s *)" % (q(cstr(k)), v.id, cstr(k)))
        out.write("(* config.default_config: per-file pattern blocks for format %s, in dict order *)\n"
                  "Definition DEFAULT_PATTERNS_%s : list (list N * list N) := [\n%s\n].\n\n" % (label, label, ";\n".join(rows)))


EXTRA_GENERATORS.append(("config_pick", gen_config_pick))
EXTRA_GENERATORS.append(("config_bool", gen_config_bool))
EXTRA_GENERATORS.append(("config_templates", gen_config_templates))


def gen_config_init(repo, out):
    """_initial_version / _initial_version_pep440: return utils.now().strftime(<const>)"""
    mod = parse_file(repo, "config.py")
    for fname, coqname in (("_initial_version", "INITIAL_VERSION_FMT"), ("_initial_version_pep440", "INITIAL_VERSION_PEP440_FMT")):
        fn = top_func(mod, fname)
        body = [n for n in fn.body if not (isinstance(n, ast.Expr) and isinstance(n.value, ast.Constant))]
        if len(body) != 1 or not isinstance(body[0], ast.Return):
            die("%s: body is not a single return" % fname)
        call = body[0].value
        if not (isinstance(call, ast.Call) and isinstance(call.func, ast.Attribute) and call.func.attr == "strftime" and len(call.args) == 1
                and ast.unparse(call.func.value) == "utils.now()"):
            die("%s: expected utils.now().strftime(<format>), got %s" % (fname, ast.unparse(call)))
        emit_str(out, coqname, cstr(call.args[0]), "config.%s: utils.now().strftime(...)" % fname)


EXTRA_GENERATORS.append(("config_init", gen_config_init))

import t1_calls  # noqa: F401,E402  (structural call orders)
