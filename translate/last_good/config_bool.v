(* config.BOOL_OPTIONS: option -> default (None = decided later) *)
Definition BOOL_OPTIONS : list (list N * option bool) := [
  ([99;111;109;109;105;116], (Some false)) (* commit: False *);
  ([116;97;103], None) (* tag: None *);
  ([112;117;115;104], None) (* push: None *)
].

(* config._parse_cfg: val.lower() in (...) *)
Definition INI_TRUTHY : list (list N) := [
  [121;101;115] (* yes *);
  [116;114;117;101] (* true *);
  [49] (* 1 *);
  [111;110] (* on *)
].

