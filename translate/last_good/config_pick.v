(* config.SUPPORTED_CONFIGS *)
Definition SUPPORTED_CONFIGS : list (list N) := [
  [115;101;116;117;112;46;99;102;103] (* setup.cfg *);
  [112;121;112;114;111;106;101;99;116;46;116;111;109;108] (* pyproject.toml *);
  [112;121;99;97;108;118;101;114;46;116;111;109;108] (* pycalver.toml *);
  [98;117;109;112;118;101;114;46;116;111;109;108] (* bumpver.toml *);
  [46;98;117;109;112;118;101;114;46;116;111;109;108] (* .bumpver.toml *)
].

(* config._pick_config_filepath: candidate order *)
Definition CONFIG_CANDIDATES : list (list N) := [
  [112;121;99;97;108;118;101;114;46;116;111;109;108] (* pycalver.toml *);
  [98;117;109;112;118;101;114;46;116;111;109;108] (* bumpver.toml *);
  [46;98;117;109;112;118;101;114;46;116;111;109;108] (* .bumpver.toml *);
  [112;121;112;114;111;106;101;99;116;46;116;111;109;108] (* pyproject.toml *);
  [115;101;116;117;112;46;99;102;103] (* setup.cfg *)
].

(* config._pick_config_filepath: fallback file name : bumpver.toml *)
Definition CONFIG_FALLBACK : list N := [98;117;109;112;118;101;114;46;116;111;109;108].

