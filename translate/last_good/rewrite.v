(* open() keyword arguments in v1rewrite/v2rewrite: (where, mode, newline, encoding); None = keyword absent *)
Definition OPEN_CALLS : list (list N * option (list N) * option (list N) * option (list N)) := [
  ([118;50;114;101;119;114;105;116;101;46;105;116;101;114;95;114;101;119;114;105;116;116;101;110], (Some [114;116]), (Some []), (Some [117;116;102;45;56])) (* v2rewrite.py.iter_rewritten: {'mode': 'rt', 'newline': '', 'encoding': 'utf-8'} *);
  ([118;50;114;101;119;114;105;116;101;46;100;105;102;102], (Some [114;116]), (Some []), (Some [117;116;102;45;56])) (* v2rewrite.py.diff: {'mode': 'rt', 'newline': '', 'encoding': 'utf-8'} *);
  ([118;50;114;101;119;114;105;116;101;46;114;101;119;114;105;116;101;95;102;105;108;101;115], (Some [119;116]), (Some []), (Some [117;116;102;45;56])) (* v2rewrite.py.rewrite_files: {'mode': 'wt', 'newline': '', 'encoding': 'utf-8'} *);
  ([118;49;114;101;119;114;105;116;101;46;105;116;101;114;95;114;101;119;114;105;116;116;101;110], (Some [114;116]), (Some []), (Some [117;116;102;45;56])) (* v1rewrite.py.iter_rewritten: {'mode': 'rt', 'newline': '', 'encoding': 'utf-8'} *);
  ([118;49;114;101;119;114;105;116;101;46;100;105;102;102], (Some [114;116]), (Some []), (Some [117;116;102;45;56])) (* v1rewrite.py.diff: {'mode': 'rt', 'newline': '', 'encoding': 'utf-8'} *);
  ([118;49;114;101;119;114;105;116;101;46;114;101;119;114;105;116;101;95;102;105;108;101;115], (Some [119;116]), (Some []), (Some [117;116;102;45;56])) (* v1rewrite.py.rewrite_files: {'mode': 'wt', 'newline': '', 'encoding': 'utf-8'} *)
].

(* v2rewrite.py.rewrite_files iterates over list(iter_rewritten(...)) *)
Definition REWRITE_FILES_EAGER_V2 : bool := true.

(* v1rewrite.py.rewrite_files iterates over list(iter_rewritten(...)) *)
Definition REWRITE_FILES_EAGER_V1 : bool := true.

