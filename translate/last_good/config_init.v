(* config._initial_version: utils.now().strftime(...) : %Y.1001-alpha *)
Definition INITIAL_VERSION_FMT : list N := [37;89;46;49;48;48;49;45;97;108;112;104;97].

(* config._initial_version_pep440: utils.now().strftime(...) : %Y.1001a0 *)
Definition INITIAL_VERSION_PEP440_FMT : list N := [37;89;46;49;48;48;49;97;48].

