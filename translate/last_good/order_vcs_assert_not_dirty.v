(* vcs.assert_not_dirty *)
Definition ORDER_VCS_ASSERT_NOT_DIRTY : list (list N) := [
  [118;99;115;95;97;112;105;46;115;116;97;116;117;115] (* vcs_api.status *);
  [115;121;115;46;101;120;105;116] (* sys.exit *);
  [115;121;115;46;101;120;105;116] (* sys.exit *)
].

