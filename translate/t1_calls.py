"""T1 generators for structural facts about control flow: the order in which a function calls the
steps that matter for a property.  Registered from t1_more.py (import at its end)."""
import ast
from t1_tables import EXTRA_GENERATORS, parse_file, top_func, die, q, comment


def call_name(node):
    f = node.func
    if isinstance(f, ast.Name):
        return f.id
    if isinstance(f, ast.Attribute):
        base = f.value
        if isinstance(base, ast.Name):
            return base.id + "." + f.attr
        if isinstance(base, ast.Attribute) and isinstance(base.value, ast.Name):
            return base.value.id + "." + base.attr + "." + f.attr
        return "?." + f.attr
    return "?"


class Order(ast.NodeVisitor):
    """Source-order list of interesting events: calls by name, `return` and `sys.exit` inside `if <flag>:` blocks."""

    def __init__(self, interesting):
        self.interesting = interesting
        self.events = []

    def visit_Call(self, node):
        # arguments are evaluated before the call itself
        for a in list(node.args) + [k.value for k in node.keywords]:
            self.visit(a)
        self.visit(node.func)
        n = call_name(node)
        if n in self.interesting:
            self.events.append(n)

    def visit_If(self, node):
        t = node.test
        if isinstance(t, ast.Name) and t.id == "dry" and len(node.body) == 1 and isinstance(node.body[0], ast.Return):
            self.events.append("<if dry: return>")
            return
        self.generic_visit(node)


def order_of(mod, fname, interesting, cls=None):
    fn = top_func(mod, fname, cls=cls)
    o = Order(set(interesting))
    for st in fn.body:
        o.visit(st)
    return o.events


def emit_order(out, name, events, doc):
    out.write("(* %s *)\nDefinition %s : list (list N) := [\n" % (comment(doc), name))
    out.write(";\n".join("  %s (* %s *)" % (q(e), comment(e)) for e in events))
    out.write("\n].\n\n")


SPECS = [
    ("order_cli_update", "cli.py", "update", "ORDER_CLI_UPDATE",
     ["_validate_release_tag", "_validate_date", "config.init", "_parse_vcs_options", "_update_cfg_from_vcs", "incr_dispatch",
      "_is_valid_version", "_print_diff", "commit_msg_template.format", "tag_msg_template.format", "_try_update"],
     "cli.update: order of the steps (calls and the dry return)"),
    ("order_cli__update", "cli.py", "_update", "ORDER_CLI__UPDATE",
     ["vcs.get_vcs_api", "vcs.assert_not_dirty", "v2rewrite.rewrite_files", "v1rewrite.rewrite_files", "vcs.commit"],
     "cli._update: dirty check, rewrite, commit"),
    ("order_cli_test", "cli.py", "test", "ORDER_CLI_TEST",
     ["_validate_release_tag", "_validate_flags", "_validate_date", "incr_dispatch", "_is_valid_version", "version.to_pep440", "click.echo"],
     "cli.test: validation, increment, gate, output"),
    ("order_vcs_commit", "vcs.py", "commit", "ORDER_VCS_COMMIT",
     ["hooks.run", "vcs_api.add", "vcs_api.commit", "vcs_api.tag", "vcs_api.push_tag", "vcs_api.push"],
     "vcs.commit: pre hook, add, commit, post hook, tag, push"),
    ("order_vcs_assert_not_dirty", "vcs.py", "assert_not_dirty", "ORDER_VCS_ASSERT_NOT_DIRTY", ["vcs_api.status", "sys.exit"], "vcs.assert_not_dirty"),
    ("order_cli_init", "cli.py", "init", "ORDER_CLI_INIT", ["config.init", "sys.exit", "config.default_config", "config.write_content"],
     "cli.init: refuse, dry, write"),
]


def make_gen(rel, fname, coqname, interesting, doc):
    def gen(repo, out):
        emit_order(out, coqname, order_of(parse_file(repo, rel), fname, interesting), doc)
    return gen


for _sec, _rel, _fname, _coqname, _interesting, _doc in SPECS:
    EXTRA_GENERATORS.append((_sec, make_gen(_rel, _fname, _coqname, _interesting, _doc)))
