"""T1 generators for structural facts about control flow: the order in which a function calls the
steps that matter for a property.  Registered from t1_more.py (import at its end)."""
import ast
from t1_tables import EXTRA_GENERATORS, parse_file, top_func, die, q, comment


def call_name(node):
    f = node.func
    if isinstance(f, ast.Name):
        return f.id
    if isinstance(f, ast.Attribute):
        base = f.value
        if isinstance(base, ast.Name):
            return base.id + "." + f.attr
        if isinstance(base, ast.Attribute) and isinstance(base.value, ast.Name):
            return base.value.id + "." + base.attr + "." + f.attr
        return "?." + f.attr
    return "?"


class Order(ast.NodeVisitor):
    """Source-order list of interesting events: calls by name, `return` and `sys.exit` inside `if <flag>:` blocks."""

    def __init__(self, interesting):
        self.interesting = interesting
        self.events = []

    def visit_Call(self, node):
        # arguments are evaluated before the call itself
        for a in list(node.args) + [k.value for k in node.keywords]:
            self.visit(a)
        self.visit(node.func)
        n = call_name(node)
        if n in self.interesting:
            self.events.append(n)

    def visit_If(self, node):
        t = node.test
        if isinstance(t, ast.Name) and t.id == "dry" and len(node.body) == 1 and isinstance(node.body[0], ast.Return):
            self.events.append("<if dry: return>")
            return
        self.generic_visit(node)


def order_of(mod, fname, interesting, cls=None):
    fn = top_func(mod, fname, cls=cls)
    o = Order(set(interesting))
    for st in fn.body:
        o.visit(st)
    return o.events


def emit_order(out, name, events, doc):
    out.write("(* %s *)\nDefinition %s : list (list N) := [\n" % (comment(doc), name))
    out.write(";\n".join("  %s (* %s *)" % (q(e), comment(e)) for e in events))
    out.write("\n].\n\n")


def gen_calls(repo, out):
    cli = parse_file(repo, "cli.py")
    emit_order(out, "ORDER_CLI_UPDATE",
               order_of(cli, "update", ["_validate_release_tag", "_validate_date", "config.init", "_parse_vcs_options", "_update_cfg_from_vcs", "incr_dispatch",
                                        "_is_valid_version", "_print_diff", "commit_msg_template.format", "tag_msg_template.format", "_try_update"]),
               "cli.update: order of the steps (calls and the dry return)")
    emit_order(out, "ORDER_CLI__UPDATE",
               order_of(cli, "_update", ["vcs.get_vcs_api", "vcs.assert_not_dirty", "v2rewrite.rewrite_files", "v1rewrite.rewrite_files", "vcs.commit"]),
               "cli._update: dirty check, rewrite, commit")
    emit_order(out, "ORDER_CLI_TEST",
               order_of(cli, "test", ["_validate_release_tag", "_validate_flags", "_validate_date", "incr_dispatch", "_is_valid_version", "version.to_pep440", "click.echo"]),
               "cli.test: validation, increment, gate, output")
    vcs = parse_file(repo, "vcs.py")
    emit_order(out, "ORDER_VCS_COMMIT",
               order_of(vcs, "commit", ["hooks.run", "vcs_api.add", "vcs_api.commit", "vcs_api.tag", "vcs_api.push_tag", "vcs_api.push"]),
               "vcs.commit: pre hook, add, commit, post hook, tag, push")
    emit_order(out, "ORDER_VCS_ASSERT_NOT_DIRTY", order_of(vcs, "assert_not_dirty", ["vcs_api.status", "sys.exit"]), "vcs.assert_not_dirty")
    init = order_of(cli, "init", ["config.init", "sys.exit", "config.default_config", "config.write_content"])
    emit_order(out, "ORDER_CLI_INIT", init, "cli.init: refuse, dry, write")


EXTRA_GENERATORS.append(gen_calls)
