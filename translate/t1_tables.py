#!/venv/bin/python
"""T1 — table translator.  usage: t1_tables.py <repo> <outdir>

Reads /repo's sources with the `ast` module only (never imports or runs them), extracts the data
tables the Coq models quantify over and writes them as Coq text to <outdir>/Tables.v.
Fail-closed per section: any node whose shape is not exactly the expected one fails its section
(exit status 3, the section's last recorded text is emitted and the section is listed in
<outdir>/t1_status.json); exit status 2 when nothing can be produced.
Files are only rewritten when their content changes (so an unchanged tree costs no rebuild)."""
import ast, os, sys, io


class Unsupported(Exception):
    pass


def die(msg):
    raise Unsupported(msg)


def parse_file(repo, rel):
    path = os.path.join(repo, "src", "bumpver", rel)
    return ast.parse(open(path, encoding="utf-8").read(), filename=path)


def top_assign(mod, name):
    hits = []
    for node in mod.body:
        if isinstance(node, ast.Assign) and len(node.targets) == 1 and isinstance(node.targets[0], ast.Name) and node.targets[0].id == name:
            hits.append(node.value)
        elif isinstance(node, ast.AnnAssign) and isinstance(node.target, ast.Name) and node.target.id == name and node.value is not None:
            hits.append(node.value)
    if len(hits) != 1:
        die("expected exactly one top-level assignment to %s, found %d" % (name, len(hits)))
    return hits[0]


def top_func(mod, name, cls=None):
    body = mod.body
    if cls:
        cands = [n for n in mod.body if isinstance(n, ast.ClassDef) and n.name == cls]
        if len(cands) != 1:
            die("class %s not found" % cls)
        body = cands[0].body
    hits = [n for n in body if isinstance(n, ast.FunctionDef) and n.name == name]
    if len(hits) != 1:
        die("expected exactly one def %s, found %d" % (name, len(hits)))
    return hits[0]


def cstr(node):
    if isinstance(node, ast.Constant) and isinstance(node.value, str):
        return node.value
    die("expected a string constant at line %s, got %s" % (getattr(node, "lineno", "?"), ast.dump(node)[:80]))


def cname(node):
    if isinstance(node, ast.Name):
        return node.id
    die("expected a name, got %s" % ast.dump(node)[:80])


def dict_items(node, kf=cstr, vf=cstr):
    if not isinstance(node, ast.Dict):
        die("expected a dict literal, got %s" % ast.dump(node)[:80])
    out = []
    for k, v in zip(node.keys, node.values):
        if k is None:
            die("dict unpacking is not supported")
        out.append((kf(k), vf(v)))
    keys = [k for k, _ in out]
    if len(set(keys)) != len(keys):
        die("duplicate dict keys")
    return out


def pair_list(node, kf=cstr, vf=cstr):
    if not isinstance(node, (ast.List, ast.Tuple)):
        die("expected a list literal, got %s" % ast.dump(node)[:80])
    out = []
    for e in node.elts:
        if not (isinstance(e, ast.Tuple) and len(e.elts) == 2):
            die("expected 2-tuples")
        out.append((kf(e.elts[0]), vf(e.elts[1])))
    return out


def ordered_dict(node):
    ok = (isinstance(node, ast.Call) and isinstance(node.func, ast.Attribute) and node.func.attr == "OrderedDict"
          and len(node.args) == 1 and not node.keywords)
    if isinstance(node, ast.Dict):   # a plain dict literal keeps insertion order as well
        return dict_items(node)
    if not ok:
        die("expected collections.OrderedDict([...]) or a dict literal")
    return pair_list(node.args[0])


def str_seq(node):
    if not isinstance(node, (ast.List, ast.Tuple)):
        die("expected list/tuple of strings")
    return [cstr(e) for e in node.elts]


# ---------------------------------------------------------------- Coq emission
def q(s):
    return "[" + ";".join(str(ord(c)) for c in s) + "]"


def comment(s):
    return s.replace("(*", "( *").replace("*)", "* )").replace("\n", "\\n")


def emit_pairs(out, name, pairs, doc=""):
    out.write("(* %s *)\nDefinition %s : list (list N * list N) := [\n" % (comment(doc), name))
    out.write(";\n".join("  (%s, %s) (* %s -> %s *)" % (q(k), q(v), comment(k), comment(v)) for k, v in pairs))
    out.write("\n].\n\n")


def emit_strs(out, name, items, doc=""):
    out.write("(* %s *)\nDefinition %s : list (list N) := [\n" % (comment(doc), name))
    out.write(";\n".join("  %s (* %s *)" % (q(k), comment(k)) for k in items))
    out.write("\n].\n\n")


def emit_str(out, name, s, doc=""):
    out.write("(* %s : %s *)\nDefinition %s : list N := %s.\n\n" % (comment(doc), comment(s)[:200], name, q(s)))


# ---------------------------------------------------------------- formatter shapes
# kind -> the source shapes that denote it (equivalent spellings of the same formatter are accepted)
FMT_SHAPES = {
    "FmtStr": ["str(x)", "f'{x}'", "'%s' % x", "'{}'.format(x)"],
    "FmtInt": ["str(int(x))", "f'{int(x)}'", "'%d' % int(x)", "'{}'.format(int(x))"],
    "FmtLast2": ["str(int(str(x)[-2:]))", "f'{int(str(x)[-2:])}'", "'%d' % int(str(x)[-2:])"],
    "FmtLast2Pad": ["f'{int(str(x)[-2:]):02}'", "'%02d' % int(str(x)[-2:])", "'{:02}'.format(int(str(x)[-2:]))", "str(int(str(x)[-2:])).zfill(2)"],
    "FmtPad 2": ["f'{int(x):02}'", "'%02d' % int(x)", "'{:02}'.format(int(x))", "str(int(x)).zfill(2)", "f'{int(x):02d}'", "'{:02d}'.format(int(x))"],
    "FmtPad 3": ["f'{int(x):03}'", "'%03d' % int(x)", "'{:03}'.format(int(x))", "str(int(x)).zfill(3)", "f'{int(x):03d}'", "'{:03d}'.format(int(x))"],
}


def norm_expr(node, arg):
    class R(ast.NodeTransformer):
        def visit_Name(self, n):
            return ast.copy_location(ast.Name(id="x" if n.id == arg else n.id, ctx=ast.Load()), n)
    return ast.dump(R().visit(node))


def fmt_kind(mod, fname):
    fn = top_func(mod, fname)
    if len(fn.args.args) != 1 or fn.args.vararg or fn.args.kwarg or fn.args.kwonlyargs:
        die("formatter %s: unexpected signature" % fname)
    body = [s for s in fn.body if not (isinstance(s, ast.Expr) and isinstance(s.value, ast.Constant))]
    if len(body) != 1 or not isinstance(body[0], ast.Return):
        die("formatter %s: body is not a single return" % fname)
    got = norm_expr(body[0].value, fn.args.args[0].arg)
    for kind, srcs in FMT_SHAPES.items():
        for src in srcs:
            if got == ast.dump(ast.parse(src, mode="eval").body):
                return kind
    die("formatter %s: unknown shape %s" % (fname, ast.unparse(body[0].value)))


# ---------------------------------------------------------------- the tables
HEADER = ("(* GENERATED by /verif/translate/t1_tables.py from the working tree's src/bumpver -- do not edit. *)\n"
          "From Coq Require Import List NArith.\nFrom BV Require Import Lib.Types.\nImport ListNotations.\nLocal Open Scope N_scope.\n\n")


def gen_core(repo, out):
    v2p = parse_file(repo, "v2patterns.py")
    emit_pairs(out, "PART_PATTERNS", ordered_dict(top_assign(v2p, "PART_PATTERNS")), "v2patterns.PART_PATTERNS (order preserved)")
    emit_pairs(out, "PATTERN_PART_FIELDS", dict_items(top_assign(v2p, "PATTERN_PART_FIELDS")), "v2patterns.PATTERN_PART_FIELDS")
    emit_pairs(out, "PEP440_PART_SUBSTITUTIONS", dict_items(top_assign(v2p, "PEP440_PART_SUBSTITUTIONS")), "v2patterns.PEP440_PART_SUBSTITUTIONS")
    fmts = dict_items(top_assign(v2p, "PART_FORMATS"), vf=cname)
    out.write("(* v2patterns.PART_FORMATS with each _fmt_* body classified by shape *)\nDefinition PART_FORMATS : list (list N * fmt_kind) := [\n")
    out.write(";\n".join("  (%s, %s) (* %s -> %s *)" % (q(k), fmt_kind(v2p, v), k, v) for k, v in fmts))
    out.write("\n].\n\n")

    pat = parse_file(repo, "patterns.py")
    emit_pairs(out, "RE_PATTERN_ESCAPES", pair_list(top_assign(pat, "RE_PATTERN_ESCAPES")), "patterns.RE_PATTERN_ESCAPES")

    ver = parse_file(repo, "version.py")
    emit_pairs(out, "TAG_BY_PEP440_TAG", dict_items(top_assign(ver, "TAG_BY_PEP440_TAG")), "version.TAG_BY_PEP440_TAG")
    emit_pairs(out, "PEP440_TAG_BY_TAG", dict_items(top_assign(ver, "PEP440_TAG_BY_TAG")), "version.PEP440_TAG_BY_TAG")
    emit_pairs(out, "PART_ZERO_VALUES", dict_items(top_assign(ver, "PART_ZERO_VALUES")), "version.PART_ZERO_VALUES")
    emit_pairs(out, "V2_FIELD_INITIAL_VALUES", dict_items(top_assign(ver, "V2_FIELD_INITIAL_VALUES")), "version.V2_FIELD_INITIAL_VALUES")

    cli = parse_file(repo, "cli.py")
    emit_strs(out, "VALID_RELEASE_TAG_VALUES", str_seq(top_assign(cli, "VALID_RELEASE_TAG_VALUES")), "cli.VALID_RELEASE_TAG_VALUES")


# (section name, generator).  Sections are extracted independently: when one can no longer be read
# (fail-closed), its last recorded text (translate/last_good/<section>.v, committed, only rewritten by
# `t1_tables.py --record`) is emitted instead so that the rest of the development still builds, and
# the section is reported as failed; the checks of the properties that rest on it then report a
# broken obligation, the other properties are not affected.
SECTIONS = [("core", gen_core)]
EXTRA_GENERATORS = SECTIONS   # historical name used by t1_more / t1_calls: they append (name, fn)
LAST_GOOD = os.path.join(os.path.dirname(os.path.abspath(__file__)), "last_good")


def gen_sections(repo):
    """-> (list of (name, text), {failed section: message})"""
    texts, failed = [], {}
    for name, fn in SECTIONS:
        buf = io.StringIO()
        try:
            fn(repo, buf)
            texts.append((name, buf.getvalue()))
        except (Unsupported, SyntaxError, OSError, AttributeError, IndexError, KeyError, TypeError, ValueError) as ex:
            failed[name] = "%s: %s" % (type(ex).__name__, ex)
            lg = os.path.join(LAST_GOOD, name + ".v")
            if not os.path.exists(lg):
                raise Unsupported("section %s failed (%s) and has no recorded text" % (name, ex))
            texts.append((name, "(* SECTION %s COULD NOT BE EXTRACTED: last recorded text *)\n" % name + open(lg, encoding="utf-8").read()))
    return texts, failed


def write_if_changed(path, text):
    old = open(path, encoding="utf-8").read() if os.path.exists(path) else None
    if old != text:
        os.makedirs(os.path.dirname(path), exist_ok=True)
        with open(path, "w", encoding="utf-8") as f:
            f.write(text)
        return True
    return False


def main():
    import json
    args = [a for a in sys.argv[1:] if a != "--record"]
    record = "--record" in sys.argv[1:]
    repo, outdir = args[0], args[1]
    try:
        import t1_more  # noqa: F401  (registers further sections)
        texts, failed = gen_sections(repo)
    except (Unsupported, SyntaxError, OSError) as ex:
        print("T1 FAIL-CLOSED: %s" % ex)
        return 2
    if record:
        if failed:
            print("T1: cannot record, failed sections: %s" % failed)
            return 2
        os.makedirs(LAST_GOOD, exist_ok=True)
        for name, text in texts:
            write_if_changed(os.path.join(LAST_GOOD, name + ".v"), text)
    changed = write_if_changed(os.path.join(outdir, "Tables.v"), HEADER + "".join(t for _, t in texts))
    write_if_changed(os.path.join(outdir, "t1_status.json"), json.dumps(dict(failed=failed, sections=[n for n, _ in texts]), indent=1))
    if failed:
        for k, v in failed.items():
            print("T1 FAIL-CLOSED section %s: %s" % (k, v))
        return 3
    print("T1 ok (%s)" % ("Tables.v rewritten" if changed else "unchanged"))
    return 0


if __name__ == "__main__":
    sys.path.insert(0, os.path.dirname(os.path.abspath(__file__)))
    import t1_tables  # run through the imported module so that t1_more shares its state
    sys.exit(t1_tables.main())
